package probe

import (
	"fmt"
	"sync"
	"unsafe"

	"github.com/awnumar/memcall"
)

// MCRegion is the shadow state of one region handed out by Alloc.
type MCRegion struct {
	Base   uintptr
	Len    int
	Gen    int
	Mapped bool
	Locked bool
	Prot   string // rw | ro | none
	// HeldSecret is set once the region content was observed (or must be assumed) non-zero.
	EverNonZero bool
	// Adopted: the region was allocated elsewhere and registered when first seen
	Adopted bool
}

// MCEvent is one memcall call.
type MCEvent struct {
	Seq   int64
	Idx   int
	Op    string
	Base  uintptr
	Gen   int
	Fault bool
	Err   string
	Note  string
}

// Memcall monitors (and perturbs) the memory primitives used by the secure-memory implementations. It delegates
// to the real github.com/awnumar/memcall, so pages are real.
type Memcall struct {
	mu      sync.Mutex
	n       int
	FailAt  map[int]bool
	regions map[uintptr]*MCRegion // by base address, current generation
	gen     int
	Events  []MCEvent
	// AdoptUnknown registers regions that were allocated elsewhere (memguard allocates inside its own library)
	// the first time they are seen instead of reporting them.
	AdoptUnknown bool
	// LenientFree makes Free of an adopted region succeed when the real munmap refuses it (memguard's inner pages
	// are part of a larger mapping with guard pages; whether a partial release is accepted differs between set-ups).
	// The shadow then treats the region as released. Used to drive the clean-up paths that only run when the
	// release succeeds.
	LenientFree bool
	// Problems collects protocol violations seen by the monitor itself.
	Problems []string
}

// NewMemcall returns an empty monitor.
func NewMemcall() *Memcall {
	return &Memcall{FailAt: map[int]bool{}, regions: map[uintptr]*MCRegion{}}
}

func base(b []byte) uintptr {
	if len(b) == 0 {
		return 0
	}
	return uintptr(unsafe.Pointer(unsafe.SliceData(b)))
}

func (m *Memcall) next(op string, b []byte) (ev *MCEvent, fail bool) {
	idx := m.n
	m.n++
	fail = m.FailAt[idx]
	m.Events = append(m.Events, MCEvent{Seq: Seq.Add(1), Idx: idx, Op: op, Base: base(b), Fault: fail})
	return &m.Events[len(m.Events)-1], fail
}

func (m *Memcall) problem(f string, a ...any) {
	m.Problems = append(m.Problems, fmt.Sprintf(f, a...))
}

// lookup finds the live region containing b; reports a problem when b is not inside a mapped region.
func (m *Memcall) lookup(op string, b []byte) *MCRegion {
	p := base(b)
	for _, r := range m.regions {
		if p >= r.Base && p < r.Base+uintptr(r.Len) {
			if !r.Mapped {
				m.problem("%s on a region that has already been freed (base %#x, generation %d)", op, r.Base, r.Gen)
				return nil
			}
			return r
		}
	}
	if m.AdoptUnknown {
		m.gen++
		r := &MCRegion{Base: p, Len: len(b), Gen: m.gen, Mapped: true, Locked: true, Prot: "rw", Adopted: true}
		m.regions[p] = r
		return r
	}
	m.problem("%s on memory that was never allocated through this interface (%#x)", op, p)
	return nil
}

func nonZero(b []byte) bool {
	for _, x := range b {
		if x != 0 {
			return true
		}
	}
	return false
}

// Alloc implements the memcall interface.
func (m *Memcall) Alloc(size int) ([]byte, error) {
	m.mu.Lock()
	defer m.mu.Unlock()
	ev, fail := m.next("alloc", nil)
	if fail {
		ev.Err = ErrInjected.Error()
		return nil, fmt.Errorf("alloc: %w", ErrInjected)
	}
	b, err := memcall.Alloc(size)
	if err != nil {
		ev.Err = err.Error()
		return nil, err
	}
	m.gen++
	// the mapping is page aligned; remember the span actually handed out
	r := &MCRegion{Base: base(b), Len: len(b), Gen: m.gen, Mapped: true, Prot: "rw"}
	m.regions[r.Base] = r
	ev.Base, ev.Gen = r.Base, r.Gen
	return b, nil
}

// Lock implements the memcall interface.
func (m *Memcall) Lock(b []byte) error {
	m.mu.Lock()
	defer m.mu.Unlock()
	ev, fail := m.next("lock", b)
	r := m.lookup("lock", b)
	if fail {
		ev.Err = ErrInjected.Error()
		return fmt.Errorf("lock: %w", ErrInjected)
	}
	if r == nil {
		return fmt.Errorf("lock: unknown region")
	}
	if err := memcall.Lock(b); err != nil {
		ev.Err = err.Error()
		return err
	}
	r.Locked = true
	ev.Gen = r.Gen
	return nil
}

// Unlock implements the memcall interface.
func (m *Memcall) Unlock(b []byte) error {
	m.mu.Lock()
	defer m.mu.Unlock()
	ev, fail := m.next("unlock", b)
	r := m.lookup("unlock", b)
	if r != nil {
		ev.Gen = r.Gen
		m.inspect("unlock", r, b, ev)
	}
	if fail {
		ev.Err = ErrInjected.Error()
		return fmt.Errorf("unlock: %w", ErrInjected)
	}
	if r == nil {
		return fmt.Errorf("unlock: unknown region")
	}
	if err := memcall.Unlock(b); err != nil {
		ev.Err = err.Error()
		return err
	}
	r.Locked = false
	return nil
}

// inspect reads the region when it is readable and notes whether secret bytes are still in it.
func (m *Memcall) inspect(op string, r *MCRegion, b []byte, ev *MCEvent) {
	if r.Prot == "none" {
		ev.Note = "content not readable (no-access) at " + op
		if r.EverNonZero {
			m.problem("%s of region %#x (generation %d) while it is still no-access: its secret bytes cannot have been wiped", op, r.Base, r.Gen)
		}
		return
	}
	if nonZero(b) {
		ev.Note = "CONTENT NON-ZERO at " + op
		m.problem("%s of region %#x (generation %d) whose %d bytes still hold non-zero (secret) content", op, r.Base, r.Gen, len(b))
	} else {
		ev.Note = "content zero at " + op
	}
}

// Free implements the memcall interface.
func (m *Memcall) Free(b []byte) error {
	m.mu.Lock()
	defer m.mu.Unlock()
	ev, fail := m.next("free", b)
	r := m.lookup("free", b)
	if r != nil {
		ev.Gen = r.Gen
		if r.Locked && !fail {
			ev.Note += "; freed while still locked"
		}
	}
	if fail {
		ev.Err = ErrInjected.Error()
		return fmt.Errorf("free: %w", ErrInjected)
	}
	if r == nil {
		return fmt.Errorf("free: unknown region")
	}
	if r.Prot != "rw" {
		// munmap works on any protection; keep the shadow consistent
	}
	if err := memcall.Free(b); err != nil {
		if !(m.LenientFree && r.Adopted) {
			ev.Err = err.Error()
			return err
		}
		ev.Note += "; real munmap refused (" + err.Error() + "), treated as released (lenient)"
	}
	r.Mapped, r.Locked = false, false
	delete(m.regions, r.Base)
	// keep a tombstone so that later calls on the same address are recognised as use-after-free
	m.regions[r.Base] = r
	return nil
}

// Protect implements the memcall interface.
func (m *Memcall) Protect(b []byte, mpf memcall.MemoryProtectionFlag) error {
	m.mu.Lock()
	defer m.mu.Unlock()
	name := "none"
	switch mpf {
	case memcall.ReadWrite():
		name = "rw"
	case memcall.ReadOnly():
		name = "ro"
	}
	ev, fail := m.next("protect:"+name, b)
	r := m.lookup("protect:"+name, b)
	if r != nil {
		ev.Gen = r.Gen
		if name == "none" && r.Prot != "none" && nonZero(b) {
			r.EverNonZero = true
		}
	}
	if fail {
		ev.Err = ErrInjected.Error()
		return fmt.Errorf("protect: %w", ErrInjected)
	}
	if r == nil {
		return fmt.Errorf("protect: unknown region")
	}
	if err := memcall.Protect(b, mpf); err != nil {
		ev.Err = err.Error()
		return err
	}
	r.Prot = name
	return nil
}

// N returns the number of calls so far.
func (m *Memcall) N() int { m.mu.Lock(); defer m.mu.Unlock(); return m.n }

// Trace renders the calls with index >= from.
func (m *Memcall) Trace(from int) []string {
	m.mu.Lock()
	defer m.mu.Unlock()
	var out []string
	for _, e := range m.Events {
		if e.Idx >= from {
			s := fmt.Sprintf("%d:%s", e.Idx, e.Op)
			if e.Fault {
				s += " FAULT"
			}
			if e.Note != "" {
				s += " [" + e.Note + "]"
			}
			out = append(out, s)
		}
	}
	return out
}

// Live returns the regions that are still mapped.
func (m *Memcall) Live() []MCRegion {
	m.mu.Lock()
	defer m.mu.Unlock()
	var out []MCRegion
	for _, r := range m.regions {
		if r.Mapped {
			out = append(out, *r)
		}
	}
	return out
}

// TakeProblems returns and clears the monitor's own findings.
func (m *Memcall) TakeProblems() []string {
	m.mu.Lock()
	defer m.mu.Unlock()
	p := m.Problems
	m.Problems = nil
	return p
}

// OpsFrom lists the op names of the calls with index >= from.
func (m *Memcall) OpsFrom(from int) []string {
	m.mu.Lock()
	defer m.mu.Unlock()
	var out []string
	for _, e := range m.Events {
		if e.Idx >= from {
			out = append(out, e.Op)
		}
	}
	return out
}

// EventsFrom returns a copy of the calls with index >= from.
func (m *Memcall) EventsFrom(from int) []MCEvent {
	m.mu.Lock()
	defer m.mu.Unlock()
	var out []MCEvent
	for _, e := range m.Events {
		if e.Idx >= from {
			out = append(out, e)
		}
	}
	return out
}

// ReadableNonZero returns the mapped regions whose pages are currently accessible (not PROT_NONE) and hold at least
// one non-zero byte. Reading them is safe precisely because they are accessible.
func (m *Memcall) ReadableNonZero() []MCRegion {
	m.mu.Lock()
	defer m.mu.Unlock()
	var out []MCRegion
	for _, r := range m.regions {
		if !r.Mapped || r.Prot == "none" || r.Len == 0 {
			continue
		}
		b := unsafe.Slice((*byte)(unsafe.Pointer(r.Base)), r.Len)
		if nonZero(b) {
			out = append(out, *r)
		}
	}
	return out
}
