package probe

import (
	"context"
	"fmt"
	"sync"
	"time"

	"github.com/godaddy/asherah/go/appencryption"
)

// CopyEKR deep-copies an envelope key record.
func CopyEKR(e *appencryption.EnvelopeKeyRecord) *appencryption.EnvelopeKeyRecord {
	if e == nil {
		return nil
	}
	c := *e
	c.EncryptedKey = append([]byte(nil), e.EncryptedKey...)
	if e.ParentKeyMeta != nil {
		pm := *e.ParentKeyMeta
		c.ParentKeyMeta = &pm
	}
	return &c
}

// MSCall is one metastore call as seen at the SDK's plug-in boundary.
type MSCall struct {
	Seq     int64
	Idx     int
	Who     string
	At      time.Time // (virtual) time at which the call began
	Op      string    // load | loadlatest | store
	ID      string
	Created int64
	In      *appencryption.EnvelopeKeyRecord
	Out     *appencryption.EnvelopeKeyRecord
	OK      bool
	Err     string
	Fault   string
	Delay   time.Duration
}

func (c MSCall) String() string {
	s := fmt.Sprintf("%s %s(%s", c.Who, c.Op, c.ID)
	if c.Op != "loadlatest" {
		s += fmt.Sprintf(",%d", c.Created)
	}
	s += ")"
	switch c.Op {
	case "store":
		s += fmt.Sprintf("=%v", c.OK)
	default:
		if c.Out != nil {
			s += fmt.Sprintf("=>%d", c.Out.Created)
			if c.Out.Revoked {
				s += "R"
			}
		} else {
			s += "=>nil"
		}
	}
	if c.Err != "" {
		s += " err"
	}
	if c.Fault != "" {
		s += " FAULT:" + c.Fault
	}
	return s
}

// Fault kinds understood by Metastore.
const (
	FaultErr        = "err"         // call returns an error and has no effect
	FaultFalse      = "false"       // Store returns (false, nil) without writing (false duplicate / lost write)
	FaultWriteErr   = "write-err"   // Store writes, then returns (false, err) (error after write)
	FaultWriteFalse = "write-false" // Store writes, then returns (false, nil) (acknowledgement lost)
)

// Metastore monitors (and optionally perturbs / gates) any appencryption.Metastore.
type Metastore struct {
	Inner appencryption.Metastore

	mu     sync.Mutex
	calls  []MSCall
	n      int
	Faults map[int]string        // call index -> fault kind
	Delays map[int]time.Duration // call index -> (virtual) latency before the call executes
	// ReadFaultIn > 0 makes the n-th read (Load/LoadLatest) from now fail with a transient error; writes are unaffected
	ReadFaultIn int
	// FailReadsOf, while non-empty, makes every read (Load/LoadLatest) of that key id fail: the record is unreadable
	// for as long as the outage lasts, however often the caller retries
	FailReadsOf string
	Latency     func(op string) time.Duration // optional random latency source
	// Gate, when set, is called before every call is executed (outside the monitor's mutex);
	// a scheduler blocks here to decide which pending call goes next.
	Gate func(c *MSCall)
	// PreInner, when set, is called immediately before an insert is handed to the wrapped metastore (after all of
	// the monitor's own bookkeeping): a barrier here makes inserts of several goroutines overlap as tightly as possible.
	PreInner func(c *MSCall)
	// Who labels the calling "process" (set by the harness per goroutine via WhoFn).
	WhoFn func() string
	// Drop disables call retention (counters stay exact) for long stress runs.
	Drop   bool
	counts map[string]int
}

// NewMetastore wraps inner.
func NewMetastore(inner appencryption.Metastore) *Metastore {
	return &Metastore{Inner: inner, Faults: map[int]string{}, Delays: map[int]time.Duration{}, counts: map[string]int{}}
}

func (m *Metastore) begin(op, id string, created int64, in *appencryption.EnvelopeKeyRecord) (*MSCall, string) {
	c := &MSCall{Seq: Seq.Add(1), Op: op, ID: id, Created: created, In: CopyEKR(in), At: time.Now()}
	if m.WhoFn != nil {
		c.Who = m.WhoFn()
	}
	if m.Gate != nil {
		m.Gate(c)
	}
	m.mu.Lock()
	c.Idx = m.n
	m.n++
	f := m.Faults[c.Idx]
	if op != "store" && m.ReadFaultIn > 0 {
		m.ReadFaultIn--
		if m.ReadFaultIn == 0 {
			f = FaultErr
		}
	}
	if op != "store" && m.FailReadsOf != "" && id == m.FailReadsOf {
		f = FaultErr
	}
	d := m.Delays[c.Idx]
	m.counts[op]++
	m.counts[op+":"+id]++
	lat := m.Latency
	m.mu.Unlock()
	if lat != nil && d == 0 {
		d = lat(op)
	}
	if d > 0 {
		time.Sleep(d)
		c.Delay = d
	}
	c.Fault = f
	return c, f
}

func (m *Metastore) end(c *MSCall) {
	c.Seq = Seq.Add(1)
	m.mu.Lock()
	if !m.Drop {
		m.calls = append(m.calls, *c)
	}
	m.mu.Unlock()
}

// Load implements appencryption.Metastore.
func (m *Metastore) Load(ctx context.Context, id string, created int64) (*appencryption.EnvelopeKeyRecord, error) {
	c, f := m.begin("load", id, created, nil)
	defer m.end(c)
	if f != "" {
		c.Err = ErrInjected.Error()
		return nil, fmt.Errorf("metastore load: %w", ErrInjected)
	}
	out, err := m.Inner.Load(ctx, id, created)
	c.Out = CopyEKR(out)
	if err != nil {
		c.Err = err.Error()
	}
	return out, err
}

// LoadLatest implements appencryption.Metastore.
func (m *Metastore) LoadLatest(ctx context.Context, id string) (*appencryption.EnvelopeKeyRecord, error) {
	c, f := m.begin("loadlatest", id, 0, nil)
	defer m.end(c)
	if f != "" {
		c.Err = ErrInjected.Error()
		return nil, fmt.Errorf("metastore loadlatest: %w", ErrInjected)
	}
	out, err := m.Inner.LoadLatest(ctx, id)
	c.Out = CopyEKR(out)
	if err != nil {
		c.Err = err.Error()
	}
	return out, err
}

// Store implements appencryption.Metastore.
func (m *Metastore) Store(ctx context.Context, id string, created int64, e *appencryption.EnvelopeKeyRecord) (bool, error) {
	c, f := m.begin("store", id, created, e)
	defer m.end(c)
	switch f {
	case FaultErr:
		c.Err = ErrInjected.Error()
		return false, fmt.Errorf("metastore store: %w", ErrInjected)
	case FaultFalse:
		return false, nil
	case FaultWriteErr:
		_, _ = m.Inner.Store(ctx, id, created, e)
		c.Err = ErrInjected.Error()
		return false, fmt.Errorf("metastore store (after write): %w", ErrInjected)
	case FaultWriteFalse:
		_, _ = m.Inner.Store(ctx, id, created, e)
		return false, nil
	}
	if m.PreInner != nil {
		m.PreInner(c)
	}
	ok, err := m.Inner.Store(ctx, id, created, e)
	c.OK = ok
	if err != nil {
		c.Err = err.Error()
	}
	return ok, err
}

// N returns the number of calls begun so far.
func (m *Metastore) N() int { m.mu.Lock(); defer m.mu.Unlock(); return m.n }

// Calls returns a copy of the retained call log.
func (m *Metastore) Calls() []MSCall {
	m.mu.Lock()
	defer m.mu.Unlock()
	return append([]MSCall(nil), m.calls...)
}

// CallsFrom returns the retained calls with index >= from.
func (m *Metastore) CallsFrom(from int) []MSCall {
	m.mu.Lock()
	defer m.mu.Unlock()
	if len(m.calls) == m.n && from <= len(m.calls) && (from == len(m.calls) || m.calls[from].Idx == from) {
		return append([]MSCall(nil), m.calls[from:]...)
	}
	var out []MSCall
	for _, c := range m.calls {
		if c.Idx >= from {
			out = append(out, c)
		}
	}
	return out
}

// Count returns how many calls with the given key ("load", "store:<id>", ...) were begun.
func (m *Metastore) Count(key string) int { m.mu.Lock(); defer m.mu.Unlock(); return m.counts[key] }

// Suffixed is a Metastore that additionally advertises a region suffix, like the DynamoDB metastores do.
type Suffixed struct {
	*Metastore
	Suffix string
}

// GetRegionSuffix makes the SDK use region-suffixed key ids.
func (s *Suffixed) GetRegionSuffix() string { return s.Suffix }
