package probe

import (
	"encoding/base64"
	"encoding/hex"
	"fmt"
	"strings"
)

// Forms returns the renderings in which a byte string is looked for in artefacts (records, rows, requests, log
// lines): raw, base64 (std and url alphabet, without the tail that depends on what follows), hex, and the textual
// renderings a format verb or a debugger-style dump produces (of the first 12 bytes: if the value leaked in such a
// form, so did its beginning).
func Forms(b []byte) [][]byte {
	b64 := base64.StdEncoding.EncodeToString(b)
	b64 = strings.TrimRight(b64, "=")
	if len(b64) > 2 {
		b64 = b64[:len(b64)-1] // the last sextet depends on what follows
	}
	hx := hex.EncodeToString(b)
	out := [][]byte{b, []byte(b64), []byte(hx), []byte(strings.ToUpper(hx))}
	// textual renderings a format verb or a debugger-style dump produces; if the value leaked in such a form, so did
	// its first 12 bytes
	p := b
	if len(p) > 12 {
		p = p[:12]
	}
	if len(p) >= 8 {
		u := strings.NewReplacer("+", "-", "/", "_").Replace(b64)
		if u != b64 {
			out = append(out, []byte(u))
		}
		var dec, decComma, hexSp, hexColon, goSyn []string
		for _, c := range p {
			dec = append(dec, fmt.Sprintf("%d", c))
			hexSp = append(hexSp, fmt.Sprintf("%02x", c))
			goSyn = append(goSyn, fmt.Sprintf("0x%x", c))
		}
		decComma, hexColon = dec, hexSp
		out = append(out,
			[]byte(strings.Join(dec, " ")),       // %v / %d of a []byte
			[]byte(strings.Join(decComma, ",")),  // JSON array of numbers
			[]byte(strings.Join(decComma, ", ")), // pretty-printed
			[]byte(strings.Join(hexSp, " ")),     // % x
			[]byte(strings.Join(hexColon, ":")),
			[]byte(strings.Join(goSyn, ", ")), // %#v
		)
	}
	return out
}
