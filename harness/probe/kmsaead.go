package probe

import (
	"context"
	"crypto/sha256"
	"fmt"
	"sync"
	"sync/atomic"
	"time"

	"github.com/godaddy/asherah/go/appencryption"
)

// H8 is a short fingerprint of a byte string.
type H8 [8]byte

// Hash8 fingerprints b.
func Hash8(b []byte) H8 {
	s := sha256.Sum256(b)
	var h H8
	copy(h[:], s[:8])
	return h
}

// KMSCall is one call to the key management service.
type KMSCall struct {
	Seq     int64
	At      time.Time
	Idx     int
	Op      string // encrypt | decrypt
	Plain   H8     // fingerprint of the plaintext key (input of encrypt, output of decrypt)
	Full    [32]byte
	Wrapped []byte
	Err     string
	Fault   bool
}

// KMS monitors any KeyManagementService.
type KMS struct {
	Inner appencryption.KeyManagementService

	mu       sync.Mutex
	calls    []KMSCall
	n        int
	Faults   map[int]bool
	Delays   map[int]time.Duration
	Latency  func(op string) time.Duration
	Retained [][]byte // every slice returned by DecryptKey, kept to check that the SDK wipes it
	counts   map[string]int
	// Cancels: call index -> the caller's context is cancelled (through OnCancel) while that call is in flight; the
	// call itself then completes normally. Cancelled counts how many fired.
	Cancels   map[int]bool
	OnCancel  func()
	Cancelled int
	// FailEncrypts > 0 makes that many following EncryptKey calls fail (DecryptKey keeps working): the KMS cannot
	// wrap new system keys for a while.
	FailEncrypts int
	// InSecret, when set, tells whether a slice lies inside a secret that is being read right now. A system key handed
	// to EncryptKey from anywhere else sits in an ordinary heap buffer: the monitor then keeps that very slice with the
	// other retained buffers, to be checked for zero bytes when the public call returns.
	InSecret func([]byte) bool
	// HeapInputs counts EncryptKey inputs that were not inside a secret being read
	HeapInputs int
}

// NewKMS wraps inner.
func NewKMS(inner appencryption.KeyManagementService) *KMS {
	return &KMS{Inner: inner, Faults: map[int]bool{}, Delays: map[int]time.Duration{}, counts: map[string]int{}, Cancels: map[int]bool{}}
}

func (k *KMS) begin(op string) (int, bool) {
	k.mu.Lock()
	i := k.n
	k.n++
	k.counts[op]++
	f, d, lat := k.Faults[i], k.Delays[i], k.Latency
	cancel := k.Cancels[i] && k.OnCancel != nil
	if cancel {
		k.Cancelled++
	}
	k.mu.Unlock()
	if cancel {
		k.OnCancel()
	}
	if lat != nil && d == 0 {
		d = lat(op)
	}
	if d > 0 {
		time.Sleep(d)
	}
	return i, f
}

// EncryptKey implements appencryption.KeyManagementService.
func (k *KMS) EncryptKey(ctx context.Context, key []byte) ([]byte, error) {
	i, fault := k.begin("encrypt")
	c := KMSCall{Seq: Seq.Add(1), At: time.Now(), Idx: i, Op: "encrypt", Plain: Hash8(key), Full: sha256.Sum256(key), Fault: fault}
	var (
		out []byte
		err error
	)
	k.mu.Lock()
	if !fault && k.FailEncrypts > 0 {
		k.FailEncrypts--
		fault = true
		c.Fault = true
	}
	k.mu.Unlock()
	if fault {
		err = fmt.Errorf("kms encrypt: %w", ErrInjected)
	} else {
		out, err = k.Inner.EncryptKey(ctx, key)
	}
	if err != nil {
		c.Err = err.Error()
	}
	c.Wrapped = append([]byte(nil), out...)
	heap := k.InSecret != nil && len(key) > 0 && !k.InSecret(key)
	k.mu.Lock()
	k.calls = append(k.calls, c)
	if heap {
		k.Retained = append(k.Retained, key)
		k.HeapInputs++
	}
	k.mu.Unlock()
	return out, err
}

// DecryptKey implements appencryption.KeyManagementService.
func (k *KMS) DecryptKey(ctx context.Context, wrapped []byte) ([]byte, error) {
	i, fault := k.begin("decrypt")
	c := KMSCall{Seq: Seq.Add(1), At: time.Now(), Idx: i, Op: "decrypt", Fault: fault, Wrapped: append([]byte(nil), wrapped...)}
	var (
		out []byte
		err error
	)
	if fault {
		err = fmt.Errorf("kms decrypt: %w", ErrInjected)
	} else {
		out, err = k.Inner.DecryptKey(ctx, wrapped)
	}
	if err != nil {
		c.Err = err.Error()
	} else {
		c.Plain = Hash8(out)
		c.Full = sha256.Sum256(out)
	}
	k.mu.Lock()
	k.calls = append(k.calls, c)
	if out != nil {
		k.Retained = append(k.Retained, out)
	}
	k.mu.Unlock()
	return out, err
}

// N returns the number of calls so far.
func (k *KMS) N() int { k.mu.Lock(); defer k.mu.Unlock(); return k.n }

// Count returns the number of "encrypt" or "decrypt" calls.
func (k *KMS) Count(op string) int { k.mu.Lock(); defer k.mu.Unlock(); return k.counts[op] }

// Calls returns a copy of the call log.
func (k *KMS) Calls() []KMSCall {
	k.mu.Lock()
	defer k.mu.Unlock()
	return append([]KMSCall(nil), k.calls...)
}

// TakeRetained returns and forgets the retained DecryptKey outputs.
func (k *KMS) TakeRetained() [][]byte {
	k.mu.Lock()
	defer k.mu.Unlock()
	r := k.Retained
	k.Retained = nil
	return r
}

// AEADCall is one call to the AEAD.
type AEADCall struct {
	Seq       int64
	Idx       int
	Op        byte     // 'E' | 'D'
	Key       [32]byte // sha256 of the key bytes
	Nonce     [12]byte
	DataLen   int
	Data      H8 // fingerprint of the plaintext (encrypt input / decrypt output)
	PlainFull [32]byte
	Cipher    [32]byte // sha256 of the ciphertext (encrypt output / decrypt input)
	KeyLen    int
	OK        bool
	Fault     bool
}

// AEAD monitors any appencryption.AEAD.
type AEAD struct {
	Inner appencryption.AEAD

	mu          sync.Mutex
	calls       []AEADCall
	n           int
	Faults      map[int]bool
	Delays      map[int]time.Duration
	Latency     func(op string) time.Duration
	Retained    [][]byte // every slice returned by Decrypt
	Outputs     [][]byte // copies of every Encrypt output when KeepOutputs is set
	KeepOutputs bool
	Drop        bool
	// Seen maps (key hash, nonce) to the number of encryptions that used it; kept even when Drop is set.
	pairs   map[[44]byte]int
	Repeats int
}

// NewAEAD wraps inner.
func NewAEAD(inner appencryption.AEAD) *AEAD {
	return &AEAD{Inner: inner, Faults: map[int]bool{}, Delays: map[int]time.Duration{}, pairs: map[[44]byte]int{}}
}

func (a *AEAD) begin() (int, bool) {
	a.mu.Lock()
	i := a.n
	a.n++
	f, d, lat := a.Faults[i], a.Delays[i], a.Latency
	a.mu.Unlock()
	if lat != nil && d == 0 {
		d = lat("aead")
	}
	if d > 0 {
		time.Sleep(d)
	}
	return i, f
}

// Encrypt implements appencryption.AEAD.
func (a *AEAD) Encrypt(data, key []byte) ([]byte, error) {
	i, fault := a.begin()
	c := AEADCall{Seq: Seq.Add(1), Idx: i, Op: 'E', Key: sha256.Sum256(key), KeyLen: len(key), DataLen: len(data), Data: Hash8(data), PlainFull: sha256.Sum256(data), Fault: fault}
	var (
		out []byte
		err error
	)
	if fault {
		err = fmt.Errorf("aead encrypt: %w", ErrInjected)
	} else {
		out, err = a.Inner.Encrypt(data, key)
	}
	c.OK = err == nil
	if err == nil && len(out) >= 12 {
		copy(c.Nonce[:], out[len(out)-12:])
		c.Cipher = sha256.Sum256(out)
	}
	a.mu.Lock()
	if c.OK {
		var p [44]byte
		copy(p[:32], c.Key[:])
		copy(p[32:], c.Nonce[:])
		a.pairs[p]++
		if a.pairs[p] > 1 {
			a.Repeats++
		}
		if a.KeepOutputs {
			a.Outputs = append(a.Outputs, append([]byte(nil), out...))
		}
	}
	if !a.Drop {
		a.calls = append(a.calls, c)
	}
	a.mu.Unlock()
	return out, err
}

// Decrypt implements appencryption.AEAD.
func (a *AEAD) Decrypt(data, key []byte) ([]byte, error) {
	i, fault := a.begin()
	c := AEADCall{Seq: Seq.Add(1), Idx: i, Op: 'D', Key: sha256.Sum256(key), KeyLen: len(key), Fault: fault, Cipher: sha256.Sum256(data)}
	var (
		out []byte
		err error
	)
	if fault {
		err = fmt.Errorf("aead decrypt: %w", ErrInjected)
	} else {
		out, err = a.Inner.Decrypt(data, key)
	}
	c.OK = err == nil
	if err == nil {
		c.DataLen = len(out)
		c.Data = Hash8(out)
		c.PlainFull = sha256.Sum256(out)
	}
	a.mu.Lock()
	if !a.Drop {
		a.calls = append(a.calls, c)
		if out != nil {
			a.Retained = append(a.Retained, out)
		}
	}
	a.mu.Unlock()
	return out, err
}

// N returns the number of calls so far.
func (a *AEAD) N() int { a.mu.Lock(); defer a.mu.Unlock(); return a.n }

// Calls returns a copy of the call log.
func (a *AEAD) Calls() []AEADCall {
	a.mu.Lock()
	defer a.mu.Unlock()
	return append([]AEADCall(nil), a.calls...)
}

// CallsFrom returns the calls with index >= from.
func (a *AEAD) CallsFrom(from int) []AEADCall {
	a.mu.Lock()
	defer a.mu.Unlock()
	if len(a.calls) == a.n && from <= len(a.calls) && (from == len(a.calls) || a.calls[from].Idx == from) {
		return append([]AEADCall(nil), a.calls[from:]...)
	}
	var out []AEADCall
	for _, c := range a.calls {
		if c.Idx >= from {
			out = append(out, c)
		}
	}
	return out
}

// TakeRetained returns and forgets the retained Decrypt outputs.
func (a *AEAD) TakeRetained() [][]byte {
	a.mu.Lock()
	defer a.mu.Unlock()
	r := a.Retained
	a.Retained = nil
	return r
}

// PairCount returns the number of distinct (key, nonce) pairs seen in successful encryptions.
func (a *AEAD) PairCount() int { a.mu.Lock(); defer a.mu.Unlock(); return len(a.pairs) }

// LogTap collects debug log lines of the SDK.
type LogTap struct {
	mu    sync.Mutex
	Lines []string
	Bytes int64
	N     int64
	Keep  bool
	Scan  func(line string)
	// active is true while lines are kept or scanned; an idle tap takes no lock and touches no shared variable, so
	// that it does not order the goroutines that log (the race detector would otherwise see the tap's mutex as
	// synchronisation between every pair of SDK goroutines)
	active atomic.Bool
}

// Debugf implements the SDK's log.Interface.
func (l *LogTap) Debugf(format string, v ...interface{}) {
	if !l.active.Load() {
		return
	}
	s := fmt.Sprintf(format, v...)
	l.mu.Lock()
	l.N++
	l.Bytes += int64(len(s))
	if l.Keep {
		l.Lines = append(l.Lines, s)
	}
	scan := l.Scan
	l.mu.Unlock()
	if scan != nil {
		scan(s)
	}
}

// SetScan installs (or removes) the per-line scanner.
func (l *LogTap) SetScan(f func(line string)) {
	l.mu.Lock()
	l.Scan = f
	l.active.Store(l.Keep || l.Scan != nil)
	l.mu.Unlock()
}

// SetKeep switches line retention on or off.
func (l *LogTap) SetKeep(b bool) {
	l.mu.Lock()
	l.Keep = b
	l.active.Store(l.Keep || l.Scan != nil)
	l.mu.Unlock()
}

// Take returns and forgets the kept lines.
func (l *LogTap) Take() []string {
	l.mu.Lock()
	defer l.mu.Unlock()
	r := l.Lines
	l.Lines = nil
	return r
}
