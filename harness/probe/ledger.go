// Package probe holds the runtime monitors wrapped around the SDK's own extension points.
package probe

import (
	"crypto/sha256"
	"errors"
	"fmt"
	"io"
	"sync"
	"sync/atomic"
	"unsafe"

	"github.com/godaddy/asherah/go/securememory"
)

// Seq is a process-wide logical clock used to order monitor events.
var Seq atomic.Int64

// ErrInjected is returned by every injected fault.
var ErrInjected = errors.New("verif: injected fault")

// SecretRec is the ledger entry of one secret created through the monitored factory.
type SecretRec struct {
	ID      int
	Seq     int64
	Size    int
	Creator string // "new" | "random"
	Op      string // label of the harness operation during which it was created
	Hash    [32]byte
	Bytes   []byte // private copy of the secret's bytes (for artefact scanning)
	Ptr     string // %p of the wrapper handed to the SDK (matches VerifKeyInfo.Secret)
	Src     []byte // the very slice handed to New (retained so that it can be inspected later)

	mu              sync.Mutex
	depth           int
	maxDepth        int
	reads           int
	closeCalls      int
	closeReturned   int
	touchAfterClose int // reader entered after a Close had returned
	touchErrNil     int // ... and the access did not return an error
	closedSeq       int64
	inner           securememory.Secret
	led             *Ledger
}

// Snapshot of the mutable counters.
type SecretState struct {
	Depth, Reads, CloseCalls, CloseReturned, TouchAfterClose, TouchErrNil int
	ClosedSeq                                                             int64
}

func (r *SecretRec) State() SecretState {
	r.mu.Lock()
	defer r.mu.Unlock()
	return SecretState{r.depth, r.reads, r.closeCalls, r.closeReturned, r.touchAfterClose, r.touchErrNil, r.closedSeq}
}

// Open reports whether no Close has returned yet.
func (r *SecretRec) Open() bool { r.mu.Lock(); defer r.mu.Unlock(); return r.closeReturned == 0 }

func (r *SecretRec) String() string {
	st := r.State()
	return fmt.Sprintf("secret#%d{%s size=%d op=%q reads=%d closes=%d touchAfterClose=%d}", r.ID, r.Creator, r.Size, r.Op, st.Reads, st.CloseReturned, st.TouchAfterClose)
}

// Ledger wraps a SecretFactory and accounts for every secret it hands out.
type Ledger struct {
	Inner securememory.SecretFactory

	mu     sync.Mutex
	recs   []*SecretRec
	calls  int
	log    []LedCall
	FailAt map[int]bool // creation call index (0-based) -> fail without allocating
	// AccessFaults: index of a WithBytes/WithBytesFunc call (over all secrets, 0-based) -> AccessRefuse | AccessRelease
	AccessFaults map[int]string
	accesses     int
	// TrackExposure switches on the bookkeeping behind IsExposed
	TrackExposure bool
	exposed       map[uintptr][2]int
	accessLog     []AccessCall
	NoAccessLog   bool         // long stress runs: do not retain the access log
	label         atomic.Value // string
	NoHash        bool         // do not read CreateRandom secrets back (keeps mprotect traffic unchanged)
}

// LedCall is one creation call on the monitored factory.
type LedCall struct {
	Seq    int64
	Idx    int
	Kind   string // new | random
	Failed bool
}

// CallLog returns the creation calls with index >= from.
func (l *Ledger) CallLog(from int) []LedCall {
	l.mu.Lock()
	defer l.mu.Unlock()
	if from >= len(l.log) {
		return nil
	}
	return append([]LedCall(nil), l.log[from:]...)
}

// NewLedger returns a ledger over inner.
func NewLedger(inner securememory.SecretFactory) *Ledger {
	l := &Ledger{Inner: inner, FailAt: map[int]bool{}, AccessFaults: map[int]string{}}
	l.label.Store("")
	return l
}

// SetOp labels the secrets created from now on.
func (l *Ledger) SetOp(s string) { l.label.Store(s) }

// Calls returns the number of creation calls seen so far.
func (l *Ledger) Calls() int { l.mu.Lock(); defer l.mu.Unlock(); return l.calls }

// Recs returns a copy of the record list.
func (l *Ledger) Recs() []*SecretRec {
	l.mu.Lock()
	defer l.mu.Unlock()
	return append([]*SecretRec(nil), l.recs...)
}

// RecsFrom returns the records with index >= from.
func (l *Ledger) RecsFrom(from int) []*SecretRec {
	l.mu.Lock()
	defer l.mu.Unlock()
	if from >= len(l.recs) {
		return nil
	}
	return append([]*SecretRec(nil), l.recs[from:]...)
}

// Len returns the number of records.
func (l *Ledger) Len() int { l.mu.Lock(); defer l.mu.Unlock(); return len(l.recs) }

// Live returns the secrets on which no Close has returned.
func (l *Ledger) Live() []*SecretRec {
	var out []*SecretRec
	for _, r := range l.Recs() {
		if r.Open() {
			out = append(out, r)
		}
	}
	return out
}

func (l *Ledger) next(kind string) (idx int, fail bool) {
	l.mu.Lock()
	defer l.mu.Unlock()
	idx = l.calls
	l.calls++
	fail = l.FailAt[idx]
	l.log = append(l.log, LedCall{Seq: Seq.Add(1), Idx: idx, Kind: kind, Failed: fail})
	return idx, fail
}

func (l *Ledger) add(r *SecretRec) {
	l.mu.Lock()
	r.ID = len(l.recs)
	r.led = l
	l.recs = append(l.recs, r)
	l.mu.Unlock()
}

// New implements securememory.SecretFactory.
func (l *Ledger) New(b []byte) (securememory.Secret, error) {
	_, fail := l.next("new")
	rec := &SecretRec{Seq: Seq.Add(1), Size: len(b), Creator: "new", Op: l.label.Load().(string), Hash: sha256.Sum256(b), Src: b, Bytes: append([]byte(nil), b...)}
	if fail {
		// an allocation failure (mmap/mlock limit) happens before the source is copied or wiped
		rec.Creator = "new-failed"
		rec.closeReturned = 1
		l.add(rec)
		return nil, fmt.Errorf("secret factory New: %w", ErrInjected)
	}
	s, err := l.Inner.New(b)
	if err != nil {
		return nil, err
	}
	rec.inner = s
	l.add(rec)
	ms := &monSecret{rec: rec}
	rec.Ptr = fmt.Sprintf("%p", ms)
	return ms, nil
}

// CreateRandom implements securememory.SecretFactory.
func (l *Ledger) CreateRandom(size int) (securememory.Secret, error) {
	_, fail := l.next("random")
	if fail {
		return nil, fmt.Errorf("secret factory CreateRandom: %w", ErrInjected)
	}
	s, err := l.Inner.CreateRandom(size)
	if err != nil {
		return nil, err
	}
	rec := &SecretRec{Seq: Seq.Add(1), Size: size, Creator: "random", Op: l.label.Load().(string), inner: s}
	if !l.NoHash {
		_ = s.WithBytes(func(b []byte) error { rec.Hash = sha256.Sum256(b); rec.Bytes = append([]byte(nil), b...); return nil })
	}
	l.add(rec)
	ms := &monSecret{rec: rec}
	rec.Ptr = fmt.Sprintf("%p", ms)
	return ms, nil
}

type monSecret struct{ rec *SecretRec }

func (s *monSecret) enter() (afterClose bool) {
	r := s.rec
	r.mu.Lock()
	defer r.mu.Unlock()
	if r.closeReturned > 0 {
		r.touchAfterClose++
		afterClose = true
	}
	r.depth++
	if r.depth > r.maxDepth {
		r.maxDepth = r.depth
	}
	r.reads++
	return
}

func (s *monSecret) exit(afterClose bool, err error) {
	r := s.rec
	r.mu.Lock()
	r.depth--
	if afterClose && err == nil {
		r.touchErrNil++
	}
	r.mu.Unlock()
}

// AccessCall is one WithBytes / WithBytesFunc call on any secret of the ledger.
type AccessCall struct {
	Seq    int64
	Idx    int
	Kind   string // with-bytes | with-bytes-func
	Failed bool
}

// Access fault kinds: the access is refused before the callback runs (protect to read-only failed), or the
// callback runs and its result is returned together with an error (re-protecting to no-access failed on release) -
// the two ways the shipped secure-memory implementations fail an access.
const (
	AccessRefuse  = "refuse"
	AccessRelease = "release"
)

func (l *Ledger) nextAccess(kind string) (fault string) {
	l.mu.Lock()
	defer l.mu.Unlock()
	idx := l.accesses
	l.accesses++
	fault = l.AccessFaults[idx]
	if !l.NoAccessLog {
		l.accessLog = append(l.accessLog, AccessCall{Seq: Seq.Add(1), Idx: idx, Kind: kind, Failed: fault != ""})
	}
	return fault
}

// Accesses returns the number of secret accesses begun so far.
func (l *Ledger) Accesses() int { l.mu.Lock(); defer l.mu.Unlock(); return l.accesses }

// AccessLog returns the accesses with index >= from.
func (l *Ledger) AccessLog(from int) []AccessCall {
	l.mu.Lock()
	defer l.mu.Unlock()
	var out []AccessCall
	for _, c := range l.accessLog {
		if c.Idx >= from {
			out = append(out, c)
		}
	}
	return out
}

// expose / unexpose keep the set of secret byte ranges that are currently handed to a reader callback.
func (l *Ledger) expose(b []byte) {
	if len(b) == 0 || !l.TrackExposure {
		return
	}
	l.mu.Lock()
	if l.exposed == nil {
		l.exposed = map[uintptr][2]int{}
	}
	base := uintptr(unsafe.Pointer(unsafe.SliceData(b)))
	e := l.exposed[base]
	if len(b) > e[0] {
		e[0] = len(b)
	}
	e[1]++
	l.exposed[base] = e
	l.mu.Unlock()
}

func (l *Ledger) unexpose(b []byte) {
	if len(b) == 0 || !l.TrackExposure {
		return
	}
	l.mu.Lock()
	base := uintptr(unsafe.Pointer(unsafe.SliceData(b)))
	if e, ok := l.exposed[base]; ok {
		if e[1]--; e[1] <= 0 {
			delete(l.exposed, base)
		} else {
			l.exposed[base] = e
		}
	}
	l.mu.Unlock()
}

// IsExposed reports whether b lies inside the bytes of a secret that is being read right now (inside a WithBytes /
// WithBytesFunc callback): key material seen outside such a range sits in an ordinary heap buffer.
func (l *Ledger) IsExposed(b []byte) bool {
	if len(b) == 0 {
		return false
	}
	p := uintptr(unsafe.Pointer(unsafe.SliceData(b)))
	l.mu.Lock()
	defer l.mu.Unlock()
	for base, e := range l.exposed {
		if p >= base && p < base+uintptr(e[0]) {
			return true
		}
	}
	return false
}

func (s *monSecret) WithBytes(action0 func([]byte) error) (err error) {
	led := s.rec.led
	action := func(b []byte) error {
		led.expose(b)
		defer led.unexpose(b)
		return action0(b)
	}
	ac := s.enter()
	defer func() { s.exit(ac, err) }()
	switch s.rec.led.nextAccess("with-bytes") {
	case AccessRefuse:
		return fmt.Errorf("secret access: %w", ErrInjected)
	case AccessRelease:
		if err := s.rec.inner.WithBytes(action); err != nil {
			return err
		}
		return fmt.Errorf("secret release: %w", ErrInjected)
	}
	return s.rec.inner.WithBytes(action)
}

func (s *monSecret) WithBytesFunc(action0 func([]byte) ([]byte, error)) (ret []byte, err error) {
	led := s.rec.led
	action := func(b []byte) ([]byte, error) {
		led.expose(b)
		defer led.unexpose(b)
		return action0(b)
	}
	ac := s.enter()
	defer func() { s.exit(ac, err) }()
	switch s.rec.led.nextAccess("with-bytes-func") {
	case AccessRefuse:
		return nil, fmt.Errorf("secret access: %w", ErrInjected)
	case AccessRelease:
		ret, err := s.rec.inner.WithBytesFunc(action)
		if err != nil {
			return ret, err
		}
		// as the shipped implementations do: the callback's result comes back together with the release error
		return ret, fmt.Errorf("secret release: %w", ErrInjected)
	}
	return s.rec.inner.WithBytesFunc(action)
}

func (s *monSecret) IsClosed() bool { return s.rec.inner.IsClosed() }

func (s *monSecret) Close() error {
	r := s.rec
	r.mu.Lock()
	r.closeCalls++
	r.mu.Unlock()
	err := r.inner.Close()
	r.mu.Lock()
	r.closeReturned++
	if r.closedSeq == 0 {
		r.closedSeq = Seq.Add(1)
	}
	r.mu.Unlock()
	return err
}

func (s *monSecret) NewReader() io.Reader { return s.rec.inner.NewReader() }
