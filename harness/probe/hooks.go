package probe

import (
	"sync"
	"sync/atomic"

	"github.com/godaddy/asherah/go/appencryption"
)

var (
	hookOnce sync.Once
	hookSink atomic.Pointer[func(point string, arg any)]
)

// SetHookSink routes every verifHook point of the SDK (build tag verif) to fn; nil removes the sink.
// The sink may block at points whose name does not end in ".locked" (that is how schedules are chosen).
func SetHookSink(fn func(point string, arg any)) {
	hookOnce.Do(func() {
		appencryption.VerifSetHook(func(point string, arg any) {
			if f := hookSink.Load(); f != nil {
				(*f)(point, arg)
			}
		})
	})
	if fn == nil {
		hookSink.Store(nil)
		return
	}
	hookSink.Store(&fn)
}
