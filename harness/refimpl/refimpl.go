// Package refimpl is an independent implementation of Asherah's stored and wire formats written from
// docs/DesignAndArchitecture.md, docs/Metastore.md, docs/KeyManagementService.md and server/protos/appencryption.proto.
// It deliberately uses only encoding/json on generic maps, encoding/base64 and crypto/aes + cipher.NewGCM and none
// of the SDK's types, so that a renamed field, a moved nonce or a reordered key id shows up as a disagreement.
package refimpl

import (
	"crypto/aes"
	"crypto/cipher"
	"crypto/rand"
	"encoding/base64"
	"encoding/json"
	"errors"
	"fmt"
	"sort"
	"strings"
)

// Seal lays an AES-256-GCM encryption out as ciphertext || 16-byte tag || 12-byte nonce.
func Seal(key, plaintext []byte) []byte {
	blk, err := aes.NewCipher(key)
	if err != nil {
		panic(err)
	}
	g, _ := cipher.NewGCM(blk)
	nonce := make([]byte, 12)
	rand.Read(nonce)
	ct := g.Seal(nil, nonce, plaintext, nil) // ciphertext || tag
	return append(ct, nonce...)
}

// Open reverses Seal.
func Open(key, blob []byte) ([]byte, error) {
	if len(blob) < 28 {
		return nil, errors.New("ref: ciphertext shorter than tag+nonce")
	}
	blk, err := aes.NewCipher(key)
	if err != nil {
		return nil, err
	}
	g, _ := cipher.NewGCM(blk)
	nonce := blob[len(blob)-12:]
	return g.Open(nil, nonce, blob[:len(blob)-12], nil)
}

// SystemKeyID / IntermediateKeyID follow the documented naming scheme.
func SystemKeyID(service, product, region string) string {
	id := "_SK_" + service + "_" + product
	if region != "" {
		id += "_" + region
	}
	return id
}

func IntermediateKeyID(partition, service, product, region string) string {
	id := "_IK_" + partition + "_" + service + "_" + product
	if region != "" {
		id += "_" + region
	}
	return id
}

// KeyRecord is the reference view of an envelope key record.
type KeyRecord struct {
	Created       int64
	Key           []byte
	HasParent     bool
	ParentID      string
	ParentCreated int64
	Revoked       bool
}

func keys(m map[string]any) string {
	var ks []string
	for k := range m {
		ks = append(ks, k)
	}
	sort.Strings(ks)
	return strings.Join(ks, ",")
}

func num(v any) (int64, error) {
	switch x := v.(type) {
	case json.Number:
		return x.Int64()
	case float64:
		return int64(x), nil
	}
	return 0, fmt.Errorf("ref: not a number: %T", v)
}

// ParseKeyRecord parses the documented JSON shape of a key record (generic map) strictly:
// Created, Key (base64), optional ParentKeyMeta{KeyId, Created}, Revoked only when true.
func ParseKeyRecord(m map[string]any) (*KeyRecord, error) {
	kr := &KeyRecord{}
	for k := range m {
		switch k {
		case "Created", "Key", "ParentKeyMeta", "Revoked":
		default:
			return nil, fmt.Errorf("ref: unexpected field %q in key record (fields: %s)", k, keys(m))
		}
	}
	c, ok := m["Created"]
	if !ok {
		return nil, fmt.Errorf("ref: key record lacks Created (fields: %s)", keys(m))
	}
	var err error
	if kr.Created, err = num(c); err != nil {
		return nil, err
	}
	ks, ok := m["Key"].(string)
	if !ok {
		return nil, fmt.Errorf("ref: key record lacks a base64 string Key (fields: %s)", keys(m))
	}
	if kr.Key, err = base64.StdEncoding.DecodeString(ks); err != nil {
		return nil, fmt.Errorf("ref: Key is not standard base64: %v", err)
	}
	if pm, ok := m["ParentKeyMeta"]; ok && pm != nil {
		pmm, ok := pm.(map[string]any)
		if !ok {
			return nil, errors.New("ref: ParentKeyMeta is not an object")
		}
		for k := range pmm {
			if k != "KeyId" && k != "Created" {
				return nil, fmt.Errorf("ref: unexpected field %q in ParentKeyMeta", k)
			}
		}
		id, ok := pmm["KeyId"].(string)
		if !ok {
			return nil, fmt.Errorf("ref: ParentKeyMeta lacks KeyId (fields: %s)", keys(pmm))
		}
		kr.HasParent, kr.ParentID = true, id
		if kr.ParentCreated, err = num(pmm["Created"]); err != nil {
			return nil, fmt.Errorf("ref: ParentKeyMeta.Created: %v", err)
		}
	}
	if rv, ok := m["Revoked"]; ok {
		b, ok := rv.(bool)
		if !ok {
			return nil, errors.New("ref: Revoked is not a boolean")
		}
		if !b {
			return nil, errors.New("ref: Revoked must only be present when true")
		}
		kr.Revoked = true
	}
	return kr, nil
}

// KeyRecordJSON renders a key record in the documented shape.
func KeyRecordJSON(kr *KeyRecord) map[string]any {
	m := map[string]any{"Created": kr.Created, "Key": base64.StdEncoding.EncodeToString(kr.Key)}
	if kr.HasParent {
		m["ParentKeyMeta"] = map[string]any{"KeyId": kr.ParentID, "Created": kr.ParentCreated}
	}
	if kr.Revoked {
		m["Revoked"] = true
	}
	return m
}

// DRR is the reference view of a data row record.
type DRR struct {
	Key  *KeyRecord
	Data []byte
}

// ParseDRR parses the documented JSON text of a data row record strictly.
func ParseDRR(text []byte) (*DRR, error) {
	dec := json.NewDecoder(strings.NewReader(string(text)))
	dec.UseNumber()
	var m map[string]any
	if err := dec.Decode(&m); err != nil {
		return nil, err
	}
	for k := range m {
		if k != "Key" && k != "Data" {
			return nil, fmt.Errorf("ref: unexpected field %q in data row record (fields: %s)", k, keys(m))
		}
	}
	km, ok := m["Key"].(map[string]any)
	if !ok {
		return nil, fmt.Errorf("ref: data row record lacks Key object (fields: %s)", keys(m))
	}
	kr, err := ParseKeyRecord(km)
	if err != nil {
		return nil, err
	}
	if !kr.HasParent {
		return nil, errors.New("ref: data row key lacks ParentKeyMeta")
	}
	ds, ok := m["Data"].(string)
	if !ok {
		return nil, errors.New("ref: data row record lacks base64 Data")
	}
	data, err := base64.StdEncoding.DecodeString(ds)
	if err != nil {
		return nil, fmt.Errorf("ref: Data is not standard base64: %v", err)
	}
	return &DRR{Key: kr, Data: data}, nil
}

// DRRJSON renders a data row record in the documented shape.
func DRRJSON(d *DRR) []byte {
	b, _ := json.Marshal(map[string]any{"Key": KeyRecordJSON(d.Key), "Data": base64.StdEncoding.EncodeToString(d.Data)})
	return b
}

// Lookup finds a key record by (id, created) in whatever store the caller has dumped.
type Lookup func(id string, created int64) (*KeyRecord, error)

// Decrypt walks DRK <- IK <- SK <- static master key exactly as the documentation describes.
func Decrypt(d *DRR, lookup Lookup, masterKey []byte) ([]byte, error) {
	ik, err := lookup(d.Key.ParentID, d.Key.ParentCreated)
	if err != nil {
		return nil, fmt.Errorf("ref: intermediate key (%s,%d): %w", d.Key.ParentID, d.Key.ParentCreated, err)
	}
	if !ik.HasParent {
		return nil, errors.New("ref: intermediate key record lacks ParentKeyMeta")
	}
	sk, err := lookup(ik.ParentID, ik.ParentCreated)
	if err != nil {
		return nil, fmt.Errorf("ref: system key (%s,%d): %w", ik.ParentID, ik.ParentCreated, err)
	}
	skBytes, err := Open(masterKey, sk.Key)
	if err != nil {
		return nil, fmt.Errorf("ref: system key does not open under the master key (layout ciphertext|tag|nonce): %w", err)
	}
	ikBytes, err := Open(skBytes, ik.Key)
	if err != nil {
		return nil, fmt.Errorf("ref: intermediate key does not open under the system key: %w", err)
	}
	drk, err := Open(ikBytes, d.Key.Key)
	if err != nil {
		return nil, fmt.Errorf("ref: data row key does not open under the intermediate key: %w", err)
	}
	pt, err := Open(drk, d.Data)
	if err != nil {
		return nil, fmt.Errorf("ref: data does not open under the data row key: %w", err)
	}
	return pt, nil
}

// Hierarchy is a reference-generated key chain.
type Hierarchy struct {
	SKID, IKID           string
	SKCreated, IKCreated int64
	SK, IK               []byte
	SKRecord, IKRecord   *KeyRecord
}

// NewHierarchy creates a fresh SK and IK wrapped per the documentation.
func NewHierarchy(masterKey []byte, partition, service, product, region string, skCreated, ikCreated int64) *Hierarchy {
	h := &Hierarchy{SKID: SystemKeyID(service, product, region), IKID: IntermediateKeyID(partition, service, product, region), SKCreated: skCreated, IKCreated: ikCreated}
	h.SK, h.IK = make([]byte, 32), make([]byte, 32)
	rand.Read(h.SK)
	rand.Read(h.IK)
	h.SKRecord = &KeyRecord{Created: skCreated, Key: Seal(masterKey, h.SK)}
	h.IKRecord = &KeyRecord{Created: ikCreated, Key: Seal(h.SK, h.IK), HasParent: true, ParentID: h.SKID, ParentCreated: skCreated}
	return h
}

// Encrypt produces a data row record under the hierarchy's IK.
func (h *Hierarchy) Encrypt(payload []byte, drkCreated int64) *DRR {
	drk := make([]byte, 32)
	rand.Read(drk)
	return &DRR{Data: Seal(drk, payload), Key: &KeyRecord{Created: drkCreated, Key: Seal(h.IK, drk), HasParent: true, ParentID: h.IKID, ParentCreated: h.IKCreated}}
}
