// Package sessprog runs small programs of session-cache operations (get / use / close / advance / factory close)
// against a real factory and monitors teardown (env.close hook), holder counts and the secret ledger.
// It is shared by the C16 (session cache) and C09 (leak ledger) checks.
package sessprog

import (
	"bytes"
	"context"
	"fmt"
	"regexp"
	"strings"
	"sync"
	"sync/atomic"
	"testing/synctest"
	"time"

	"github.com/godaddy/asherah/go/appencryption"
	"github.com/godaddy/asherah/go/appencryption/pkg/log"

	"verif/harness/probe"
	"verif/harness/world"
)

// Tap receives every debug log line of the SDK in processes that import this package.
var Tap = &probe.LogTap{}

func init() { log.SetLogger(Tap) }

var newSessionRe = regexp.MustCompile(`\[newSession\] for id (.*)\. Session\((0x[0-9a-f]+)\)\{Encryption\((0x[0-9a-f]+)\)\}`)

// teardown monitor shared by the enumerated programs and the stress run. Sessions are identified by an
// incarnation number assigned when the SDK logs their creation: addresses are reused once an object is garbage.
type TdMon struct {
	Mu      sync.Mutex
	next    int
	sessInc map[string]int // session pointer -> current incarnation
	encInc  map[string]int // encryption pointer -> current incarnation
	Closes  map[int]int    // incarnation -> env.close count
	holders map[int]int    // incarnation -> open handles (maintained by the harness)
	Early   []string       // teardowns that happened while holders remained
	removes int
	// Yield, when set, is called at every hook point other than the teardown ones (stress workloads yield here)
	Yield func(point string)
}

func NewTdMon() *TdMon {
	return &TdMon{sessInc: map[string]int{}, encInc: map[string]int{}, Closes: map[int]int{}, holders: map[int]int{}}
}

func (m *TdMon) Install() {
	Tap.SetKeep(false)
	Tap.SetScan(func(line string) {
		if g := newSessionRe.FindStringSubmatch(line); g != nil {
			m.Mu.Lock()
			m.next++
			m.sessInc[g[2]] = m.next
			m.encInc[g[3]] = m.next
			m.Mu.Unlock()
		}
	})
	probe.SetHookSink(func(point string, arg any) {
		switch point {
		case "env.close":
			p, _ := arg.(string)
			m.Mu.Lock()
			if inc, ok := m.encInc[p]; ok {
				m.Closes[inc]++
				if m.holders[inc] > 0 {
					m.Early = append(m.Early, fmt.Sprintf("session incarnation #%d (encryption %s) closed while %d holder(s) remain", inc, p, m.holders[inc]))
				}
			}
			m.Mu.Unlock()
		case "shared.remove.closing.locked":
			m.Mu.Lock()
			m.removes++
			m.Mu.Unlock()
		default:
			if m.Yield != nil {
				m.Yield(point)
			}
		}
	})
}

func (m *TdMon) Uninstall() {
	probe.SetHookSink(nil)
	Tap.SetScan(nil)
}

// hold adjusts the holder count of the live session s and returns its incarnation.
func (m *TdMon) Hold(s *appencryption.Session, d int) int {
	p := fmt.Sprintf("%p", s)
	m.Mu.Lock()
	defer m.Mu.Unlock()
	inc := m.sessInc[p]
	m.holders[inc] += d
	return inc
}

type Op struct {
	Kind byte // G get, U use, C close, A advance, F factory close
	Arg  int
}

func (o Op) String() string {
	if o.Kind == 'A' || o.Kind == 'F' {
		return string(o.Kind)
	}
	return fmt.Sprintf("%c%d", o.Kind, o.Arg)
}

func ProgString(p []Op) string {
	s := make([]string, len(p))
	for i, o := range p {
		s[i] = o.String()
	}
	return strings.Join(s, " ")
}

// ParseProg is the inverse of ProgString.
func ParseProg(s string) []Op {
	var out []Op
	for _, f := range strings.Fields(s) {
		o := Op{Kind: f[0]}
		if len(f) > 1 {
			fmt.Sscanf(f[1:], "%d", &o.Arg)
		}
		out = append(out, o)
	}
	return out
}

type handle struct {
	s      *appencryption.Session
	part   string
	closed bool
}

// runProgram executes one program against a fresh factory with the given session-cache shape (inside a bubble).
// Ledger findings of the last RunProgram call (secrets of the program that were leaked, closed twice or
// touched after destruction), for the C09 check.
var LastLedger []string

// SharedIK makes the programs that follow run with cached sessions over one shared intermediate-key cache.
var SharedIK bool

// Started counts programs begun; Current describes the one that is running (for the caller's progress watchdog: a
// lock that is never released blocks a bubble without ever making it "durably blocked").
var (
	Started atomic.Int64
	Current atomic.Value // CurrentProgram
)

// CurrentProgram is what RunProgram was called with.
type CurrentProgram struct {
	Policy string
	Size   int
	Prog   []Op
	Dur    time.Duration
	Shared bool
}

func RunProgram(w *world.World, policy string, size int, prog []Op, dur time.Duration) (sig, detail string, stats [3]int) {
	Current.Store(CurrentProgram{policy, size, append([]Op(nil), prog...), dur, SharedIK})
	Started.Add(1)
	ledStart := w.Led.Len()
	LastLedger = nil
	cfg := world.Default(100*time.Hour, 50*time.Hour, time.Minute)
	cfg.SessCache, cfg.SessCap, cfg.SessPolicy, cfg.SessDur = true, size, policy, dur
	if SharedIK {
		cfg.SharedIK, cfg.IKPolicy, cfg.IKCap = true, "lru", 4
	}
	mon := NewTdMon()
	mon.Install()
	defer mon.Uninstall()
	fail := func(s, f string, a ...any) {
		if sig == "" {
			sig, detail = s, fmt.Sprintf("session cache %s/size=%d program [%s]: ", policy, size, ProgString(prog))+fmt.Sprintf(f, a...)
		}
	}
	f := w.Factory(cfg, "svc", "prod")
	ctx := context.Background()
	var hs []*handle
	open := func() []*handle {
		var o []*handle
		for _, h := range hs {
			if !h.closed {
				o = append(o, h)
			}
		}
		return o
	}
	distinct := map[int]bool{}
	factoryClosed := false
	lastGet := map[string]*appencryption.Session{}
	lastOpWasGetOf := ""
	use := func(h *handle) {
		pl := []byte("payload for " + h.part)
		d, err := h.s.Encrypt(ctx, pl)
		if err != nil {
			fail("c16-held-session-unusable", "encrypt on a held, unclosed session for %q failed: %v", h.part, err)
			return
		}
		out, err := h.s.Decrypt(ctx, *d)
		if err != nil || !bytes.Equal(out, pl) {
			fail("c16-held-session-unusable", "decrypt on a held, unclosed session for %q failed: %v", h.part, err)
		}
		stats[1]++
	}
	for _, o := range prog {
		switch o.Kind {
		case 'G':
			if factoryClosed {
				continue
			}
			part := fmt.Sprintf("part%d", o.Arg)
			s, err := f.GetSession(part)
			if err != nil {
				fail("c16-getsession-failed", "GetSession(%q): %v", part, err)
				continue
			}
			inc := mon.Hold(s, +1)
			if lastOpWasGetOf == part && lastGet[part] != s {
				fail("c16-cached-session-not-shared", "two consecutive GetSession(%q) calls returned different sessions (%p, %p)", part, lastGet[part], s)
			}
			lastGet[part] = s
			lastOpWasGetOf = part
			distinct[inc] = true
			hs = append(hs, &handle{s: s, part: part})
			stats[0]++
			continue
		case 'U':
			op := open()
			if len(op) == 0 || factoryClosed {
				break
			}
			h := op[0]
			if o.Arg == 1 {
				h = op[len(op)-1]
			}
			use(h)
		case 'C':
			op := open()
			if len(op) == 0 {
				break
			}
			h := op[0]
			if o.Arg == 1 {
				h = op[len(op)-1]
			}
			h.closed = true
			mon.Hold(h.s, -1)
			if err := h.s.Close(); err != nil {
				fail("c16-close-error", "Close returned %v", err)
			}
		case 'A':
			if dur > 1000000*time.Hour {
				// "never expires": a long time passes and nothing may expire. Many programs share one bubble: its clock
				// must stay far away from the end of the representable range (a sleep whose wake-up time overflows
				// crashes the Go runtime inside a bubble: "bad g->status in ready"), so the steps shrink once the
				// bubble's clock has passed the year 2100.
				if time.Now().Year() < 2100 {
					time.Sleep(100000 * time.Hour)
				} else {
					time.Sleep(time.Hour)
				}
			} else {
				time.Sleep(dur + time.Second)
			}
		case 'F':
			if !factoryClosed {
				factoryClosed = true
				f.Close()
			}
		}
		lastOpWasGetOf = ""
		synctest.Wait()
		// every still-held session keeps working whatever was evicted or expired meanwhile
		if !factoryClosed {
			for _, h := range open() {
				use(h)
			}
		}
	}
	for _, h := range open() {
		h.closed = true
		mon.Hold(h.s, -1)
		h.s.Close()
	}
	if !factoryClosed {
		f.Close()
	}
	synctest.Wait()
	mon.Mu.Lock()
	defer mon.Mu.Unlock()
	for _, e := range mon.Early {
		fail("c16-teardown-while-held", "%s", e)
	}
	for inc := range distinct {
		if inc == 0 {
			// the monitor identifies session incarnations through the SDK's [newSession] debug line; without it the
			// teardown count of this session cannot be decided (inconclusive, not a violation)
			if sig == "" {
				sig, detail = "INCONCLUSIVE:c16-monitor-lost-session", "no [newSession] debug line seen for a session that was handed out: teardown counts cannot be attributed"
			}
			continue
		}
		if n := mon.Closes[inc]; n != 1 {
			fail("c16-teardown-count", "after every holder and the factory closed, session incarnation #%d was torn down %d time(s), want exactly 1", inc, n)
		}
	}
	for inc, n := range mon.Closes {
		if n > 1 {
			fail("c16-teardown-count", "session incarnation #%d was closed %d times", inc, n)
		}
	}
	stats[2] = len(distinct)
	for _, sr := range w.Led.RecsFrom(ledStart) {
		st := sr.State()
		switch {
		case st.CloseReturned == 0:
			LastLedger = append(LastLedger, fmt.Sprintf("leaked|%s never closed after every holder and the factory closed", sr))
		case st.CloseCalls > 1:
			LastLedger = append(LastLedger, fmt.Sprintf("closed-twice|%s closed %d times", sr, st.CloseCalls))
		case st.TouchAfterClose > 0:
			LastLedger = append(LastLedger, fmt.Sprintf("touched-after-close|%s accessed after it was destroyed", sr))
		}
	}
	return
}

func EnumeratePrograms(n int, f func([]Op)) {
	alphabet := []Op{{'G', 0}, {'G', 1}, {'G', 2}, {'U', 0}, {'U', 1}, {'C', 0}, {'C', 1}, {'A', 0}, {'F', 0}}
	seq := make([]Op, n)
	var rec func(pos, usedParts, openH int, closedF bool)
	rec = func(pos, usedParts, openH int, closedF bool) {
		if pos == n {
			f(seq)
			return
		}
		for _, o := range alphabet {
			switch o.Kind {
			case 'G':
				if o.Arg > usedParts || closedF { // partitions are introduced in order
					continue
				}
				np := usedParts
				if o.Arg == usedParts {
					np++
				}
				seq[pos] = o
				rec(pos+1, np, openH+1, closedF)
			case 'U':
				if openH == 0 || closedF || (o.Arg == 1 && openH < 2) {
					continue
				}
				seq[pos] = o
				rec(pos+1, usedParts, openH, closedF)
			case 'C':
				if openH == 0 || (o.Arg == 1 && openH < 2) {
					continue
				}
				seq[pos] = o
				rec(pos+1, usedParts, openH-1, closedF)
			case 'A':
				if closedF || pos == 0 {
					continue
				}
				seq[pos] = o
				rec(pos+1, usedParts, openH, closedF)
			case 'F':
				if closedF || pos == 0 {
					continue
				}
				seq[pos] = o
				rec(pos+1, usedParts, openH, true)
			}
		}
	}
	rec(0, 0, 0, false)
}
