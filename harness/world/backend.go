package world

import (
	"context"
	"fmt"

	"github.com/aws/aws-sdk-go/aws"
	awssession "github.com/aws/aws-sdk-go/aws/session"
	"github.com/godaddy/asherah/go/appencryption"
	v1p "github.com/godaddy/asherah/go/appencryption/plugins/aws-v1/persistence"
	v2m "github.com/godaddy/asherah/go/appencryption/plugins/aws-v2/dynamodb/metastore"

	"github.com/godaddy/asherah/go/appencryption/pkg/persistence"

	"verif/harness/fakes/ddb"
	"verif/harness/fakes/sqlmini"
	"verif/harness/probe"
)

// Backends lists the metastore implementations a world can sit on: the in-memory store, the two DynamoDB plug-ins
// over the semantic DynamoDB fake (without and with their region-suffix option), and the SQL metastore over the
// mini SQL engine.
var Backends = []string{"memory", "dynamodb-v1", "dynamodb-v2", "sql", "dynamodb-v1-suffix", "dynamodb-v2-suffix", "dynamodb-v1w-v2r", "dynamodb-v2w-v1r"}

// mixedFleet is one table used through both DynamoDB plug-ins at once, the way a fleet in the middle of a migration
// from the v1 to the v2 plug-in uses it: writes go through one plug-in, reads through the other.
type mixedFleet struct {
	writer, reader appencryption.Metastore
}

func (m mixedFleet) Load(ctx context.Context, id string, created int64) (*appencryption.EnvelopeKeyRecord, error) {
	return m.reader.Load(ctx, id, created)
}

func (m mixedFleet) LoadLatest(ctx context.Context, id string) (*appencryption.EnvelopeKeyRecord, error) {
	return m.reader.LoadLatest(ctx, id)
}

func (m mixedFleet) Store(ctx context.Context, id string, created int64, ekr *appencryption.EnvelopeKeyRecord) (bool, error) {
	return m.writer.Store(ctx, id, created, ekr)
}

var v1sess = awssession.Must(awssession.NewSession(aws.NewConfig().WithRegion("us-west-2")))

// plug is a real metastore plug-in whose backing rows the harness can flip out of band.
type plug struct {
	name   string
	ms     appencryption.Metastore
	revoke func(id string, created int64) bool
	close  func()
	tbl    *ddb.Table
	sqldb  *sqlmini.DB
}

// DDB returns the fake DynamoDB table behind a dynamodb-v1/v2 world (nil otherwise).
func (w *World) DDB() *ddb.Table {
	if w.plug == nil {
		return nil
	}
	return w.plug.tbl
}

// SQL returns the mini SQL database behind an sql world (nil otherwise).
func (w *World) SQL() *sqlmini.DB {
	if w.plug == nil {
		return nil
	}
	return w.plug.sqldb
}

// mirror sends every call to the plug-in (the SDK sees exactly the plug-in's behaviour) and copies every accepted
// insert into the world's in-memory store, which is what Raw/Rows/Audit read: "what was durably stored, as it was
// handed to Store".
type mirror struct {
	w *World
	p *plug
}

func (m *mirror) Load(ctx context.Context, id string, created int64) (*appencryption.EnvelopeKeyRecord, error) {
	return m.p.ms.Load(ctx, id, created)
}

func (m *mirror) LoadLatest(ctx context.Context, id string) (*appencryption.EnvelopeKeyRecord, error) {
	return m.p.ms.LoadLatest(ctx, id)
}

func (m *mirror) Store(ctx context.Context, id string, created int64, ekr *appencryption.EnvelopeKeyRecord) (bool, error) {
	in := probe.CopyEKR(ekr)
	ok, err := m.p.ms.Store(ctx, id, created, ekr)
	if ok && err == nil {
		m.w.Mem.Store(ctx, id, created, in)
	}
	return ok, err
}

// NewOn builds a world on the named back end (see Backends).
func NewOn(secretImpl, backend string) *World {
	w := New(secretImpl)
	w.Backend = backend
	switch backend {
	case "", "memory":
		w.Backend = "memory"
		return w
	case "dynamodb-v1":
		t := ddb.NewTable("EncryptionKey")
		w.plug = &plug{backend, v1p.NewDynamoDBMetastore(v1sess, v1p.WithClient(ddb.V1{T: t})), t.SetRevoked, nil, t, nil}
	case "dynamodb-v2":
		t := ddb.NewTable("EncryptionKey")
		ms, err := v2m.NewDynamoDB(v2m.WithDynamoDBClient(ddb.V2{T: t}))
		if err != nil {
			panic(err)
		}
		w.plug = &plug{backend, ms, t.SetRevoked, nil, t, nil}
	case "dynamodb-v1-suffix":
		// the plug-in's own region-suffix option: the SDK appends the plug-in's region to every key id
		t := ddb.NewTable("EncryptionKey")
		ms := v1p.NewDynamoDBMetastore(v1sess, v1p.WithClient(ddb.V1{T: t}), v1p.WithDynamoDBRegionSuffix(true))
		w.plug = &plug{backend, ms, t.SetRevoked, nil, t, nil}
		w.Suffix = ms.GetRegionSuffix()
	case "dynamodb-v2-suffix":
		t := ddb.NewTable("EncryptionKey")
		ms, err := v2m.NewDynamoDB(v2m.WithDynamoDBClient(ddb.V2{T: t}), v2m.WithRegionSuffix(true))
		if err != nil {
			panic(err)
		}
		w.plug = &plug{backend, ms, t.SetRevoked, nil, t, nil}
		w.Suffix = ms.GetRegionSuffix()
	case "dynamodb-v1w-v2r", "dynamodb-v2w-v1r":
		t := ddb.NewTable("EncryptionKey")
		m1 := v1p.NewDynamoDBMetastore(v1sess, v1p.WithClient(ddb.V1{T: t}))
		m2, err := v2m.NewDynamoDB(v2m.WithDynamoDBClient(ddb.V2{T: t}))
		if err != nil {
			panic(err)
		}
		mf := mixedFleet{writer: m1, reader: m2}
		if backend == "dynamodb-v2w-v1r" {
			mf = mixedFleet{writer: m2, reader: m1}
		}
		w.plug = &plug{backend, mf, t.SetRevoked, nil, t, nil}
	case "sql":
		// the SQL metastore over the mini SQL engine behind database/sql (MySQL placeholder dialect)
		db, h := sqlmini.Open(sqlmini.MySQL)
		h.SetMaxOpenConns(4)
		w.plug = &plug{backend, persistence.NewSQLMetastore(h), db.SetRevoked, func() { h.Close(); db.Drop() }, nil, db}
	default:
		panic("unknown back end " + backend)
	}
	w.MS = probe.NewMetastore(&mirror{w, w.plug})
	return w
}

// auditPlug compares, row by row, what the plug-in returns with what was handed to Store.
func (w *World) auditPlug() string {
	if w.plug == nil {
		return ""
	}
	for _, row := range w.Rows() {
		got, err := w.plug.ms.Load(context.Background(), row.ID, row.Created)
		if err != nil {
			return fmt.Sprintf("%s: Load(%s,%d) fails: %v", w.plug.name, row.ID, row.Created, err)
		}
		if d := DiffEKR(row.Rec, got); d != "" {
			return fmt.Sprintf("%s: Load(%s,%d) no longer returns the record that was stored: %s", w.plug.name, row.ID, row.Created, d)
		}
	}
	return ""
}
