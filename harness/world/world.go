// Package world builds real SDK object graphs (factories, sessions) over monitored plug-ins.
package world

import (
	"bytes"
	"fmt"
	"math/rand"
	"sort"
	"time"

	"github.com/godaddy/asherah/go/appencryption"
	"github.com/godaddy/asherah/go/appencryption/pkg/crypto/aead"
	"github.com/godaddy/asherah/go/appencryption/pkg/kms"
	"github.com/godaddy/asherah/go/appencryption/pkg/persistence"
	"github.com/godaddy/asherah/go/securememory"
	"github.com/godaddy/asherah/go/securememory/memguard"
	"github.com/godaddy/asherah/go/securememory/protectedmemory"

	"verif/harness/fakes/awskms"
	"verif/harness/probe"
)

// Cfg is the configuration tuple of one SessionFactory.
type Cfg struct {
	CacheIK    bool
	CacheSK    bool
	IKPolicy   string // "", simple, lru, lfu, slru, tinylfu
	IKCap      int
	SharedIK   bool
	SKPolicy   string
	SKCap      int
	SessCache  bool
	SessCap    int
	SessDur    time.Duration
	SessPolicy string
	Expire     time.Duration
	Revoke     time.Duration
	Precision  time.Duration
}

func (c Cfg) String() string {
	s := fmt.Sprintf("ik=%v/%s/%d", c.CacheIK, c.IKPolicy, c.IKCap)
	if c.SharedIK {
		s += "/shared"
	}
	s += fmt.Sprintf(" sk=%v/%s/%d", c.CacheSK, c.SKPolicy, c.SKCap)
	if c.SessCache {
		s += fmt.Sprintf(" sess=%s/%d/%s", c.SessPolicy, c.SessCap, c.SessDur)
	}
	return s + fmt.Sprintf(" exp=%s rev=%s prec=%s", c.Expire, c.Revoke, c.Precision)
}

// IKCached reports whether intermediate keys are retained between calls under c (the shared-cache option is
// ignored when intermediate key caching is disabled; see DESIGN.md, finding F10).
func (c Cfg) IKCached() bool { return c.CacheIK }

// Policy builds the SDK crypto policy for c. Wherever the SDK offers a public PolicyOption for a setting it is
// used (that is how applications and the gRPC sidecar configure the SDK); only the settings without an option are
// assigned as fields. The oracles take their bounds from c, so an option that sets the wrong field shows up as a
// violation of the timing/caching properties.
func (c Cfg) Policy() *appencryption.CryptoPolicy {
	opts := []appencryption.PolicyOption{
		appencryption.WithExpireAfterDuration(c.Expire),
		appencryption.WithRevokeCheckInterval(c.Revoke),
	}
	noCache := !c.CacheIK && !c.CacheSK
	if noCache {
		opts = append(opts, appencryption.WithNoCache())
	}
	sharedOpt := c.SharedIK && c.IKCap > 0
	if sharedOpt {
		opts = append(opts, appencryption.WithSharedIntermediateKeyCache(c.IKCap))
	}
	if c.SessCache {
		opts = append(opts, appencryption.WithSessionCache())
	}
	if c.SessCap > 0 {
		opts = append(opts, appencryption.WithSessionCacheMaxSize(c.SessCap))
	}
	if c.SessDur > 0 {
		opts = append(opts, appencryption.WithSessionCacheDuration(c.SessDur))
	}
	p := appencryption.NewCryptoPolicy(opts...)
	p.CreateDatePrecision = c.Precision
	if !noCache {
		p.CacheIntermediateKeys = c.CacheIK
		p.CacheSystemKeys = c.CacheSK
	}
	p.IntermediateKeyCacheEvictionPolicy = c.IKPolicy
	if !sharedOpt {
		if c.IKCap > 0 {
			p.IntermediateKeyCacheMaxSize = c.IKCap
		}
		p.SharedIntermediateKeyCache = c.SharedIK
	}
	p.SystemKeyCacheEvictionPolicy = c.SKPolicy
	if c.SKCap > 0 {
		p.SystemKeyCacheMaxSize = c.SKCap
	}
	p.SessionCacheEvictionPolicy = c.SessPolicy
	return p
}

// Default returns the SDK's default shape with the given timing.
func Default(expire, revoke, precision time.Duration) Cfg {
	return Cfg{CacheIK: true, CacheSK: true, IKPolicy: "", IKCap: 1000, SKPolicy: "", SKCap: 1000, Expire: expire, Revoke: revoke, Precision: precision}
}

var (
	policies   = []string{"", "simple", "lru", "lfu", "slru", "tinylfu"}
	evictPol   = []string{"lru", "lfu", "slru", "tinylfu"}
	capacities = []int{1, 2, 3, 10, 99, 100, 101, 1000}
	sessCaps   = []int{1, 2, 1000}
)

// RandomCfg draws a configuration tuple. The timing precondition Expire >= 2*Precision always holds.
func RandomCfg(rng *rand.Rand) Cfg {
	c := Cfg{}
	switch rng.Intn(8) {
	case 0:
		c.CacheIK, c.CacheSK = false, false
	case 1:
		c.CacheIK, c.CacheSK = true, false
	case 2:
		c.CacheIK, c.CacheSK = false, true
	default:
		c.CacheIK, c.CacheSK = true, true
	}
	c.IKPolicy = policies[rng.Intn(len(policies))]
	c.IKCap = capacities[rng.Intn(len(capacities))]
	c.SKPolicy = policies[rng.Intn(len(policies))]
	c.SKCap = capacities[rng.Intn(len(capacities))]
	c.SharedIK = rng.Intn(3) == 0
	if rng.Intn(3) == 0 {
		c.SessCache = true
		c.SessCap = sessCaps[rng.Intn(len(sessCaps))]
		c.SessPolicy = append([]string{""}, evictPol...)[rng.Intn(5)]
		c.SessDur = []time.Duration{time.Second, time.Minute, 2 * time.Hour}[rng.Intn(3)]
	}
	c.Precision = []time.Duration{time.Second, time.Minute, time.Hour}[rng.Intn(3)]
	c.Expire = c.Precision * time.Duration(2+rng.Intn(200))
	c.Revoke = []time.Duration{time.Second, 30 * time.Second, time.Minute, time.Hour, c.Expire / 3, c.Expire * 2}[rng.Intn(6)]
	if c.Revoke <= 0 {
		c.Revoke = time.Second
	}
	return c
}

// World is one metastore + KMS + AEAD + secret ledger shared by any number of factories ("processes").
type World struct {
	Mem    *persistence.MemoryMetastore
	MS     *probe.Metastore
	Static *kms.StaticKMS
	KMS    *probe.KMS
	AEAD   *probe.AEAD
	Led    *probe.Ledger
	Suffix string // when non-empty factories see a region-suffixing metastore
	// Backend names the metastore implementation behind MS ("memory", or a plug-in over a fake: see NewOn); with a
	// plug-in, Mem mirrors every accepted insert.
	Backend string
	plug    *plug
	// Cloud / AltKMS are set by UseAWSKMS: the fake regional cloud and the KMS client of a process in another region.
	Cloud  *awskms.Cloud
	AltKMS *probe.KMS
	// MC is set by UseMemcall: the monitored memory primitives underneath the secure-memory implementation.
	MC *probe.Memcall

	shadow map[string]map[int64]*appencryption.EnvelopeKeyRecord
	flips  []Flip
}

// Flip records an out-of-band revocation performed by the harness.
type Flip struct {
	ID      string
	Created int64
	At      time.Time
}

// SecretImpl returns the named secure-memory implementation.
func SecretImpl(name string) securememory.SecretFactory {
	if name == "protectedmemory" {
		return new(protectedmemory.SecretFactory)
	}
	return new(memguard.SecretFactory)
}

// New builds a world. secretImpl is "memguard" or "protectedmemory".
func New(secretImpl string) *World {
	crypto := aead.NewAES256GCM()
	w := &World{Mem: persistence.NewMemoryMetastore(), shadow: map[string]map[int64]*appencryption.EnvelopeKeyRecord{}}
	w.MS = probe.NewMetastore(w.Mem)
	w.AEAD = probe.NewAEAD(crypto)
	st, err := kms.NewStatic("thisIsAStaticMasterKeyForTesting", crypto)
	if err != nil {
		panic(err)
	}
	w.Static = st
	w.KMS = probe.NewKMS(st)
	w.Led = probe.NewLedger(SecretImpl(secretImpl))
	return w
}

// Close releases the static KMS key.
func (w *World) Close() {
	w.Static.Close()
	if w.plug != nil && w.plug.close != nil {
		w.plug.close()
	}
}

// Metastore returns the metastore the factories should be given.
func (w *World) Metastore() appencryption.Metastore {
	if w.Suffix != "" {
		return &probe.Suffixed{Metastore: w.MS, Suffix: w.Suffix}
	}
	return w.MS
}

// Factory builds a real SessionFactory over the monitored plug-ins.
func (w *World) Factory(c Cfg, service, product string) *appencryption.SessionFactory {
	return appencryption.NewSessionFactory(
		&appencryption.Config{Service: service, Product: product, Policy: c.Policy()},
		w.Metastore(), w.KMS, w.AEAD, appencryption.WithSecretFactory(w.Led))
}

// Row is one raw metastore row.
type Row struct {
	ID      string
	Created int64
	Rec     *appencryption.EnvelopeKeyRecord
}

// Rows returns a deep copy of the raw store, sorted by (id, created).
func (w *World) Rows() []Row {
	w.Mem.RLock()
	defer w.Mem.RUnlock()
	var out []Row
	for id, m := range w.Mem.Envelopes {
		for cr, r := range m {
			out = append(out, Row{id, cr, probe.CopyEKR(r)})
		}
	}
	sort.Slice(out, func(i, j int) bool {
		if out[i].ID != out[j].ID {
			return out[i].ID < out[j].ID
		}
		return out[i].Created < out[j].Created
	})
	return out
}

// Raw returns a copy of the row (id, created), or nil.
func (w *World) Raw(id string, created int64) *appencryption.EnvelopeKeyRecord {
	w.Mem.RLock()
	defer w.Mem.RUnlock()
	return probe.CopyEKR(w.Mem.Envelopes[id][created])
}

// Latest returns a copy of the latest row for id, or nil.
func (w *World) Latest(id string) *appencryption.EnvelopeKeyRecord {
	w.Mem.RLock()
	defer w.Mem.RUnlock()
	var best *appencryption.EnvelopeKeyRecord
	for _, r := range w.Mem.Envelopes[id] {
		if best == nil || r.Created > best.Created {
			best = r
		}
	}
	return probe.CopyEKR(best)
}

// Revoke flags the row (id, created) revoked, out of band, the way an operator's tool would:
// the stored record is replaced by a modified copy (readers holding the old pointer are not disturbed).
func (w *World) Revoke(id string, created int64, at time.Time) bool {
	w.Mem.Lock()
	defer w.Mem.Unlock()
	r, ok := w.Mem.Envelopes[id][created]
	if !ok || r.Revoked {
		return false
	}
	c := probe.CopyEKR(r)
	c.Revoked = true
	w.Mem.Envelopes[id][created] = c
	if s, ok := w.shadow[id][created]; ok {
		s.Revoked = true
	}
	w.flips = append(w.flips, Flip{id, created, at})
	if w.plug != nil && !w.plug.revoke(id, created) {
		panic(fmt.Sprintf("back end %s: no item (%s,%d) to revoke", w.plug.name, id, created))
	}
	return true
}

// Flips returns the revocations performed so far.
func (w *World) Flips() []Flip { return append([]Flip(nil), w.flips...) }

// Audit compares the raw store with the shadow copy taken when each row was first seen: rows must never
// change (except for revocations made by the harness itself) and never disappear. It returns a description
// of the first discrepancy, or "".
func (w *World) Audit() string {
	if a := w.auditMem(); a != "" {
		return a
	}
	return w.auditPlug()
}

func (w *World) auditMem() string {
	w.Mem.RLock()
	defer w.Mem.RUnlock()
	for id, m := range w.Mem.Envelopes {
		for cr, r := range m {
			sm := w.shadow[id]
			if sm == nil {
				sm = map[int64]*appencryption.EnvelopeKeyRecord{}
				w.shadow[id] = sm
			}
			s, ok := sm[cr]
			if !ok {
				sm[cr] = probe.CopyEKR(r)
				continue
			}
			if d := DiffEKR(s, r); d != "" {
				return fmt.Sprintf("row (%s,%d) changed: %s", id, cr, d)
			}
		}
	}
	for id, sm := range w.shadow {
		for cr := range sm {
			if _, ok := w.Mem.Envelopes[id][cr]; !ok {
				return fmt.Sprintf("row (%s,%d) disappeared", id, cr)
			}
		}
	}
	return ""
}

// DiffEKR describes the first difference between two records ("" when equal; ID is not compared).
func DiffEKR(a, b *appencryption.EnvelopeKeyRecord) string {
	switch {
	case a == nil && b == nil:
		return ""
	case a == nil || b == nil:
		return fmt.Sprintf("nil vs non-nil (%v, %v)", a == nil, b == nil)
	case a.Created != b.Created:
		return fmt.Sprintf("Created %d vs %d", a.Created, b.Created)
	case a.Revoked != b.Revoked:
		return fmt.Sprintf("Revoked %v vs %v", a.Revoked, b.Revoked)
	case !bytes.Equal(a.EncryptedKey, b.EncryptedKey):
		return "EncryptedKey differs"
	case (a.ParentKeyMeta == nil) != (b.ParentKeyMeta == nil):
		return "ParentKeyMeta presence differs"
	case a.ParentKeyMeta != nil && *a.ParentKeyMeta != *b.ParentKeyMeta:
		return fmt.Sprintf("ParentKeyMeta %v vs %v", *a.ParentKeyMeta, *b.ParentKeyMeta)
	}
	return ""
}

// CopyDRR deep-copies a data row record.
func CopyDRR(d *appencryption.DataRowRecord) *appencryption.DataRowRecord {
	if d == nil {
		return nil
	}
	c := &appencryption.DataRowRecord{Data: append([]byte(nil), d.Data...)}
	if d.Data == nil {
		c.Data = nil
	}
	c.Key = probe.CopyEKR(d.Key)
	return c
}

// DiffDRR describes the first difference between two data row records.
func DiffDRR(a, b *appencryption.DataRowRecord) string {
	if !bytes.Equal(a.Data, b.Data) {
		return "Data differs"
	}
	if (a.Key == nil) != (b.Key == nil) {
		return "Key presence differs"
	}
	if a.Key != nil && a.Key.ID != b.Key.ID {
		return "Key.ID differs"
	}
	return DiffEKR(a.Key, b.Key)
}

// UseMemcall rebuilds the world's secret factory on the named secure-memory implementation over a monitored
// memcall (real pages; every primitive can be made to fail by call index). Must be called before any factory is built.
func (w *World) UseMemcall(impl string) {
	w.MC = probe.NewMemcall()
	if impl == "protectedmemory" {
		w.Led = probe.NewLedger(protectedmemory.VerifNewSecretFactory(w.MC))
		return
	}
	w.MC.AdoptUnknown = true // memguard allocates and locks inside its own library
	w.Led = probe.NewLedger(memguard.VerifNewSecretFactory(w.MC))
}
