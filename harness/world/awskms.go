package world

import (
	awsv2 "github.com/aws/aws-sdk-go-v2/aws"
	awsv2kmssvc "github.com/aws/aws-sdk-go-v2/service/kms"
	"github.com/godaddy/asherah/go/appencryption"
	"github.com/godaddy/asherah/go/appencryption/pkg/crypto/aead"
	v1kms "github.com/godaddy/asherah/go/appencryption/plugins/aws-v1/kms"
	v2kms "github.com/godaddy/asherah/go/appencryption/plugins/aws-v2/kms"

	"verif/harness/fakes/awskms"
	"verif/harness/probe"
)

// AWSRegions are the regions of the fake cloud behind UseAWSKMS; factories of the world prefer the first one,
// FreshFactory (a process started elsewhere) prefers the second.
var AWSRegions = []string{"us-west-2", "eu-west-1"}

func buildAWS(version int, cloud *awskms.Cloud, preferred string) appencryption.KeyManagementService {
	crypto := aead.NewAES256GCM()
	if version == 1 {
		k, err := v1kms.NewAWS(crypto, preferred, cloud.ARNMap(AWSRegions...))
		if err != nil {
			panic(err)
		}
		for i := range k.Clients {
			k.Clients[i].KMS = awskms.V1{R: cloud.Regions[k.Clients[i].Region]}
		}
		return k
	}
	k, err := v2kms.NewBuilder(crypto, cloud.ARNMap(AWSRegions...)).WithPreferredRegion(preferred).WithAWSConfig(awsv2.Config{}).
		WithKMSFactory(func(cfg awsv2.Config, _ ...func(*awsv2kmssvc.Options)) v2kms.AWSClient {
			return awskms.V2{R: cloud.Regions[cfg.Region]}
		}).Build()
	if err != nil {
		panic(err)
	}
	return k
}

// UseAWSKMS puts the world on the AWS KMS plug-in (SDK v1 or v2 client) over a fake two-region cloud instead of the
// static KMS. Must be called before any factory is built.
func (w *World) UseAWSKMS(version int) {
	w.Cloud = awskms.NewCloud(AWSRegions...)
	w.KMS = probe.NewKMS(buildAWS(version, w.Cloud, AWSRegions[0]))
	w.AltKMS = probe.NewKMS(buildAWS(version, w.Cloud, AWSRegions[1]))
}

// FreshFactory builds a factory the way a process started later, possibly in another region, would: with its own
// KMS client (the alternate one when the world is on the AWS plug-in).
func (w *World) FreshFactory(c Cfg, service, product string) *appencryption.SessionFactory {
	k := w.KMS
	if w.AltKMS != nil {
		k = w.AltKMS
	}
	return appencryption.NewSessionFactory(
		&appencryption.Config{Service: service, Product: product, Policy: c.Policy()},
		w.Metastore(), k, w.AEAD, appencryption.WithSecretFactory(w.Led))
}
