// Package sched lets a controller choose the schedule: labelled goroutines park at gates (SDK hook points or
// monitored plug-in calls) and a controller, woken by synctest.Wait() when everybody is parked, releases them
// one at a time (depth-first enumeration with replay) or all at once (barrier).
package sched

import (
	"bytes"
	"runtime"
	"sort"
	"strconv"
	"sync"
)

var labels sync.Map // goroutine id -> label

func goid() int64 {
	var buf [64]byte
	n := runtime.Stack(buf[:], false)
	// "goroutine 123 ["
	b := buf[:n]
	b = b[len("goroutine "):]
	i := bytes.IndexByte(b, ' ')
	id, _ := strconv.ParseInt(string(b[:i]), 10, 64)
	return id
}

// SetLabel names the calling goroutine (a "process" of the schedule). Unlabelled goroutines never park.
func SetLabel(l string) { labels.Store(goid(), l) }

// ClearLabel forgets the calling goroutine's label.
func ClearLabel() { labels.Delete(goid()) }

// Label returns the calling goroutine's label or "".
func Label() string {
	if v, ok := labels.Load(goid()); ok {
		return v.(string)
	}
	return ""
}

// Waiter is one parked goroutine.
type Waiter struct {
	Label string
	Point string
	ch    chan struct{}
}

// Controller parks and releases labelled goroutines.
type Controller struct {
	mu     sync.Mutex
	parked map[string]*Waiter
	// Filter decides whether a labelled goroutine parks at point; nil parks at every point.
	Filter func(label, point string) bool
	// Trace of released (label, point) pairs in release order.
	Trace []string
}

// NewController returns an empty controller.
func NewController() *Controller { return &Controller{parked: map[string]*Waiter{}} }

// Park blocks the calling goroutine (if it is labelled and the filter agrees) until it is released.
func (c *Controller) Park(point string) {
	l := Label()
	if l == "" {
		return
	}
	if c.Filter != nil && !c.Filter(l, point) {
		return
	}
	w := &Waiter{Label: l, Point: point, ch: make(chan struct{})}
	c.mu.Lock()
	c.parked[l] = w
	c.mu.Unlock()
	<-w.ch
}

// Parked returns the parked goroutines sorted by label.
func (c *Controller) Parked() []Waiter {
	c.mu.Lock()
	defer c.mu.Unlock()
	out := make([]Waiter, 0, len(c.parked))
	for _, w := range c.parked {
		out = append(out, *w)
	}
	sort.Slice(out, func(i, j int) bool { return out[i].Label < out[j].Label })
	return out
}

// Release lets the goroutine labelled l continue.
func (c *Controller) Release(l string) {
	c.mu.Lock()
	w := c.parked[l]
	delete(c.parked, l)
	if w != nil {
		c.Trace = append(c.Trace, l+"@"+w.Point)
	}
	c.mu.Unlock()
	if w != nil {
		close(w.ch)
	}
}

// ReleaseAll releases every parked goroutine.
func (c *Controller) ReleaseAll() {
	for _, w := range c.Parked() {
		c.Release(w.Label)
	}
}

// DFS enumerates choice sequences depth-first with replay (stateless search).
type DFS struct {
	path   []int
	widths []int
	pos    int
	// Random, when set, replaces enumeration beyond the recorded prefix by seeded random choices.
	Random func(n int) int
}

// Choose returns the index (0..n-1) of the alternative to take at this step.
func (d *DFS) Choose(n int) int {
	if n <= 0 {
		return 0
	}
	if d.pos < len(d.path) {
		c := d.path[d.pos]
		if c >= n { // the replayed prefix diverged (non-deterministic program): clamp
			c = n - 1
		}
		d.widths[d.pos] = n
		d.pos++
		return c
	}
	c := 0
	if d.Random != nil {
		c = d.Random(n)
	}
	d.path = append(d.path, c)
	d.widths = append(d.widths, n)
	d.pos++
	return c
}

// Next advances to the next unexplored schedule; false when the space is exhausted.
func (d *DFS) Next() bool {
	d.path = d.path[:d.pos]
	d.widths = d.widths[:d.pos]
	for i := len(d.path) - 1; i >= 0; i-- {
		if d.path[i]+1 < d.widths[i] {
			d.path[i]++
			d.path = d.path[:i+1]
			d.widths = d.widths[:i+1]
			d.pos = 0
			return true
		}
	}
	return false
}

// Reset starts replaying the current path from the beginning.
func (d *DFS) Reset() { d.pos = 0 }

// Path returns a copy of the current choice sequence.
func (d *DFS) Path() []int { return append([]int(nil), d.path[:d.pos]...) }

// SetPath primes the search with a recorded choice sequence (replay).
func (d *DFS) SetPath(p []int) {
	d.path = append([]int(nil), p...)
	d.widths = make([]int, len(p))
	for i := range d.widths {
		d.widths[i] = p[i] + 1
	}
	d.pos = 0
}
