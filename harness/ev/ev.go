// Package ev collects what a check run observed and turns it into the
// evidence file, VIOLATION / KNOWN-FINDING lines and replay witnesses.
package ev

import (
	"crypto/sha256"
	"encoding/hex"
	"encoding/json"
	"fmt"
	"os"
	"path/filepath"
	"regexp"
	"sort"
	"strconv"
	"sync"
	"testing"
	"time"
)

// Root is the /verif directory.
var Root = func() string {
	if r := os.Getenv("VERIF_ROOT"); r != "" {
		return r
	}
	return "/verif"
}()

// Tier returns "quick" or "thorough".
func Tier() string {
	if os.Getenv("VERIF_TIER") == "thorough" {
		return "thorough"
	}
	return "quick"
}

// Thorough reports whether the thorough tier was requested.
func Thorough() bool { return Tier() == "thorough" }

// Seed returns VERIF_SEED (default 1).
func Seed() int64 {
	if s := os.Getenv("VERIF_SEED"); s != "" {
		if v, err := strconv.ParseInt(s, 10, 64); err == nil {
			return v
		}
	}
	return 1
}

// Pick returns q for the quick tier and th for the thorough tier.
func Pick[T any](q, th T) T {
	if Thorough() {
		return th
	}
	return q
}

type knownFinding struct {
	Property  string `json:"property"`
	Status    string `json:"status"` // "known" | "fixed"
	Signature string `json:"signature"`
	Commit    string `json:"commit,omitempty"`
	What      string `json:"what"`
}

// Violation is one refutation with its witness.
type Violation struct {
	Signature string `json:"signature"`
	Detail    string `json:"detail"`
	Witness   any    `json:"witness,omitempty"`
	Replay    string `json:"replay,omitempty"`
}

// Run accumulates the observations of one check run.
type Run struct {
	ID    string
	Level string

	mu           sync.Mutex
	start        time.Time
	evaluations  int64
	distinct     map[string]struct{}
	samples      []any
	maxSamples   int
	counters     map[string]int64
	sets         map[string]map[string]struct{}
	rule         string
	assumptions  []string
	violations   []Violation
	knownHits    map[string]int
	known        []knownFinding
	inconclusive []string
	exhaustive   *bool
	extra        map[string]any
	printed      map[string]bool
}

// Start begins a run for property id at the given evidence level.
func Start(id, level string) *Run {
	r := &Run{
		ID: id, Level: level, start: time.Now(),
		distinct: map[string]struct{}{}, counters: map[string]int64{}, sets: map[string]map[string]struct{}{},
		knownHits: map[string]int{}, maxSamples: 5, extra: map[string]any{}, printed: map[string]bool{},
	}
	b, err := os.ReadFile(filepath.Join(Root, "known_findings.json"))
	if err == nil {
		var all []knownFinding
		if err := json.Unmarshal(b, &all); err != nil {
			panic("known_findings.json: " + err.Error())
		}
		for _, k := range all {
			if k.Property == id && k.Status == "known" {
				r.known = append(r.known, k)
			}
		}
	}
	return r
}

// Rule sets the description of how cases are generated and what counts as distinct / non-trivial.
func (r *Run) Rule(s string) { r.mu.Lock(); r.rule = s; r.mu.Unlock() }

// Assume records an assumption / trusted-base statement.
func (r *Run) Assume(s ...string) {
	r.mu.Lock()
	r.assumptions = append(r.assumptions, s...)
	r.mu.Unlock()
}

// Eval counts n executed cases.
func (r *Run) Eval(n int) { r.mu.Lock(); r.evaluations += int64(n); r.mu.Unlock() }

// Distinct records a distinct non-trivial case by key.
func (r *Run) Distinct(key string) {
	r.mu.Lock()
	if len(key) > 64 {
		h := sha256.Sum256([]byte(key))
		key = hex.EncodeToString(h[:12])
	}
	r.distinct[key] = struct{}{}
	r.mu.Unlock()
}

// Sample keeps x as one of the written-out sample cases (first few only).
func (r *Run) Sample(x any) {
	r.mu.Lock()
	if len(r.samples) < r.maxSamples {
		r.samples = append(r.samples, x)
	}
	r.mu.Unlock()
}

// WantSample reports whether more samples are wanted (lets callers skip building them).
func (r *Run) WantSample() bool {
	r.mu.Lock()
	defer r.mu.Unlock()
	return len(r.samples) < r.maxSamples
}

// Count adds n to a named counter reported in the evidence.
func (r *Run) Count(name string, n int64) { r.mu.Lock(); r.counters[name] += n; r.mu.Unlock() }

// Max records the maximum of a named value.
func (r *Run) Max(name string, v int64) {
	r.mu.Lock()
	if cur, ok := r.counters[name]; !ok || v > cur {
		r.counters[name] = v
	}
	r.mu.Unlock()
}

// SetAdd adds member to a named set; the evidence reports its cardinality.
func (r *Run) SetAdd(name, member string) {
	r.mu.Lock()
	s := r.sets[name]
	if s == nil {
		s = map[string]struct{}{}
		r.sets[name] = s
	}
	if len(member) > 64 {
		h := sha256.Sum256([]byte(member))
		member = hex.EncodeToString(h[:12])
	}
	s[member] = struct{}{}
	r.mu.Unlock()
}

// Extra stores an arbitrary evidence key.
func (r *Run) Extra(k string, v any) { r.mu.Lock(); r.extra[k] = v; r.mu.Unlock() }

// Exhaustive marks whether the enumerated space was completed.
func (r *Run) Exhaustive(b bool) { r.mu.Lock(); r.exhaustive = &b; r.mu.Unlock() }

// Inconclusive records a case whose verdict could not be decided (watchdog, checker timeout ...).
func (r *Run) Inconclusive(what string) {
	r.mu.Lock()
	r.inconclusive = append(r.inconclusive, what)
	n := len(r.inconclusive)
	r.mu.Unlock()
	if n <= 20 {
		fmt.Printf("INCONCLUSIVE property=%s %s\n", r.ID, what)
	}
}

// Violations returns how many unlisted violations were recorded.
func (r *Run) Violations() int { r.mu.Lock(); defer r.mu.Unlock(); return len(r.violations) }

// Violation records a refutation. signature identifies the failing call site / input shape and is
// matched against the "known" entries of known_findings.json; a match is reported as KNOWN-FINDING
// and does not fail the check.
func (r *Run) Violation(signature, detail string, witness any) (counted bool) {
	r.mu.Lock()
	defer r.mu.Unlock()
	for _, k := range r.known {
		if ok, _ := regexp.MatchString(k.Signature, signature); ok {
			r.knownHits[k.Signature]++
			if !r.printed["k:"+k.Signature] {
				r.printed["k:"+k.Signature] = true
				fmt.Printf("KNOWN-FINDING: property=%s %s\n", r.ID, k.What)
			}
			return false
		}
	}
	v := Violation{Signature: signature, Detail: detail, Witness: witness}
	// one replay file per distinct signature, at most 25 files per run
	if !r.printed["v:"+signature] && len(r.printed) < 60 {
		r.printed["v:"+signature] = true
		h := sha256.Sum256([]byte(signature + "\x00" + detail))
		path := filepath.Join(Root, "replays", fmt.Sprintf("%s-%s.json", r.ID, hex.EncodeToString(h[:6])))
		_ = os.MkdirAll(filepath.Dir(path), 0o755)
		b, err := json.MarshalIndent(map[string]any{
			"property": r.ID, "tier": Tier(), "seed": Seed(), "signature": signature, "detail": detail, "witness": witness,
		}, "", " ")
		if err != nil {
			b, _ = json.MarshalIndent(map[string]any{"property": r.ID, "signature": signature, "detail": detail, "witness": fmt.Sprintf("%+v", witness)}, "", " ")
		}
		_ = os.WriteFile(path, b, 0o644)
		v.Replay = path
		fmt.Printf("VIOLATION property=%s replay=%s\n", r.ID, path)
		fmt.Printf("  signature: %s\n  detail: %s\n", signature, trunc(detail, 600))
	}
	if len(r.violations) < 200 {
		r.violations = append(r.violations, v)
	} else {
		r.violations[199] = v
		r.counters["violations_beyond_200"]++
	}
	return true
}

func trunc(s string, n int) string {
	if len(s) > n {
		return s[:n] + "..."
	}
	return s
}

// Finish writes the evidence file and fails t when violations were recorded or the run saw too little.
func (r *Run) Finish(t testing.TB) {
	r.mu.Lock()
	defer r.mu.Unlock()
	cov := map[string]any{
		"evaluations":         r.evaluations,
		"distinct_nontrivial": len(r.distinct),
		"rule":                r.rule,
		"samples":             r.samples,
		"inconclusive":        len(r.inconclusive),
	}
	if r.exhaustive != nil {
		cov["exhaustive"] = *r.exhaustive
	}
	names := make([]string, 0, len(r.counters))
	for k := range r.counters {
		names = append(names, k)
	}
	sort.Strings(names)
	cnt := map[string]int64{}
	for _, k := range names {
		cnt[k] = r.counters[k]
	}
	for k, s := range r.sets {
		cnt["distinct_"+k] = int64(len(s))
	}
	cov["counters"] = cnt
	for k, v := range r.extra {
		cov[k] = v
	}
	if len(r.knownHits) > 0 {
		cov["known_finding_hits"] = r.knownHits
	}
	if len(r.inconclusive) > 0 {
		n := len(r.inconclusive)
		if n > 10 {
			n = 10
		}
		cov["inconclusive_cases"] = r.inconclusive[:n]
	}
	if len(r.samples) == 0 {
		cov["samples"] = []any{}
	}
	evd := map[string]any{
		"property_id": r.ID,
		"tier":        Tier(),
		"seed":        Seed(),
		"level":       r.Level,
		"coverage":    cov,
		"assumptions": r.assumptions,
		"wall_s":      time.Since(r.start).Seconds(),
		"violations":  len(r.violations),
	}
	if len(r.violations) > 0 {
		n := len(r.violations)
		if n > 10 {
			n = 10
		}
		vs := make([]map[string]string, 0, n)
		for _, v := range r.violations[:n] {
			vs = append(vs, map[string]string{"signature": v.Signature, "detail": trunc(v.Detail, 400), "replay": v.Replay})
		}
		evd["violation_list"] = vs
	}
	b, err := json.MarshalIndent(evd, "", " ")
	if err != nil {
		t.Fatalf("evidence marshal: %v", err)
	}
	path := filepath.Join(Root, "evidence", r.ID+".json")
	_ = os.MkdirAll(filepath.Dir(path), 0o755)
	if err := os.WriteFile(path, b, 0o644); err != nil {
		t.Fatalf("evidence write: %v", err)
	}
	fmt.Printf("EVIDENCE property=%s tier=%s seed=%d evaluations=%d distinct_nontrivial=%d violations=%d inconclusive=%d wall=%.1fs\n",
		r.ID, Tier(), Seed(), r.evaluations, len(r.distinct), len(r.violations), len(r.inconclusive), time.Since(r.start).Seconds())
	if len(r.violations) > 0 {
		t.Errorf("%d violation(s) of %s", len(r.violations), r.ID)
	}
	if r.evaluations < 1 || len(r.distinct) < 2 || len(r.samples) < 1 {
		fmt.Printf("BROKEN property=%s the run observed too little (evaluations=%d distinct=%d samples=%d)\n", r.ID, r.evaluations, len(r.distinct), len(r.samples))
		t.Errorf("run observed too little")
	}
}

// ReplayFile returns the witness file named by VERIF_REPLAY, if any.
func ReplayFile() string { return os.Getenv("VERIF_REPLAY") }
