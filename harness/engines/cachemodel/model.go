// Package cachemodel checks pkg/cache against reference models of its eviction policies (C15).
package cachemodel

import (
	"fmt"
	"time"
)

// entry is one incarnation (key, unique value) held by the model.
type entry struct {
	key      int
	val      int
	count    int // lfu: accesses since insertion (admit counts as one)
	expireAt time.Time
	prot     bool // slru: in protected segment
}

// model is the reference cache. For lru and slru it is exact; for lfu the victim is any entry with
// the minimal access count (the tie is resolved by what the implementation reports); for tinylfu
// only the policy-independent invariants are modelled and every eviction is learned from callbacks.
type model struct {
	policy string
	cap    int
	expiry time.Duration
	closed bool

	m map[int]*entry
	// lru: order[0] is most recently used
	order []*entry
	// slru
	protCap   int
	protected []*entry // [0] MRU
	probation []*entry // [0] MRU
}

func newModel(policy string, capacity int, expiry time.Duration) *model {
	return &model{policy: policy, cap: capacity, expiry: expiry, m: map[int]*entry{}, protCap: int(float64(capacity) * 0.8)}
}

func remove(s []*entry, e *entry) []*entry {
	for i, x := range s {
		if x == e {
			return append(s[:i:i], s[i+1:]...)
		}
	}
	panic("model: entry not in list")
}

func pushFront(s []*entry, e *entry) []*entry { return append([]*entry{e}, s...) }

func (m *model) access(e *entry) {
	switch m.policy {
	case "lru":
		m.order = pushFront(remove(m.order, e), e)
	case "lfu":
		e.count++
	case "slru":
		if e.prot {
			m.protected = pushFront(remove(m.protected, e), e)
			return
		}
		m.probation = remove(m.probation, e)
		e.prot = true
		m.protected = pushFront(m.protected, e)
		if len(m.protected) > m.protCap {
			b := m.protected[len(m.protected)-1]
			m.protected = m.protected[:len(m.protected)-1]
			b.prot = false
			m.probation = pushFront(m.probation, b)
		}
	}
}

func (m *model) admit(e *entry) {
	m.m[e.key] = e
	switch m.policy {
	case "lru":
		m.order = pushFront(m.order, e)
	case "lfu":
		e.count = 1
	case "slru":
		m.probation = pushFront(m.probation, e)
	}
}

func (m *model) drop(e *entry) {
	delete(m.m, e.key)
	switch m.policy {
	case "lru":
		m.order = remove(m.order, e)
	case "slru":
		if e.prot {
			m.protected = remove(m.protected, e)
		} else {
			m.probation = remove(m.probation, e)
		}
	}
}

// victims returns the entries the policy definition allows as the next victim
// (nil for tinylfu: unknown, learned from the callback).
func (m *model) victims() []*entry {
	switch m.policy {
	case "lru":
		if len(m.order) == 0 {
			return nil
		}
		return []*entry{m.order[len(m.order)-1]}
	case "slru":
		if n := len(m.probation); n > 0 {
			return []*entry{m.probation[n-1]}
		}
		if n := len(m.protected); n > 0 {
			return []*entry{m.protected[n-1]}
		}
		return nil
	case "lfu":
		min := -1
		for _, e := range m.m {
			if min < 0 || e.count < min {
				min = e.count
			}
		}
		var out []*entry
		for _, e := range m.m {
			if e.count == min {
				out = append(out, e)
			}
		}
		return out
	}
	return nil
}

func (m *model) String() string {
	s := fmt.Sprintf("%s/cap%d{", m.policy, m.cap)
	for k, e := range m.m {
		s += fmt.Sprintf("%d:%d ", k, e.val)
	}
	return s + "}"
}
