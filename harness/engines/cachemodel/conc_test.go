package cachemodel

import (
	"fmt"
	"math/rand"
	"os"
	"sync"
	"sync/atomic"
	"testing"
	"time"

	"github.com/godaddy/asherah/go/appencryption/pkg/cache"

	"verif/harness/ev"
)

// concurrentC15 drives one real cache from several goroutines at once. Every key is Set exactly once (with a unique
// value), then read and sometimes deleted by anybody, so the fate of every entry is decidable without a model of
// the interleaving: after Close and quiescence each key was removed by exactly one successful Delete or reported by
// exactly one eviction callback carrying the value that was set - never both, never twice, never with another
// value. A Get returns the key's own value or a miss; Len never exceeds the capacity; nothing panics; the run ends.
func concurrentC15(t *testing.T, r *ev.Run) {
	rounds := ev.Pick(2, 12)
	opsPer := ev.Pick(1500, 8000)
	const workers = 8
	for _, pol := range []string{"lru", "lfu", "slru", "tinylfu"} {
		for _, cp := range []int{1, 2, 7, 100, 150} {
			for _, mode := range []string{"sync", "async", "sync+expiry"} {
				if !ev.Thorough() && cp == 150 && mode != "sync" {
					continue
				}
				for round := 0; round < rounds; round++ {
					name := fmt.Sprintf("%s/cap=%d/%s", pol, cp, mode)
					journal(fmt.Sprintf("C15 concurrent %s round %d", name, round))
					var mu sync.Mutex
					cbs := map[int][]int{} // key -> values reported by callbacks
					b := cache.New[int, int](cp).WithPolicy(cache.CachePolicy(pol)).WithEvictFunc(func(k, v int) {
						mu.Lock()
						cbs[k] = append(cbs[k], v)
						mu.Unlock()
					})
					switch mode {
					case "sync":
						b = b.Synchronous()
					case "sync+expiry":
						b = b.Synchronous().WithExpiry(200 * time.Microsecond)
					}
					c := b.Build()
					var nextKey atomic.Int64
					var deleted sync.Map // key -> number of Deletes that returned true
					var problems sync.Map
					note := func(sig, f string, a ...any) {
						problems.LoadOrStore(sig, fmt.Sprintf("%s round %d: ", name, round)+fmt.Sprintf(f, a...))
					}
					var wg sync.WaitGroup
					for g := 0; g < workers; g++ {
						g := g
						wg.Add(1)
						go func() {
							defer wg.Done()
							defer func() {
								if p := recover(); p != nil {
									note("panic:"+pol+":concurrent", "worker panicked: %v", p)
								}
							}()
							rng := rand.New(rand.NewSource(ev.Seed()*1009 + int64(round*97+g)))
							for i := 0; i < opsPer/workers; i++ {
								switch x := rng.Intn(10); {
								case x < 4:
									k := int(nextKey.Add(1))
									c.Set(k, k*7+1)
								case x < 9:
									hi := int(nextKey.Load())
									if hi == 0 {
										continue
									}
									k := hi - rng.Intn(min(hi, 2*cp+3))
									if v, ok := c.Get(k); ok && v != k*7+1 {
										note("get-wrong-value:"+pol, "Get(%d) returned %d, the only value ever set for that key is %d", k, v, k*7+1)
									}
								default:
									hi := int(nextKey.Load())
									if hi == 0 {
										continue
									}
									k := hi - rng.Intn(min(hi, cp+2))
									if c.Delete(k) {
										n, _ := deleted.LoadOrStore(k, new(atomic.Int32))
										n.(*atomic.Int32).Add(1)
									}
								}
								if i%64 == 0 {
									if n := c.Len(); n > cp {
										note("over-capacity:"+pol, "Len() = %d with capacity %d", n, cp)
									}
								}
							}
						}()
					}
					done := make(chan struct{})
					go func() { wg.Wait(); close(done) }()
					select {
					case <-done:
					case <-time.After(120 * time.Second):
						r.Inconclusive(fmt.Sprintf("concurrent %s round %d: workers did not finish within 120 s of wall clock (hang or starved machine)", name, round))
						return
					}
					func() {
						defer func() {
							if p := recover(); p != nil {
								note("panic:"+pol+":concurrent", "Close panicked: %v", p)
							}
						}()
						if err := c.Close(); err != nil {
							note("close-error:"+pol, "Close returned %v", err)
						}
					}()
					// asynchronous callbacks: wait (bounded) until every key is accounted for
					total := int(nextKey.Load())
					fate := func() (missing, twice, both, wrong int) {
						mu.Lock()
						defer mu.Unlock()
						for k := 1; k <= total; k++ {
							d := 0
							if n, ok := deleted.Load(k); ok {
								d = int(n.(*atomic.Int32).Load())
							}
							vs := cbs[k]
							for _, v := range vs {
								if v != k*7+1 {
									wrong++
								}
							}
							switch {
							case len(vs)+d == 0:
								missing++
							case len(vs) > 1 || d > 1:
								twice++
							case len(vs) == 1 && d == 1:
								both++
							}
						}
						return
					}
					var missing, twice, both, wrong int
					for wait := 0; wait < 400; wait++ {
						missing, twice, both, wrong = fate()
						if missing == 0 || mode != "async" {
							break
						}
						time.Sleep(5 * time.Millisecond)
					}
					r.Eval(1)
					r.Count("concurrent_rounds", 1)
					r.Count("concurrent_entries_accounted", int64(total))
					if twice > 0 {
						note("callback-twice:"+pol, "%d of %d entries were reported/removed more than once", twice, total)
					}
					if both > 0 {
						note("callback-for-deleted-entry:"+pol, "%d of %d entries were removed by a successful Delete and reported by an eviction callback as well", both, total)
					}
					if wrong > 0 {
						note("callback-wrong-entry:"+pol, "%d callbacks carried a value that was never set for their key", wrong)
					}
					if missing > 0 {
						if mode == "async" {
							r.Inconclusive(fmt.Sprintf("concurrent %s round %d: %d of %d entries without callback 2 s after Close (asynchronous delivery)", name, round, missing, total))
						} else {
							note("callback-missing:"+pol, "%d of %d entries left the cache (it is closed) without any eviction callback", missing, total)
						}
					}
					problems.Range(func(k, v any) bool {
						r.Violation(k.(string), v.(string), map[string]any{"engine": "cachemodel/concurrent", "variant": name, "round": round})
						return true
					})
					if total > cp {
						r.Distinct("concurrent|" + name)
					}
				}
			}
		}
	}
}

func journal(s string) {
	if p := os.Getenv("VERIF_JOURNAL"); p != "" {
		if f, err := os.OpenFile(p, os.O_APPEND|os.O_WRONLY|os.O_CREATE, 0o644); err == nil {
			fmt.Fprintln(f, s)
			f.Close()
		}
	}
}
