package cachemodel

import (
	"fmt"
	"math/rand"
	"os"
	"sync"
	"testing"
	"time"

	"github.com/godaddy/asherah/go/appencryption/pkg/cache"

	"verif/harness/ev"
)

// concurrentC15 drives one real cache from several goroutines at once. Every key is Set exactly once (with a unique
// value), then read and sometimes deleted by anybody, so the fate of every entry is decidable without a model of
// the interleaving: after Close and quiescence each key was removed by exactly one successful Delete or reported by
// exactly one eviction callback carrying the value that was set - never both, never twice, never with another
// value. A Get returns the key's own value or a miss; Len never exceeds the capacity; nothing panics; the run ends.
func concurrentC15(t *testing.T, r *ev.Run) {
	rounds := ev.Pick(2, 12)
	opsPer := ev.Pick(1500, 8000)
	const workers = 8
	for _, pol := range []string{"lru", "lfu", "slru", "tinylfu"} {
		for _, cp := range []int{1, 2, 7, 100, 150} {
			for _, mode := range []string{"sync", "async", "sync+expiry"} {
				if !ev.Thorough() && cp == 150 && mode != "sync" {
					continue
				}
				for round := 0; round < rounds; round++ {
					name := fmt.Sprintf("%s/cap=%d/%s", pol, cp, mode)
					journal(fmt.Sprintf("C15 concurrent %s round %d", name, round))
					var mu sync.Mutex
					cbs := map[int][]int{} // key -> values reported by callbacks
					b := cache.New[int, int](cp).WithPolicy(cache.CachePolicy(pol)).WithEvictFunc(func(k, v int) {
						mu.Lock()
						cbs[k] = append(cbs[k], v)
						mu.Unlock()
					})
					switch mode {
					case "sync":
						b = b.Synchronous()
					case "sync+expiry":
						b = b.Synchronous().WithExpiry(200 * time.Microsecond)
					}
					c := b.Build()
					// no shared harness state on the workers' hot path (it would order the workers and hide unsynchronised
					// accesses inside the cache from the race detector): worker g owns the keys g*stride+1.., remembers its
					// own successful deletes and problems, and guesses the other workers' progress from its own
					const stride = 1 << 20
					valOf := func(k int) int { return k*7 + 1 }
					type local struct {
						sets     int
						deleted  map[int]int
						problems [][2]string
					}
					locals := make([]*local, workers)
					var wg sync.WaitGroup
					for g := 0; g < workers; g++ {
						g := g
						lc := &local{deleted: map[int]int{}}
						locals[g] = lc
						note := func(sig, f string, a ...any) {
							lc.problems = append(lc.problems, [2]string{sig, fmt.Sprintf("%s round %d: ", name, round) + fmt.Sprintf(f, a...)})
						}
						wg.Add(1)
						go func() {
							defer wg.Done()
							defer func() {
								if p := recover(); p != nil {
									note("panic:"+pol+":concurrent", "worker panicked: %v", p)
								}
							}()
							rng := rand.New(rand.NewSource(ev.Seed()*1009 + int64(round*97+g)))
							pick := func(span int) int {
								// a recently set key of some worker (its progress is assumed to be like ours)
								if lc.sets == 0 {
									return 0
								}
								og := rng.Intn(workers)
								return og*stride + 1 + (lc.sets - 1 - rng.Intn(min(lc.sets, span)))
							}
							for i := 0; i < opsPer/workers; i++ {
								switch x := rng.Intn(10); {
								case x < 4:
									k := g*stride + 1 + lc.sets
									lc.sets++
									c.Set(k, valOf(k))
								case x < 9:
									k := pick(2*cp/workers + 3)
									if k == 0 {
										continue
									}
									if v, ok := c.Get(k); ok && v != valOf(k) {
										note("get-wrong-value:"+pol, "Get(%d) returned %d, the only value ever set for that key is %d", k, v, valOf(k))
									}
								default:
									k := pick(cp/workers + 2)
									if k == 0 {
										continue
									}
									if c.Delete(k) {
										lc.deleted[k]++
									}
								}
								if i%64 == 0 {
									if n := c.Len(); n > cp {
										note("over-capacity:"+pol, "Len() = %d with capacity %d", n, cp)
									}
								}
							}
						}()
					}
					done := make(chan struct{})
					go func() { wg.Wait(); close(done) }()
					select {
					case <-done:
					case <-time.After(120 * time.Second):
						r.Inconclusive(fmt.Sprintf("concurrent %s round %d: workers did not finish within 120 s of wall clock (hang or starved machine)", name, round))
						return
					}
					var closeProblems [][2]string
					func() {
						defer func() {
							if p := recover(); p != nil {
								closeProblems = append(closeProblems, [2]string{"panic:" + pol + ":concurrent", fmt.Sprintf("%s round %d: Close panicked: %v", name, round, p)})
							}
						}()
						if err := c.Close(); err != nil {
							closeProblems = append(closeProblems, [2]string{"close-error:" + pol, fmt.Sprintf("%s round %d: Close returned %v", name, round, err)})
						}
					}()
					// asynchronous callbacks: wait (bounded) until every key is accounted for
					deleted := map[int]int{}
					total := 0
					var problems [][2]string
					for _, lc := range locals {
						total += lc.sets
						for k, n := range lc.deleted {
							deleted[k] += n
						}
						problems = append(problems, lc.problems...)
					}
					note := func(sig, f string, a ...any) {
						problems = append(problems, [2]string{sig, fmt.Sprintf("%s round %d: ", name, round) + fmt.Sprintf(f, a...)})
					}
					fate := func() (missing, twice, both, wrong int) {
						mu.Lock()
						defer mu.Unlock()
						for g, lc := range locals {
							for j := 0; j < lc.sets; j++ {
								k := g*stride + 1 + j
								d := deleted[k]
								vs := cbs[k]
								for _, v := range vs {
									if v != valOf(k) {
										wrong++
									}
								}
								switch {
								case len(vs)+d == 0:
									missing++
								case len(vs) > 1 || d > 1:
									twice++
								case len(vs) == 1 && d == 1:
									both++
								}
							}
						}
						for k, vs := range cbs {
							if g := (k - 1) / stride; k < 1 || g >= workers || (k-1)%stride >= locals[g].sets {
								wrong += len(vs) // a callback for a key nobody ever set
							}
						}
						return
					}
					var missing, twice, both, wrong int
					for wait := 0; wait < 400; wait++ {
						missing, twice, both, wrong = fate()
						if missing == 0 || mode != "async" {
							break
						}
						time.Sleep(5 * time.Millisecond)
					}
					r.Eval(1)
					r.Count("concurrent_rounds", 1)
					r.Count("concurrent_entries_accounted", int64(total))
					if twice > 0 {
						note("callback-twice:"+pol, "%d of %d entries were reported/removed more than once", twice, total)
					}
					if both > 0 {
						note("callback-for-deleted-entry:"+pol, "%d of %d entries were removed by a successful Delete and reported by an eviction callback as well", both, total)
					}
					if wrong > 0 {
						note("callback-wrong-entry:"+pol, "%d callbacks carried a value that was never set for their key", wrong)
					}
					if missing > 0 {
						if mode == "async" {
							r.Inconclusive(fmt.Sprintf("concurrent %s round %d: %d of %d entries without callback 2 s after Close (asynchronous delivery)", name, round, missing, total))
						} else {
							note("callback-missing:"+pol, "%d of %d entries left the cache (it is closed) without any eviction callback", missing, total)
						}
					}
					seenSig := map[string]bool{}
					for _, pr := range append(problems, closeProblems...) {
						if !seenSig[pr[0]] {
							seenSig[pr[0]] = true
							r.Violation(pr[0], pr[1], map[string]any{"engine": "cachemodel/concurrent", "variant": name, "round": round})
						}
					}
					if total > cp {
						r.Distinct("concurrent|" + name)
					}
				}
			}
		}
	}
}

func journal(s string) {
	if p := os.Getenv("VERIF_JOURNAL"); p != "" {
		if f, err := os.OpenFile(p, os.O_APPEND|os.O_WRONLY|os.O_CREATE, 0o644); err == nil {
			fmt.Fprintln(f, s)
			f.Close()
		}
	}
}
