package cachemodel

import (
	"fmt"
	"math/rand"
	"os"
	"runtime"
	"sync"
	"sync/atomic"
	"testing"
	"testing/synctest"
	"time"

	"verif/harness/ev"
)

// enumerate calls f with every canonical op sequence of exactly length n (keys appear in the order
// 0,1,2; renaming keys cannot change the behaviour of a correct cache). f may keep the slice only during the call.
func enumerate(n int, withAdvance bool, nkeys int, f func([]op)) {
	seq := make([]op, n)
	var rec func(pos, used int)
	rec = func(pos, used int) {
		if pos == n {
			f(seq)
			return
		}
		maxKey := used // may introduce key number `used` if < nkeys
		if maxKey >= nkeys {
			maxKey = nkeys - 1
		}
		for _, kind := range []byte{'S', 'G', 'D'} {
			for k := 0; k <= maxKey; k++ {
				seq[pos] = op{kind, k}
				nu := used
				if k == used {
					nu = used + 1
				}
				rec(pos+1, nu)
			}
		}
		if withAdvance {
			seq[pos] = op{'A', 0}
			rec(pos+1, used)
		}
		seq[pos] = op{'C', 0}
		rec(pos+1, used)
	}
	rec(0, 0)
}

type progress struct {
	cur  atomic.Pointer[string]
	tick atomic.Int64
}

func TestC15(t *testing.T) {
	r := ev.Start("C15", "exploration")
	r.Rule("bounded-exhaustive: every canonical sequence (keys first appear in order 0,1,2) of exactly L ops over {Set k (unique value), Get k, Delete k, advance clock by expiry/2+1ns, Close} (random and scripted sequences also advance by exactly expiry/2, so that lookups fall on the expiration instant itself) with k in {0,1,2}, for capacities 1-3 x {lru,lfu,slru,tinylfu} x expiry on/off x synchronous/asynchronous callbacks (and shorter sequences on nearly empty caches of capacity 99/100/101/250), each compared after every op with a reference model (lru, slru exact; lfu exact up to ties; tinylfu generic invariants); plus seeded random sequences of length 20*cap for capacities on both sides of the internal thresholds; plus real-goroutine rounds (8 workers, every key set once with a unique value, then read and deleted by anybody) with a conservation oracle: each entry is removed by exactly one successful Delete or reported by exactly one callback with its own value, Get returns the key's own value or a miss, Len <= capacity, no panic. A case is distinct+non-trivial when its (variant, sequence) caused at least one eviction or expiry callback before Close.")
	r.Assume("reference models written from the textbook definitions (SLRU with the code's documented 80/20 split)",
		"asynchronous variants run inside testing/synctest bubbles; synctest.Wait() is the quiescence point at which callbacks are compared",
		"a sequence that makes no progress for 120 s of wall clock is reported as a hang (single-goroutine work that normally takes microseconds)")

	L := ev.Pick(5, 7)
	LAsync := ev.Pick(4, 6)
	LLarge := ev.Pick(3, 5)     // nearly empty caches of capacity 99..250
	nRandom := ev.Pick(12, 400) // per capacity, per policy

	var variants []variant
	for _, pol := range []string{"lru", "lfu", "slru", "tinylfu"} {
		for cp := 1; cp <= 3; cp++ {
			for _, exp := range []bool{false, true} {
				for _, sy := range []bool{true, false} {
					variants = append(variants, variant{pol, cp, exp, sy, false})
				}
			}
		}
	}

	// capacities at which the admission window / protected segment exist, with shorter sequences: nearly empty large
	// caches (one Set then Close, everything deleted again, ...)
	nSmall := len(variants)
	for _, pol := range []string{"lru", "lfu", "slru", "tinylfu"} {
		for _, cp := range []int{99, 100, 101, 250} {
			for _, sy := range []bool{true, false} {
				variants = append(variants, variant{pol, cp, false, sy, false})
			}
		}
	}

	workers := runtime.GOMAXPROCS(0)
	progs := make([]*progress, len(variants)+64)
	for i := range progs {
		progs[i] = &progress{}
	}
	stopWatch := make(chan struct{})
	go watchdog(r, progs, stopWatch)

	var sampleOnce sync.Map
	report := func(v variant, ops []op, o outcome) {
		r.Eval(1)
		r.Count("ops", int64(len(ops)))
		r.Count("evictions", int64(o.evictions))
		r.Count("expiries", int64(o.expiries))
		r.Count("hits", int64(o.hits))
		r.Count("misses", int64(o.misses))
		r.Count("lfu_ties_resolved_by_observation", int64(o.ties))
		r.Count("callbacks_at_close", int64(o.closedCbs))
		if o.evictions+o.expiries > 0 {
			r.Distinct(v.String() + "|" + seqString(ops))
			if _, loaded := sampleOnce.LoadOrStore(v.Policy+fmt.Sprint(v.Sync), true); !loaded {
				r.Sample(map[string]any{"variant": v.String(), "ops": seqString(ops), "evictions": o.evictions, "expiries": o.expiries})
			}
		}
		if o.sig != "" {
			r.Violation(o.sig, o.detail, map[string]any{"variant": v, "ops": seqString(ops)})
		}
	}

	// --- bounded-exhaustive part
	sem := make(chan struct{}, workers)
	var wg sync.WaitGroup
	for vi, v := range variants {
		vi, v := vi, v
		wg.Add(1)
		sem <- struct{}{}
		go func() {
			defer wg.Done()
			defer func() { <-sem }()
			p := progs[vi]
			n := L
			if !v.Sync {
				n = LAsync
			}
			if vi >= nSmall {
				n = LLarge
			}
			body := func() {
				enumerate(n, v.Expiry, 3, func(ops []op) {
					s := v.String() + " " + seqString(ops)
					p.cur.Store(&s)
					p.tick.Add(1)
					o := runSeq(v, ops, !v.Sync)
					report(v, ops, o)
				})
			}
			if v.Sync {
				body()
			} else {
				runInBubble(t, r, v, body)
			}
			idle := "idle"
			p.cur.Store(&idle)
		}()
	}
	wg.Wait()
	r.Extra("exhaustive_length_sync", L)
	r.Extra("exhaustive_length_async", LAsync)
	r.Exhaustive(true)

	// --- seeded random part on both sides of every internal threshold
	caps := []int{1, 2, 3, 4, 5, 6, 9, 10, 11, 99, 100, 101, 199, 200, 201, 1000}
	var rv []variant
	for _, pol := range []string{"lru", "lfu", "slru", "tinylfu"} {
		for _, cp := range caps {
			rv = append(rv, variant{pol, cp, true, true, false}, variant{pol, cp, false, false, false})
			if cp <= 11 {
				// a negative expiry is "no expiry", like zero: entries are never stamped and never expire
				rv = append(rv, variant{pol, cp, false, true, true})
			}
		}
	}
	for vi, v := range rv {
		vi, v := vi, v
		wg.Add(1)
		sem <- struct{}{}
		go func() {
			defer wg.Done()
			defer func() { <-sem }()
			p := progs[len(variants)+vi%64]
			rng := rand.New(rand.NewSource(ev.Seed()*1000003 + int64(vi)))
			cnt := nRandom
			if v.Cap >= 99 {
				cnt = nRandom/6 + 1
			}
			body := func() {
				for i := 0; i < cnt; i++ {
					ops := randomSeq(rng, v)
					s := v.String() + " random#" + fmt.Sprint(i)
					p.cur.Store(&s)
					p.tick.Add(1)
					o := runSeq(v, ops, !v.Sync)
					r.Count("random_sequences", 1)
					if len(ops) > 60 && o.sig == "" { // keep evidence small: record a digest instead of the ops
						report(v, []op{{'S', len(ops)}, {'G', i}}, outcome{evictions: o.evictions, expiries: o.expiries, hits: o.hits, misses: o.misses, ties: o.ties, closedCbs: o.closedCbs})
					} else {
						report(v, ops, o)
					}
					r.SetAdd("random_capacities", fmt.Sprint(v.Policy, v.Cap))
				}
				if v.Expiry {
					// scripted: lookups at exactly the expiration instant, one tick later, and a Set over an entry that
					// has expired but has not been looked up since
					S, G, D, A, E, C := byte('S'), byte('G'), byte('D'), byte('A'), byte('E'), byte('C')
					_ = D
					for si, sq := range [][]op{
						{{S, 0}, {E, 0}, {E, 0}, {G, 0}, {G, 0}},
						{{S, 0}, {E, 0}, {E, 0}, {G, 0}, {A, 0}, {G, 0}},
						{{S, 0}, {S, 1}, {E, 0}, {S, 1}, {E, 0}, {G, 0}, {G, 1}, {E, 0}, {G, 1}, {A, 0}, {G, 1}},
						{{S, 0}, {A, 0}, {A, 0}, {S, 0}, {G, 0}, {S, 1}, {S, 2}, {S, 3}, {G, 0}, {C, 0}},
						{{S, 0}, {S, 1}, {A, 0}, {A, 0}, {S, 0}, {S, 1}, {S, 2}, {G, 0}, {G, 1}, {G, 2}, {S, 3}, {S, 4}, {G, 0}, {G, 1}, {C, 0}},
						{{S, 0}, {E, 0}, {E, 0}, {S, 0}, {E, 0}, {E, 0}, {G, 0}, {A, 0}, {S, 0}, {S, 1}, {G, 0}, {C, 0}},
					} {
						s := v.String() + " scripted#" + fmt.Sprint(si)
						p.cur.Store(&s)
						p.tick.Add(1)
						o := runSeq(v, sq, !v.Sync)
						r.Count("scripted_expiry_sequences", 1)
						report(v, sq, o)
					}
				}
			}
			if v.Sync {
				body()
			} else {
				runInBubble(t, r, v, body)
			}
			idle := "idle"
			p.cur.Store(&idle)
		}()
	}
	wg.Wait()
	close(stopWatch)
	concurrentC15(t, r)
	r.Finish(t)
}

var bubbleMu sync.Mutex

// runInBubble runs body inside a synctest bubble; a deadlock detected by synctest is a violation.
func runInBubble(t *testing.T, r *ev.Run, v variant, body func()) {
	defer func() {
		if p := recover(); p != nil {
			r.Violation("deadlock:"+v.Policy, fmt.Sprintf("%s: synctest: %v", v, p), nil)
		}
	}()
	// synctest.Test must be entered from a *testing.T; sub-tests keep the bubbles independent
	done := make(chan struct{})
	bubbleMu.Lock()
	name := fmt.Sprintf("bubble-%s", v)
	bubbleMu.Unlock()
	go func() {
		defer close(done)
		t.Run(name, func(t *testing.T) {
			defer func() {
				if p := recover(); p != nil {
					r.Violation("deadlock:"+v.Policy, fmt.Sprintf("%s: synctest: %v", v, p), nil)
				}
			}()
			synctest.Test(t, func(t *testing.T) { body() })
		})
	}()
	<-done
}

func randomSeq(rng *rand.Rand, v variant) []op {
	n := 20 * v.Cap
	if n < 40 {
		n = 40
	}
	if n > 6000 {
		n = 6000
	}
	universe := 2 * v.Cap
	if universe < 3 {
		universe = 3
	}
	hot := v.Cap/2 + 1
	ops := make([]op, 0, n+1)
	for i := 0; i < n; i++ {
		k := rng.Intn(universe)
		if rng.Intn(3) == 0 {
			k = rng.Intn(hot) // skew: some keys are hot
		}
		switch x := rng.Intn(100); {
		case x < 42:
			ops = append(ops, op{'S', k})
		case x < 80:
			ops = append(ops, op{'G', k})
		case x < 84:
			ops = append(ops, op{'P', k})
		case x < 94:
			ops = append(ops, op{'D', k})
		default:
			if v.Expiry {
				ops = append(ops, op{[]byte{'A', 'E', 'E'}[rng.Intn(3)], 0})
			} else {
				ops = append(ops, op{'G', k})
			}
		}
	}
	if rng.Intn(4) == 0 {
		ops = append(ops, op{'C', 0}, op{'G', 0}, op{'S', 1}, op{'C', 0})
	}
	return ops
}

func watchdog(r *ev.Run, progs []*progress, stop chan struct{}) {
	last := make([]int64, len(progs))
	stuck := make([]int, len(progs))
	tk := time.NewTicker(10 * time.Second)
	defer tk.Stop()
	for {
		select {
		case <-stop:
			return
		case <-tk.C:
			for i, p := range progs {
				cur := p.cur.Load()
				if cur == nil || *cur == "idle" {
					stuck[i] = 0
					continue
				}
				tick := p.tick.Load()
				if tick == last[i] {
					stuck[i]++
				} else {
					stuck[i] = 0
				}
				last[i] = tick
				if stuck[i] >= 12 {
					r.Violation("hang", "no progress for 120 s while executing: "+*cur, *cur)
					fmt.Println("BROKEN-OR-HANG: aborting run")
					os.Exit(1)
				}
			}
		}
	}
}
