package cachemodel

import (
	"fmt"
	"strings"
	"sync"
	"testing/synctest"
	"time"

	"github.com/godaddy/asherah/go/appencryption/pkg/cache"
)

type op struct {
	Kind byte // S set, G get, P get-or-panic, D delete, A advance clock (expiry/2+1ns), E advance clock by exactly expiry/2, C close
	Key  int
}

func (o op) String() string {
	switch o.Kind {
	case 'A', 'C', 'E':
		return string(o.Kind)
	}
	return fmt.Sprintf("%c%d", o.Kind, o.Key)
}

func seqString(ops []op) string {
	var sb strings.Builder
	for i, o := range ops {
		if i > 0 {
			sb.WriteByte(' ')
		}
		sb.WriteString(o.String())
	}
	return sb.String()
}

type variant struct {
	Policy string
	Cap    int
	Expiry bool
	Sync   bool
	// Neg builds the cache with a negative expiry (and the fake clock); Expiry is false then: nothing ever expires
	Neg bool
}

func (v variant) String() string {
	if v.Neg {
		return fmt.Sprintf("%s/cap=%d/expiry=negative/sync=%v", v.Policy, v.Cap, v.Sync)
	}
	return fmt.Sprintf("%s/cap=%d/expiry=%v/sync=%v", v.Policy, v.Cap, v.Expiry, v.Sync)
}

type fakeClock struct{ now time.Time }

func (c *fakeClock) Now() time.Time { return c.now }

const expiry = time.Hour

type cbRec struct{ k, v int }

type outcome struct {
	sig, detail string // non-empty on violation
	evictions   int
	expiries    int
	hits        int
	misses      int
	ties        int
	closedCbs   int
}

// runSeq executes ops on a real cache built per v and on the reference model and compares after
// every operation. inBubble must be true when v.Sync is false (synctest.Wait is the quiescence
// primitive that makes asynchronous callbacks comparable per operation).
func runSeq(v variant, ops []op, inBubble bool) (out outcome) {
	var (
		mu  sync.Mutex
		cbs []cbRec
	)
	step := -1
	fail := func(sig, format string, a ...any) {
		if out.sig == "" {
			out.sig = sig
			out.detail = fmt.Sprintf("%s seq=[%s] step=%d: ", v, seqString(ops), step) + fmt.Sprintf(format, a...)
		}
	}
	defer func() {
		if p := recover(); p != nil {
			fail(fmt.Sprintf("panic:%s:%s", v.Policy, capClass(v)), "panic: %v", p)
		}
	}()

	clock := &fakeClock{now: time.Unix(1_000_000, 0)}
	b := cache.New[int, int](v.Cap).WithPolicy(cache.CachePolicy(v.Policy)).WithEvictFunc(func(k, val int) {
		mu.Lock()
		cbs = append(cbs, cbRec{k, val})
		mu.Unlock()
	})
	if v.Expiry {
		b = b.WithExpiry(expiry).WithClock(clock)
	}
	if v.Neg {
		b = b.WithExpiry(-expiry).WithClock(clock)
	}
	if v.Sync {
		b = b.Synchronous()
	}
	c := b.Build()
	defer func() {
		// whatever happened, do not leave the event goroutine of an asynchronous cache behind
		if out.sig != "" {
			defer func() { _ = recover() }()
			_ = c.Close()
		}
	}()
	m := newModel(v.Policy, v.Cap, expiry)
	exact := v.Policy != "tinylfu"

	seenCb := map[int]bool{} // incarnation (value) -> callback seen
	taken := 0
	nextVal := 0

	// collect returns the callbacks delivered since the previous call
	collect := func() []cbRec {
		if !v.Sync && inBubble {
			synctest.Wait()
		}
		mu.Lock()
		defer mu.Unlock()
		n := cbs[taken:]
		taken = len(cbs)
		return append([]cbRec(nil), n...)
	}
	// expectCbs checks the new callbacks: want is the list of allowed-victim sets, one per expected callback.
	expectCbs := func(got []cbRec, wantN int, allowed func(cbRec) bool, what string) {
		if len(got) != wantN {
			fail("callback-count:"+v.Policy, "%s: expected %d eviction callback(s), observed %d %v; model %s", what, wantN, len(got), got, m)
		}
		for _, g := range got {
			if seenCb[g.v] {
				fail("callback-twice:"+v.Policy, "%s: second callback for incarnation key=%d val=%d", what, g.k, g.v)
			}
			seenCb[g.v] = true
			if allowed != nil && !allowed(g) {
				fail("callback-wrong-entry:"+v.Policy, "%s: callback for key=%d val=%d which the model does not allow (model %s, allowed victims per definition differ)", what, g.k, g.v, m)
			}
		}
	}

	for i, o := range ops {
		step = i
		if out.sig != "" {
			return
		}
		switch o.Kind {
		case 'S':
			nextVal++
			val := nextVal
			c.Set(o.Key, val)
			got := collect()
			if m.closed {
				expectCbs(got, 0, nil, "set after close")
				break
			}
			if e, ok := m.m[o.Key]; ok {
				e.val = val
				if v.Expiry {
					e.expireAt = clock.now.Add(expiry)
				}
				m.access(e)
				expectCbs(got, 0, nil, "set existing")
				break
			}
			if len(m.m) == m.cap {
				vict := m.victims()
				if len(vict) > 1 {
					out.ties++
				}
				expectCbs(got, 1, func(g cbRec) bool {
					e, ok := m.m[g.k]
					if !ok || e.val != g.v {
						return false
					}
					if !exact {
						return true
					}
					for _, x := range vict {
						if x == e {
							return true
						}
					}
					return false
				}, "set new at capacity")
				out.evictions++
				for _, g := range got {
					if e, ok := m.m[g.k]; ok && e.val == g.v {
						m.drop(e)
					}
				}
				if len(m.m) == m.cap && len(vict) > 0 { // nothing usable observed: keep the model moving
					m.drop(vict[0])
				}
			} else {
				expectCbs(got, 0, nil, "set new below capacity")
			}
			e := &entry{key: o.Key, val: val}
			if v.Expiry {
				e.expireAt = clock.now.Add(expiry)
			}
			m.admit(e)
		case 'G', 'P':
			e, present := m.m[o.Key]
			expired := present && v.Expiry && e.expireAt.Before(clock.now)
			var (
				val int
				ok  bool
			)
			if o.Kind == 'P' && present && !expired && !m.closed {
				val, ok = c.GetOrPanic(o.Key), true
			} else {
				val, ok = c.Get(o.Key)
			}
			got := collect()
			switch {
			case m.closed:
				if ok {
					fail("get-after-close:"+v.Policy, "get returned a value after Close")
				}
				expectCbs(got, 0, nil, "get after close")
			case !present:
				if ok {
					fail("get-stale:"+v.Policy, "get(%d) returned %d but the model holds nothing for it (evicted/deleted earlier)", o.Key, val)
				}
				expectCbs(got, 0, nil, "get miss")
				out.misses++
			case expired:
				if ok {
					fail("get-expired:"+v.Policy, "get(%d) returned %d although the entry expired", o.Key, val)
				}
				expectCbs(got, 1, func(g cbRec) bool { return g.k == e.key && g.v == e.val }, "get on expired entry")
				m.drop(e)
				out.expiries++
			default:
				if !ok || val != e.val {
					fail("get-wrong:"+v.Policy, "get(%d) = (%d,%v), model says (%d,true); model %s", o.Key, val, ok, e.val, m)
				}
				expectCbs(got, 0, nil, "get hit")
				m.access(e)
				out.hits++
			}
		case 'D':
			ok := c.Delete(o.Key)
			got := collect()
			e, present := m.m[o.Key]
			if m.closed {
				present = false
			}
			if ok != present {
				fail("delete-result:"+v.Policy, "delete(%d) = %v, model present=%v", o.Key, ok, present)
			}
			expectCbs(got, 0, nil, "delete")
			if present {
				m.drop(e)
			}
		case 'A':
			clock.now = clock.now.Add(expiry/2 + time.Nanosecond)
		case 'E':
			// two of these after a Set put the clock exactly on the entry's expiration instant: not expired yet
			clock.now = clock.now.Add(expiry / 2)
		case 'C':
			if err := c.Close(); err != nil {
				fail("close-error:"+v.Policy, "Close returned %v", err)
			}
			got := collect()
			if m.closed {
				expectCbs(got, 0, nil, "second close")
				break
			}
			expectCbs(got, len(m.m), func(g cbRec) bool { e, ok := m.m[g.k]; return ok && e.val == g.v }, "close")
			out.closedCbs += len(got)
			for _, e := range m.m {
				if !seenCb[e.val] {
					fail("close-missed-entry:"+v.Policy, "Close returned without a callback for key=%d val=%d", e.key, e.val)
				}
			}
			m.m = map[int]*entry{}
			m.order, m.protected, m.probation = nil, nil, nil
			m.closed = true
		}
		if out.sig != "" {
			return
		}
		if n := c.Len(); n != len(m.m) || n > v.Cap {
			fail("len:"+v.Policy, "Len()=%d, model holds %d, capacity %d", n, len(m.m), v.Cap)
		}
		if !m.closed {
			if cp := c.Capacity(); cp != v.Cap {
				fail("capacity:"+v.Policy, "Capacity()=%d want %d", cp, v.Cap)
			}
		}
	}
	step = len(ops)
	if !m.closed {
		// always finish with Close so that no goroutine is left behind and the drain is checked
		if err := c.Close(); err != nil {
			fail("close-error:"+v.Policy, "Close returned %v", err)
		}
		got := collect()
		expectCbs(got, len(m.m), func(g cbRec) bool { e, ok := m.m[g.k]; return ok && e.val == g.v }, "final close")
		out.closedCbs += len(got)
		for _, e := range m.m {
			if !seenCb[e.val] {
				fail("close-missed-entry:"+v.Policy, "final Close returned without a callback for key=%d val=%d", e.key, e.val)
			}
		}
	}
	return
}

func capClass(v variant) string {
	if v.Policy == "tinylfu" && v.Cap < 100 {
		return "cap<100"
	}
	return "cap>=100-or-other"
}
