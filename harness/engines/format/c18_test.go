// Package format cross-checks the SDK's stored and wire formats against the independent reference codec (C18).
package format

import (
	"bytes"
	"context"
	"database/sql"
	"encoding/hex"
	"encoding/json"
	"errors"
	"fmt"
	"io"
	"math/rand"
	"os"
	"strconv"
	"strings"
	"testing"
	"time"

	"github.com/aws/aws-sdk-go/aws"
	awssession "github.com/aws/aws-sdk-go/aws/session"
	"github.com/godaddy/asherah/go/appencryption"
	"github.com/godaddy/asherah/go/appencryption/pkg/crypto/aead"
	"github.com/godaddy/asherah/go/appencryption/pkg/kms"
	"github.com/godaddy/asherah/go/appencryption/pkg/persistence"
	v1p "github.com/godaddy/asherah/go/appencryption/plugins/aws-v1/persistence"
	v2m "github.com/godaddy/asherah/go/appencryption/plugins/aws-v2/dynamodb/metastore"
	pb "github.com/godaddy/asherah/server/go/api"
	"github.com/godaddy/asherah/server/go/pkg/server"
	"google.golang.org/grpc/metadata"

	"verif/harness/ev"
	"verif/harness/fakes/ddb"
	"verif/harness/fakes/sqlmini"
	"verif/harness/refimpl"
)

const master = "thisIsAStaticMasterKeyForTesting"

func journal(s string) {
	if p := os.Getenv("VERIF_JOURNAL"); p != "" {
		if f, err := os.OpenFile(p, os.O_APPEND|os.O_WRONLY|os.O_CREATE, 0o644); err == nil {
			fmt.Fprintln(f, s)
			f.Close()
		}
	}
}

// store is one persistence back end seen from both sides: the SDK's Metastore and the reference's raw access.
type store struct {
	name   string
	region string
	ms     appencryption.Metastore
	// refGet reads the raw row (id, created) and parses it with the reference codec.
	refGet refimpl.Lookup
	// refPut writes a key record in the back end's native documented format.
	refPut func(id string, created int64, kr *refimpl.KeyRecord) error
	close  func()
}

var v1sess = awssession.Must(awssession.NewSession(aws.NewConfig().WithRegion("us-west-2")))

func parseJSONRecord(text string) (*refimpl.KeyRecord, error) {
	dec := json.NewDecoder(strings.NewReader(text))
	dec.UseNumber()
	var m map[string]any
	if err := dec.Decode(&m); err != nil {
		return nil, fmt.Errorf("key record is not JSON: %v", err)
	}
	return refimpl.ParseKeyRecord(m)
}

func memoryStore() *store {
	mem := persistence.NewMemoryMetastore()
	return &store{name: "json(memory)", ms: mem, close: func() {},
		refGet: func(id string, created int64) (*refimpl.KeyRecord, error) {
			mem.RLock()
			e := mem.Envelopes[id][created]
			mem.RUnlock()
			if e == nil {
				return nil, errors.New("row not found")
			}
			b, err := json.Marshal(e) // the SDK's JSON serialisation is the artefact under test
			if err != nil {
				return nil, err
			}
			return parseJSONRecord(string(b))
		},
		refPut: func(id string, created int64, kr *refimpl.KeyRecord) error {
			b, _ := json.Marshal(refimpl.KeyRecordJSON(kr))
			var e appencryption.EnvelopeKeyRecord
			if err := json.Unmarshal(b, &e); err != nil {
				return err
			}
			ok, err := mem.Store(context.Background(), id, created, &e)
			if !ok {
				return fmt.Errorf("store refused: %v", err)
			}
			return nil
		}}
}

func sqlStore(d sqlmini.Dialect) *store {
	db, h := sqlmini.Open(d)
	var ms *persistence.SQLMetastore
	ph := []string{"?", "?", "?"}
	switch d {
	case sqlmini.MySQL:
		ms = persistence.NewSQLMetastore(h)
	case sqlmini.Postgres:
		ms = persistence.NewSQLMetastore(h, persistence.WithSQLMetastoreDBType(persistence.Postgres))
		ph = []string{"$1", "$2", "$3"}
	case sqlmini.Oracle:
		ms = persistence.NewSQLMetastore(h, persistence.WithSQLMetastoreDBType(persistence.Oracle))
		ph = []string{":1", ":2", ":3"}
	}
	return &store{name: "sql(" + string(d) + ")", ms: ms, close: func() { h.Close(); db.Drop() },
		refGet: func(id string, created int64) (*refimpl.KeyRecord, error) {
			for _, row := range db.Dump() {
				if row[0] == id && row[1] == strconv.FormatInt(created, 10) {
					return parseJSONRecord(row[2])
				}
			}
			return nil, errors.New("row not found in encryption_key")
		},
		refPut: func(id string, created int64, kr *refimpl.KeyRecord) error {
			b, _ := json.Marshal(refimpl.KeyRecordJSON(kr))
			_, err := h.Exec(fmt.Sprintf("INSERT INTO encryption_key (id, created, key_record) VALUES (%s, %s, %s)", ph[0], ph[1], ph[2]), id, time.Unix(created, 0), string(b))
			return err
		}}
}

func avToRecord(kr ddb.AV) (*refimpl.KeyRecord, error) {
	if kr.Kind != 'M' {
		return nil, errors.New("KeyRecord attribute is not a map")
	}
	out := &refimpl.KeyRecord{}
	for k, v := range kr.M {
		switch k {
		case "Created":
			if v.Kind != 'N' {
				return nil, errors.New("KeyRecord.Created is not a number attribute")
			}
			out.Created, _ = strconv.ParseInt(v.S, 10, 64)
		case "Key":
			if v.Kind != 'S' {
				return nil, errors.New("KeyRecord.Key is not a string attribute (base64)")
			}
			b, err := decodeB64(v.S)
			if err != nil {
				return nil, err
			}
			out.Key = b
		case "ParentKeyMeta":
			if v.Kind == '0' {
				continue
			}
			if v.Kind != 'M' {
				return nil, errors.New("KeyRecord.ParentKeyMeta is not a map")
			}
			id, ok1 := v.M["KeyId"]
			cr, ok2 := v.M["Created"]
			if !ok1 || !ok2 || id.Kind != 'S' || cr.Kind != 'N' || len(v.M) != 2 {
				return nil, fmt.Errorf("ParentKeyMeta must be {KeyId: S, Created: N}, got %d attributes", len(v.M))
			}
			out.HasParent, out.ParentID = true, id.S
			out.ParentCreated, _ = strconv.ParseInt(cr.S, 10, 64)
		case "Revoked":
			if v.Kind != 'T' {
				return nil, errors.New("KeyRecord.Revoked is not a boolean attribute")
			}
			if !v.Bool {
				return nil, errors.New("Revoked must only be present when true")
			}
			out.Revoked = true
		default:
			return nil, fmt.Errorf("unexpected attribute %q in KeyRecord", k)
		}
	}
	if out.Key == nil {
		return nil, errors.New("KeyRecord lacks Key")
	}
	return out, nil
}

func decodeB64(s string) ([]byte, error) {
	d := refimpl.DRRJSON(&refimpl.DRR{Key: &refimpl.KeyRecord{}, Data: nil})
	_ = d
	var m map[string]any
	if err := json.Unmarshal([]byte(`{"x":"`+s+`"}`), &m); err != nil {
		return nil, err
	}
	var out struct{ X []byte }
	if err := json.Unmarshal([]byte(`{"X":"`+s+`"}`), &out); err != nil {
		return nil, fmt.Errorf("not standard base64: %v", err)
	}
	return out.X, nil
}

func recordToAV(kr *refimpl.KeyRecord) ddb.AV {
	b64 := strings.Trim(string(mustJSON(kr.Key)), `"`)
	m := map[string]ddb.AV{"Created": {Kind: 'N', S: strconv.FormatInt(kr.Created, 10)}, "Key": {Kind: 'S', S: b64}}
	if kr.HasParent {
		m["ParentKeyMeta"] = ddb.AV{Kind: 'M', M: map[string]ddb.AV{"KeyId": {Kind: 'S', S: kr.ParentID}, "Created": {Kind: 'N', S: strconv.FormatInt(kr.ParentCreated, 10)}}}
	}
	if kr.Revoked {
		m["Revoked"] = ddb.AV{Kind: 'T', Bool: true}
	}
	return ddb.AV{Kind: 'M', M: m}
}

func mustJSON(v any) []byte { b, _ := json.Marshal(v); return b }

func ddbStore(version int, suffix bool) *store {
	t := ddb.NewTable("EncryptionKey")
	var ms appencryption.Metastore
	if version == 1 {
		ms = v1p.NewDynamoDBMetastore(v1sess, v1p.WithClient(ddb.V1{T: t}), v1p.WithDynamoDBRegionSuffix(suffix))
	} else {
		m, err := v2m.NewDynamoDB(v2m.WithDynamoDBClient(ddb.V2{T: t}), v2m.WithRegionSuffix(suffix))
		if err != nil {
			panic(err)
		}
		ms = m
	}
	region := ""
	if suffix {
		region = "us-west-2"
	}
	return &store{name: fmt.Sprintf("dynamodb-v%d(suffix=%v)", version, suffix), region: region, ms: ms, close: func() {},
		refGet: func(id string, created int64) (*refimpl.KeyRecord, error) {
			it, ok := t.Items()[fmt.Sprintf("%s|%d", id, created)]
			if !ok {
				return nil, errors.New("item not found in EncryptionKey")
			}
			if len(it) != 3 {
				return nil, fmt.Errorf("item has %d attributes, want Id, Created, KeyRecord", len(it))
			}
			if a := it["Id"]; a.Kind != 'S' || a.S != id {
				return nil, errors.New("item Id attribute wrong")
			}
			if a := it["Created"]; a.Kind != 'N' || a.S != strconv.FormatInt(created, 10) {
				return nil, errors.New("item Created attribute wrong")
			}
			return avToRecord(it["KeyRecord"])
		},
		refPut: func(id string, created int64, kr *refimpl.KeyRecord) error {
			return t.Put("EncryptionKey", map[string]ddb.AV{"Id": {Kind: 'S', S: id}, "Created": {Kind: 'N', S: strconv.FormatInt(created, 10)}, "KeyRecord": recordToAV(kr)}, "attribute_not_exists(Id)", nil)
		}}
}

func stores() []func() *store {
	return []func() *store{
		memoryStore,
		func() *store { return sqlStore(sqlmini.MySQL) },
		func() *store { return sqlStore(sqlmini.Postgres) },
		func() *store { return sqlStore(sqlmini.Oracle) },
		func() *store { return ddbStore(1, false) },
		func() *store { return ddbStore(1, true) },
		func() *store { return ddbStore(2, false) },
		func() *store { return ddbStore(2, true) },
	}
}

func randID(rng *rand.Rand) string {
	// ids are used verbatim in key ids: surrounding white space, case and punctuation are part of the id
	pool := []string{"tenant", "user_42", "üñí", "A-B", "x", "日本", "p.q", "12345", "with space", " lead", "trail ", "\ttab", "MiXeD", "a+b|c", "nl\n", "100%", "user%40example.com", "%s%d", "q\"uote"}
	s := pool[rng.Intn(len(pool))]
	if rng.Intn(3) == 0 {
		s += strconv.Itoa(rng.Intn(1000))
	}
	return s
}

func TestC18(t *testing.T) {
	r := ev.Start("C18", "exploration")
	r.Rule("an independent reference codec written from the documentation (encoding/json on generic maps, base64, crypto/aes + cipher.NewGCM, none of the SDK's types) is played against the SDK in both directions through every persistence format: JSON data row records, the JSON serialisation of key records (memory), the SQL key_record text row (mini SQL engine, three placeholder dialects), DynamoDB v1 and v2 items (fake table, with and without region suffix), StaticKMS envelopes and the gRPC protobuf mapping. SDK writes / reference parses strictly (field names, presence rules such as Revoked only when true, base64, ciphertext|tag(16)|nonce(12), key id shapes) and decrypts; reference writes / SDK decrypts; random payloads, ids, timestamps and two key generations; key blobs of 1..1000 bytes (every base64 padding class) stored by the SDK's metastores and parsed strictly by the reference, and the reverse; a NIST/McGrew-Viega AES-256-GCM known answer laid out in the documented order must open through the SDK's AEAD. Distinct+non-trivial: distinct (store, direction, ids) cases completed.")
	r.Assume("Java / C# peers are not available offline; the reference codec stands in for them and is trusted together with Go's AES-GCM (anchored by the known-answer vectors)")
	rng := rand.New(rand.NewSource(ev.Seed()))
	crypto := aead.NewAES256GCM()
	static, _ := kms.NewStatic(master, crypto)
	defer static.Close()
	n := ev.Pick(40, 1200)
	ctx := context.Background()

	// known answers: McGrew-Viega test cases 13 and 14 (AES-256, 96-bit IV of zeros)
	for _, kat := range []struct{ pt, ct, tag string }{
		{"", "", "530f8afbc74536b9a963b4f1c4cb738b"},
		{"00000000000000000000000000000000", "cea7403d4d606b6e074ec5d3baf39d18", "d0d1c8a799996bf0265b98b5d48ab919"},
	} {
		key := make([]byte, 32)
		ct, _ := hex.DecodeString(kat.ct)
		tag, _ := hex.DecodeString(kat.tag)
		pt, _ := hex.DecodeString(kat.pt)
		blob := append(append(append([]byte{}, ct...), tag...), make([]byte, 12)...)
		out, err := crypto.Decrypt(append([]byte(nil), blob...), key) // (the SDK gets its own copy: the reference opens the original)
		r.Eval(1)
		if err != nil || !bytes.Equal(out, pt) {
			r.Violation("c18-aead-known-answer", fmt.Sprintf("AES-256-GCM known answer laid out as ciphertext|tag|nonce does not open through the SDK's AEAD: %v", err), nil)
		}
		if ref, err := refimpl.Open(key, blob); err != nil || !bytes.Equal(ref, pt) {
			t.Fatalf("reference codec fails the known answer: %v", err)
		}
	}

	// region-suffixed key ids with the plug-ins' default clients (no client injected): the suffix is the client's region
	for _, region := range []string{"eu-central-1", "ap-southeast-2"} {
		t.Setenv("AWS_REGION", region)
		t.Setenv("AWS_ACCESS_KEY_ID", "AKIAVERIFVERIFVERIF")
		t.Setenv("AWS_SECRET_ACCESS_KEY", "verif/verif/verif/verif/verif/verif/veri")
		t.Setenv("AWS_EC2_METADATA_DISABLED", "true")
		r.Eval(1)
		if m, err := v2m.NewDynamoDB(v2m.WithRegionSuffix(true)); err != nil {
			r.Inconclusive("default DynamoDB v2 client cannot be built offline: " + err.Error())
		} else if got := m.GetRegionSuffix(); got != region {
			r.Violation("c18-key-id-shape:dynamodb-v2", fmt.Sprintf("DynamoDB v2 metastore built with the default client and the region-suffix option reports suffix %q, the client's region is %q: key ids would not carry _%s", got, region, region), nil)
		} else if m2, _ := v2m.NewDynamoDB(v2m.WithRegionSuffix(false)); m2 != nil && m2.GetRegionSuffix() != "" {
			r.Violation("c18-key-id-shape:dynamodb-v2", fmt.Sprintf("region suffix %q reported although the option is off", m2.GetRegionSuffix()), nil)
		}
		sess1, err := awssession.NewSession(aws.NewConfig().WithRegion(region))
		if err != nil {
			r.Inconclusive("default DynamoDB v1 session cannot be built offline: " + err.Error())
		} else if got := v1p.NewDynamoDBMetastore(sess1, v1p.WithDynamoDBRegionSuffix(true)).GetRegionSuffix(); got != region {
			r.Violation("c18-key-id-shape:dynamodb-v1", fmt.Sprintf("DynamoDB v1 metastore built on a session of region %q with the region-suffix option reports suffix %q", region, got), nil)
		}
		// the sidecar's option mapping: --metastore=dynamodb --enable-region-suffix, with the region given explicitly
		// (--dynamodb-region) or taken from the environment
		type suffixer interface{ GetRegionSuffix() string }
		for _, oc := range []struct {
			name string
			o    server.Options
			want string
		}{
			{"ambient region", server.Options{Metastore: "dynamodb", EnableRegionSuffix: true}, region},
			{"explicit region", server.Options{Metastore: "dynamodb", EnableRegionSuffix: true, DynamoDBRegion: "us-east-2"}, "us-east-2"},
			{"suffix off", server.Options{Metastore: "dynamodb", DynamoDBRegion: "us-east-2"}, ""},
			{"suffix on, custom table", server.Options{Metastore: "dynamodb", EnableRegionSuffix: true, DynamoDBTableName: "Keys"}, region},
		} {
			func() {
				defer func() {
					if pv := recover(); pv != nil {
						r.Inconclusive(fmt.Sprintf("sidecar metastore (%s) cannot be built offline: %v", oc.name, pv))
					}
				}()
				o := oc.o
				ms := server.NewMetastore(&o)
				r.Eval(1)
				sf, ok := ms.(suffixer)
				if got := map[bool]string{true: "", false: "(no suffix support)"}[ok]; ok {
					got = sf.GetRegionSuffix()
					if got != oc.want {
						r.Violation("c18-key-id-shape:sidecar-dynamodb", fmt.Sprintf("sidecar options (%s, AWS_REGION=%s): the metastore reports region suffix %q, want %q - key ids would not have the documented _IK_partition_service_product[_region] shape peers expect", oc.name, region, got, oc.want), nil)
					}
				} else if oc.want != "" {
					r.Violation("c18-key-id-shape:sidecar-dynamodb", fmt.Sprintf("sidecar options (%s): the metastore does not expose a region suffix", oc.name), nil)
				}
				r.Count("sidecar_option_mapping_cases", 1)
			}()
		}
		r.Count("default_client_suffix_cases", 1)
	}
	for _, mk := range stores() {
		st := mk()
		journal("C18 store " + st.name)
		for i := 0; i < n; i++ {
			svc, prod, part := randID(rng), randID(rng), randID(rng)
			payload := make([]byte, []int{0, 1, 16, 33, 1000}[rng.Intn(5)])
			rng.Read(payload)
			// the application's buffer is larger than the payload and is reused for the next message as soon as Encrypt
			// has returned - before the record is serialised
			appBuf := make([]byte, len(payload), len(payload)+64)
			copy(appBuf, payload)
			pol := appencryption.NewCryptoPolicy()
			cfg := &appencryption.Config{Service: svc, Product: prod, Policy: pol}
			fail := func(sig, f string, a ...any) {
				r.Violation(sig+":"+strings.SplitN(st.name, "(", 2)[0], fmt.Sprintf("store %s service=%q product=%q partition=%q: ", st.name, svc, prod, part)+fmt.Sprintf(f, a...),
					map[string]any{"store": st.name, "service": svc, "product": prod, "partition": part})
			}
			// ---- direction A: SDK writes, reference reads
			f := appencryption.NewSessionFactory(cfg, st.ms, static, crypto)
			s, err := f.GetSession(part)
			if err != nil {
				fail("c18-setup", "GetSession: %v", err)
				continue
			}
			drr, err := s.Encrypt(ctx, appBuf)
			if err != nil {
				fail("c18-sdk-encrypt-failed", "%v", err)
				s.Close()
				f.Close()
				continue
			}
			for j := range appBuf[:cap(appBuf)] {
				appBuf[:cap(appBuf)][j] = 0xEE
			}
			text, _ := json.Marshal(drr)
			rd, err := refimpl.ParseDRR(text)
			r.Eval(1)
			if err != nil {
				fail("c18-drr-json-shape", "the reference cannot parse the SDK's data row record %s: %v", text, err)
			} else {
				if want := refimpl.IntermediateKeyID(part, svc, prod, st.region); rd.Key.ParentID != want {
					fail("c18-key-id-shape", "record names IK id %q, the documented shape is %q", rd.Key.ParentID, want)
				}
				ik, ierr := st.refGet(rd.Key.ParentID, rd.Key.ParentCreated)
				if ierr == nil && ik.HasParent {
					if want := refimpl.SystemKeyID(svc, prod, st.region); ik.ParentID != want {
						fail("c18-key-id-shape", "IK row names SK id %q, the documented shape is %q", ik.ParentID, want)
					}
				}
				out, derr := refimpl.Decrypt(rd, st.refGet, []byte(master))
				if derr != nil || !bytes.Equal(out, payload) {
					fail("c18-reference-cannot-read-sdk", "the reference cannot decrypt what the SDK wrote: %v", derr)
				} else {
					r.Count("sdk_written_reference_read", 1)
					r.Distinct(fmt.Sprintf("A|%s|%s|%s|%s", st.name, svc, prod, part))
				}
				if len(rd.Data) != len(payload)+28 {
					fail("c18-ciphertext-layout", "Data is %d bytes for a %d-byte payload, want payload+16+12", len(rd.Data), len(payload))
				}
			}
			s.Close()
			f.Close()

			// ---- direction B: reference writes (own ids so that nothing of direction A is reused), SDK reads
			svcB, prodB, partB := fmt.Sprintf("%sB%d", svc, i), prod+"B", part+"B"
			now := time.Now().Unix()
			skc := now - int64(rng.Intn(100000)) - 120
			// the documented format imposes no order on the two stamps: every writer truncates with its own precision and
			// uses its own clock, so an intermediate key may carry an earlier stamp than the system key that wraps it
			ikc := skc - 30 + int64(rng.Intn(130))
			h := refimpl.NewHierarchy([]byte(master), partB, svcB, prodB, st.region, skc, ikc)
			if rng.Intn(4) == 0 {
				h.IKRecord.Revoked = true
			}
			if err := st.refPut(h.SKID, skc, h.SKRecord); err != nil {
				fail("c18-setup", "reference SK row: %v", err)
				continue
			}
			if err := st.refPut(h.IKID, ikc, h.IKRecord); err != nil {
				fail("c18-setup", "reference IK row: %v", err)
				continue
			}
			// the data row key's own stamp is informational (another host's clock, or left at zero by a peer that does not
			// set it): before, at or after the intermediate key's stamp
			drkCreated := []int64{now, ikc - 3, 0, ikc}[i%4]
			rdoc := refimpl.DRRJSON(h.Encrypt(payload, drkCreated))
			var sdkDRR appencryption.DataRowRecord
			r.Eval(1)
			if err := json.Unmarshal(rdoc, &sdkDRR); err != nil {
				fail("c18-sdk-cannot-parse-reference", "json.Unmarshal of a documented-shape record failed: %v", err)
				continue
			}
			fb := appencryption.NewSessionFactory(&appencryption.Config{Service: svcB, Product: prodB, Policy: appencryption.NewCryptoPolicy()}, st.ms, static, crypto)
			sb, _ := fb.GetSession(partB)
			out, err := sb.Decrypt(ctx, sdkDRR)
			if err != nil || !bytes.Equal(out, payload) {
				fail("c18-sdk-cannot-read-reference", "the SDK cannot decrypt a record built from the documentation (revoked IK=%v): %v", h.IKRecord.Revoked, err)
			} else {
				r.Count("reference_written_sdk_read", 1)
				r.Distinct(fmt.Sprintf("B|%s|%s|%s|%s", st.name, svcB, prodB, partB))
			}
			// with the region suffix configured, records written in another region (global table) or before the suffix
			// was switched on name _IK_partition_service_product with another or no suffix; their rows are in the table
			if st.region != "" {
				for _, region2 := range []string{"", "eu-west-1"} {
					partR := part + "R" + region2
					h2 := refimpl.NewHierarchy([]byte(master), partR, svcB, prodB, region2, skc, ikc)
					if st.refPut(h2.SKID, skc, h2.SKRecord) != nil || st.refPut(h2.IKID, ikc, h2.IKRecord) != nil {
						continue
					}
					var drr2 appencryption.DataRowRecord
					if json.Unmarshal(refimpl.DRRJSON(h2.Encrypt(payload, now)), &drr2) != nil {
						continue
					}
					r.Eval(1)
					sr, _ := fb.GetSession(partR)
					if out, err := sr.Decrypt(ctx, drr2); err != nil || !bytes.Equal(out, payload) {
						fail("c18-sdk-cannot-read-reference", "region suffix %q configured: the SDK cannot decrypt a documented-shape record of the same partition written with suffix %q (IK id %q): %v", st.region, region2, h2.IKID, err)
					} else {
						r.Count("other_region_records_read", 1)
					}
					sr.Close()
				}
			}
			// the metastore returns a reference-written revoked flag faithfully
			if got, err := st.ms.Load(ctx, h.IKID, ikc); err != nil || got == nil || got.Revoked != h.IKRecord.Revoked {
				fail("c18-revoked-flag", "Load of a reference-written row: revoked=%v want %v (err=%v)", got != nil && got.Revoked, h.IKRecord.Revoked, err)
			}
			// a record stored by the SDK with Revoked=true is read back by the reference with the flag, and without it otherwise
			rid := fmt.Sprintf("_IK_rev%d_%s_%s", i, svcB, prodB)
			rev := rng.Intn(2) == 0
			if ok, err := st.ms.Store(ctx, rid, now, &appencryption.EnvelopeKeyRecord{Created: now, EncryptedKey: []byte{1, 2, 3}, Revoked: rev, ParentKeyMeta: &appencryption.KeyMeta{ID: h.SKID, Created: skc}}); ok && err == nil {
				if kr, err := st.refGet(rid, now); err != nil || kr.Revoked != rev {
					fail("c18-revoked-flag", "row stored with Revoked=%v is seen by the reference as %+v (err=%v)", rev, kr, err)
				}
			}
			// ---- direction C: mixed hierarchy - the SDK creates a new partition's IK under the older, reference-written SK
			partC := part + "C"
			sc, _ := fb.GetSession(partC)
			drrC, err := sc.Encrypt(ctx, payload)
			r.Eval(1)
			if err != nil {
				fail("c18-sdk-encrypt-failed", "encrypt for a new partition under a reference-written system key failed: %v", err)
			} else {
				textC, _ := json.Marshal(drrC)
				if rdC, perr := refimpl.ParseDRR(textC); perr != nil {
					fail("c18-drr-json-shape", "%v", perr)
				} else {
					ikC, ierr := st.refGet(rdC.Key.ParentID, rdC.Key.ParentCreated)
					if ierr != nil {
						fail("c18-reference-cannot-read-sdk", "IK row written by the SDK: %v", ierr)
					} else if !ikC.HasParent || ikC.ParentID != h.SKID || ikC.ParentCreated != skc {
						fail("c18-ik-row-parent-meta", "the IK row written by the SDK names parent (%s,%d); it was wrapped by the system key (%s,%d)", ikC.ParentID, ikC.ParentCreated, h.SKID, skc)
					}
					if outC, derr := refimpl.Decrypt(rdC, st.refGet, []byte(master)); derr != nil || !bytes.Equal(outC, payload) {
						fail("c18-reference-cannot-read-sdk", "mixed hierarchy (reference SK, SDK IK): the reference cannot decrypt: %v", derr)
					} else {
						r.Count("mixed_hierarchy_reference_read", 1)
					}
				}
			}
			sc.Close()
			sb.Close()
			fb.Close()
			if r.WantSample() && i == 3 {
				r.Sample(map[string]any{"store": st.name, "sdk_record": string(text), "reference_record": string(rdoc)})
			}
		}
		// key blobs of every length class (AWS KMS envelopes are variable-length JSON; their base64 needs padding):
		// what the SDK's metastore stores the reference parses strictly, what the reference stores the SDK loads
		for li, L := range []int{1, 2, 3, 31, 32, 59, 60, 61, 62, 184, 185, 1000} {
			blob := make([]byte, L)
			rng.Read(blob)
			created := int64(1700000000 + li*60)
			sdkID := fmt.Sprintf("_SK_len%d_sdk", L)
			r.Eval(1)
			ok, err := st.ms.Store(ctx, sdkID, created, &appencryption.EnvelopeKeyRecord{Created: created, EncryptedKey: append([]byte(nil), blob...), Revoked: li%2 == 1})
			if !ok || err != nil {
				r.Violation("c18-store-failed:"+strings.SplitN(st.name, "(", 2)[0], fmt.Sprintf("store %s: Store of a %d-byte key blob: ok=%v err=%v", st.name, L, ok, err), nil)
				continue
			}
			kr, err := st.refGet(sdkID, created)
			if err != nil || !bytes.Equal(kr.Key, blob) || kr.Revoked != (li%2 == 1) || kr.Created != created {
				r.Violation("c18-reference-cannot-read-sdk:"+strings.SplitN(st.name, "(", 2)[0], fmt.Sprintf("store %s: a key record with a %d-byte key written by the SDK's metastore is not what the reference reads back (err=%v)", st.name, L, err), map[string]any{"store": st.name, "key_len": L})
			}
			refID := fmt.Sprintf("_SK_len%d_ref", L)
			if err := st.refPut(refID, created, &refimpl.KeyRecord{Created: created, Key: append([]byte(nil), blob...), Revoked: li%2 == 0}); err != nil {
				r.Violation("c18-setup", fmt.Sprintf("store %s: reference write failed: %v", st.name, err), nil)
				continue
			}
			got, err := st.ms.Load(ctx, refID, created)
			if err != nil || got == nil || !bytes.Equal(got.EncryptedKey, blob) || got.Revoked != (li%2 == 0) || got.Created != created {
				r.Violation("c18-sdk-cannot-read-reference:"+strings.SplitN(st.name, "(", 2)[0], fmt.Sprintf("store %s: a key record with a %d-byte key written in the documented format is not what the SDK's metastore loads (err=%v)", st.name, L, err), map[string]any{"store": st.name, "key_len": L})
			}
			r.Count("key_blob_length_cases", 1)
		}
		st.close()
	}
	grpcMapping(t, r, rng)
	r.Finish(t)
}

// ---- gRPC mapping

type fakeStream struct {
	ctx   context.Context
	reqs  []*pb.SessionRequest
	i     int
	resps []*pb.SessionResponse
}

func (f *fakeStream) Recv() (*pb.SessionRequest, error) {
	if f.i >= len(f.reqs) {
		return nil, io.EOF
	}
	f.i++
	return f.reqs[f.i-1], nil
}
func (f *fakeStream) Send(r *pb.SessionResponse) error { f.resps = append(f.resps, r); return nil }
func (f *fakeStream) SetHeader(metadata.MD) error      { return nil }
func (f *fakeStream) SendHeader(metadata.MD) error     { return nil }
func (f *fakeStream) SetTrailer(metadata.MD)           {}
func (f *fakeStream) Context() context.Context         { return f.ctx }
func (f *fakeStream) SendMsg(m any) error              { return nil }
func (f *fakeStream) RecvMsg(m any) error              { return nil }

func grpcMapping(t *testing.T, r *ev.Run, rng *rand.Rand) {
	crypto := aead.NewAES256GCM()
	static, _ := kms.NewStatic(master, crypto)
	defer static.Close()
	st := memoryStore()
	n := ev.Pick(40, 1500)
	for i := 0; i < n; i++ {
		svc, prod, part := randID(rng), randID(rng), randID(rng)
		sf := appencryption.NewSessionFactory(&appencryption.Config{Service: svc, Product: prod, Policy: appencryption.NewCryptoPolicy()}, st.ms, static, crypto)
		app := server.VerifNewAppEncryptionWithFactory(sf)
		payload := make([]byte, rng.Intn(200))
		rng.Read(payload)
		// reference-written record for this partition
		now := time.Now().Unix()
		h := refimpl.NewHierarchy([]byte(master), part, svc, prod, "", now-500-int64(i), now-400-int64(i))
		wrote := st.refPut(h.SKID, h.SKCreated, h.SKRecord) == nil && st.refPut(h.IKID, h.IKCreated, h.IKRecord) == nil
		rr := h.Encrypt(payload, now)
		refMsg := &pb.DataRowRecord{Data: rr.Data, Key: &pb.EnvelopeKeyRecord{Created: rr.Key.Created, Key: rr.Key.Key, ParentKeyMeta: &pb.KeyMeta{KeyId: rr.Key.ParentID, Created: rr.Key.ParentCreated}}}
		fs := &fakeStream{ctx: context.Background(), reqs: []*pb.SessionRequest{
			{Request: &pb.SessionRequest_GetSession{GetSession: &pb.GetSession{PartitionId: part}}},
			{Request: &pb.SessionRequest_Encrypt{Encrypt: &pb.Encrypt{Data: payload}}},
			{Request: &pb.SessionRequest_Decrypt{Decrypt: &pb.Decrypt{DataRowRecord: refMsg}}},
		}}
		fail := func(sig, f string, a ...any) {
			r.Violation(sig+":grpc", fmt.Sprintf("gRPC service=%q product=%q partition=%q: ", svc, prod, part)+fmt.Sprintf(f, a...), nil)
		}
		func() {
			defer func() {
				if p := recover(); p != nil {
					fail("c18-grpc-panic", "%v", p)
				}
			}()
			if err := app.Session(fs); err != nil {
				fail("c18-grpc-stream-error", "%v", err)
			}
		}()
		r.Eval(1)
		if len(fs.resps) == 3 {
			if er := fs.resps[1].GetEncryptResponse(); er == nil || er.DataRowRecord == nil || er.DataRowRecord.Key == nil || er.DataRowRecord.Key.ParentKeyMeta == nil {
				fail("c18-grpc-encrypt-shape", "encrypt response lacks record fields: %v", fs.resps[1])
			} else {
				d := er.DataRowRecord
				rd := &refimpl.DRR{Data: d.Data, Key: &refimpl.KeyRecord{Created: d.Key.Created, Key: d.Key.Key, HasParent: true, ParentID: d.Key.ParentKeyMeta.KeyId, ParentCreated: d.Key.ParentKeyMeta.Created}}
				out, err := refimpl.Decrypt(rd, st.refGet, []byte(master))
				if err != nil || !bytes.Equal(out, payload) {
					fail("c18-reference-cannot-read-sdk", "the reference cannot decrypt the record carried by the encrypt response: %v", err)
				} else {
					r.Count("grpc_sdk_written_reference_read", 1)
				}
			}
			if wrote {
				if dr := fs.resps[2].GetDecryptResponse(); dr == nil || !bytes.Equal(dr.Data, payload) {
					fail("c18-sdk-cannot-read-reference", "the sidecar cannot decrypt a protobuf record built from the documentation: %v", fs.resps[2])
				} else {
					r.Count("grpc_reference_written_sdk_read", 1)
					r.Distinct(fmt.Sprintf("grpc|%s|%s|%s", svc, prod, part))
				}
			}
		} else {
			fail("c18-grpc-response-count", "%d responses for 3 requests", len(fs.resps))
		}
		sf.Close()
	}
}

var _ = sql.ErrNoRows
