package conc

import (
	"bytes"
	"context"
	"fmt"
	"math/rand"
	"strings"
	"sync"
	"sync/atomic"
	"time"

	"github.com/godaddy/asherah/go/appencryption"

	"verif/harness/ev"
	"verif/harness/probe"
	"verif/harness/sched"
	"verif/harness/world"
)

// sessionCacheSchedules explores interleavings of two goroutines that get / use / close cached sessions on a
// session cache of capacity 1, pausing them at every hook point (hand-placed and generated before-lock /
// after-unlock points). Some of these points are reached while an SDK lock is held, so a paused goroutine can block
// the other one on a mutex; the controller therefore does not rely on synctest quiescence here: it runs in real
// time, waits until the set of paused goroutines has been stable for a moment and then releases one of them
// (seeded random choice, recorded for replay). Wall clock only steers the schedule; the verdict is logical:
// every operation on a held session works and, after everything is closed, every secret has been released.
func sessionCacheSchedules(r *ev.Run) {
	n := ev.Pick(120, 2500)
	rng := rand.New(rand.NewSource(ev.Seed()*31337 + 5))
	for i := 0; i < n; i++ {
		journal(fmt.Sprintf("C16 session-cache schedule #%d", i))
		w := world.New("memguard")
		cfg := world.Default(time.Hour, time.Hour, time.Minute)
		cfg.SessCache, cfg.SessCap, cfg.SessDur = true, 1, time.Hour
		cfg.SessPolicy = []string{"", "lru", "lfu", "tinylfu"}[i%4]
		f := w.Factory(cfg, "svc", "prod")
		ctx := context.Background()
		// partition p0's session is cached and has keys
		if s0, err := f.GetSession("p0"); err == nil {
			_, _ = s0.Encrypt(ctx, []byte("warm"))
			s0.Close()
		}
		ctrl := sched.NewController()
		probe.SetHookSink(func(point string, arg any) {
			if strings.HasSuffix(point, ".locked") || sched.Label() == "" {
				return
			}
			ctrl.Park(point)
		})
		var done atomic.Int32
		var mu sync.Mutex
		var problems []string
		got := map[string]*appencryption.Session{}
		sameFirst := false
		prog := func(label, part string) {
			sched.SetLabel(label)
			defer sched.ClearLabel()
			defer done.Add(1)
			s, err := f.GetSession(part)
			if err != nil {
				mu.Lock()
				problems = append(problems, label+": GetSession: "+err.Error())
				mu.Unlock()
				return
			}
			mu.Lock()
			got[label] = s
			mu.Unlock()
			for k := 0; k < 2; k++ {
				pl := []byte(fmt.Sprintf("%s-%d", label, k))
				d, err := s.Encrypt(ctx, pl)
				var out []byte
				if err == nil {
					out, err = s.Decrypt(ctx, *d)
				}
				if err != nil || !bytes.Equal(out, pl) {
					mu.Lock()
					problems = append(problems, fmt.Sprintf("%s: operation on its held session for %q failed: %v", label, part, err))
					mu.Unlock()
				}
			}
			s.Close()
		}
		if i%3 == 2 {
			// both ask for the same partition, which is not cached yet: concurrent first requests share one session
			sameFirst = true
			go prog("g1", "p1")
			go prog("g2", "p1")
		} else {
			go prog("g1", "p0")
			go prog("g2", "p1")
		}
		var trace []string
		deadline := time.Now().Add(20 * time.Second)
		for done.Load() < 2 && time.Now().Before(deadline) {
			// wait until the set of paused goroutines is stable
			prev, stable := -1, 0
			for stable < 3 && done.Load() < 2 {
				time.Sleep(300 * time.Microsecond)
				cur := len(ctrl.Parked())*4 + int(done.Load())
				if cur == prev {
					stable++
				} else {
					stable, prev = 0, cur
				}
			}
			parked := ctrl.Parked()
			if len(parked) == 0 {
				continue
			}
			pick := parked[rng.Intn(len(parked))]
			// bias: let the other goroutine run far ahead now and then
			if len(parked) == 2 && rng.Intn(3) == 0 && len(trace) > 0 && strings.HasPrefix(trace[len(trace)-1], parked[0].Label) {
				pick = parked[0]
			}
			trace = append(trace, pick.Label+"@"+pick.Point)
			ctrl.Release(pick.Label)
		}
		probe.SetHookSink(nil)
		ctrl.ReleaseAll()
		if done.Load() < 2 {
			r.Inconclusive(fmt.Sprintf("session-cache schedule #%d did not finish within 20 s: %v", i, trace))
		}
		f.Close()
		// asynchronous Remove goroutines: bounded wait
		dl := time.Now().Add(5 * time.Second)
		for len(w.Led.Live()) > 0 && time.Now().Before(dl) {
			time.Sleep(time.Millisecond)
		}
		r.Eval(1)
		r.Count("session_cache_schedules", 1)
		r.SetAdd("session_cache_schedule_traces", strings.Join(trace, ","))
		r.Distinct("sc-sched|" + strings.Join(trace, ","))
		if sameFirst && got["g1"] != nil && got["g2"] != nil && got["g1"] != got["g2"] {
			// (nothing else was requested, so nothing could have evicted the partition between the two requests)
			r.Violation("c16-session-not-shared:schedule", fmt.Sprintf("session cache %q size 1, schedule %v: two goroutines asked for the same partition at about the same time and were handed different sessions", cfg.SessPolicy, trace), map[string]any{"engine": "conc/c16-schedules", "trace": trace})
		}
		for _, p := range problems {
			r.Violation("c16-held-session-unusable:schedule", fmt.Sprintf("session cache %q size 1, schedule %v: %s", cfg.SessPolicy, trace, p), map[string]any{"engine": "conc/c16-schedules", "trace": trace})
		}
		if live := w.Led.Live(); len(live) > 0 && done.Load() == 2 {
			r.Violation("c16-session-resources-not-released", fmt.Sprintf("session cache %q size 1, schedule %v: after every holder and the factory closed %d secret(s) are still open (a session was torn down before its holder was counted, or never)", cfg.SessPolicy, trace, len(live)), map[string]any{"engine": "conc/c16-schedules", "trace": trace})
		}
		for _, sr := range w.Led.Recs() {
			if sr.State().TouchAfterClose > 0 {
				r.Violation("c16-secret-touched-after-teardown", fmt.Sprintf("schedule %v: %s was used after its session had been torn down", trace, sr), nil)
				break
			}
		}
		w.Close()
	}
	_ = appencryption.AES256KeySize
}
