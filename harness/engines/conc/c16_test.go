package conc

import (
	"bytes"
	"context"
	"fmt"
	"math/rand"
	"regexp"
	"strings"
	"sync"
	"sync/atomic"
	"testing"
	"testing/synctest"
	"time"

	"github.com/godaddy/asherah/go/appencryption"
	"github.com/godaddy/asherah/go/appencryption/pkg/log"

	"verif/harness/ev"
	"verif/harness/probe"
	"verif/harness/world"
)

var tap = &probe.LogTap{}

func init() { log.SetLogger(tap) }

var newSessionRe = regexp.MustCompile(`\[newSession\] for id (.*)\. Session\((0x[0-9a-f]+)\)\{Encryption\((0x[0-9a-f]+)\)\}`)

// teardown monitor shared by the enumerated programs and the stress run. Sessions are identified by an
// incarnation number assigned when the SDK logs their creation: addresses are reused once an object is garbage.
type tdMon struct {
	mu      sync.Mutex
	next    int
	sessInc map[string]int // session pointer -> current incarnation
	encInc  map[string]int // encryption pointer -> current incarnation
	closes  map[int]int    // incarnation -> env.close count
	holders map[int]int    // incarnation -> open handles (maintained by the harness)
	early   []string       // teardowns that happened while holders remained
	removes int
}

func newTdMon() *tdMon {
	return &tdMon{sessInc: map[string]int{}, encInc: map[string]int{}, closes: map[int]int{}, holders: map[int]int{}}
}

func (m *tdMon) install() {
	tap.SetKeep(false)
	tap.SetScan(func(line string) {
		if g := newSessionRe.FindStringSubmatch(line); g != nil {
			m.mu.Lock()
			m.next++
			m.sessInc[g[2]] = m.next
			m.encInc[g[3]] = m.next
			m.mu.Unlock()
		}
	})
	probe.SetHookSink(func(point string, arg any) {
		switch point {
		case "env.close":
			p, _ := arg.(string)
			m.mu.Lock()
			if inc, ok := m.encInc[p]; ok {
				m.closes[inc]++
				if m.holders[inc] > 0 {
					m.early = append(m.early, fmt.Sprintf("session incarnation #%d (encryption %s) closed while %d holder(s) remain", inc, p, m.holders[inc]))
				}
			}
			m.mu.Unlock()
		case "shared.remove.closing.locked":
			m.mu.Lock()
			m.removes++
			m.mu.Unlock()
		}
	})
}

func (m *tdMon) uninstall() {
	probe.SetHookSink(nil)
	tap.SetScan(nil)
}

// hold adjusts the holder count of the live session s and returns its incarnation.
func (m *tdMon) hold(s *appencryption.Session, d int) int {
	p := fmt.Sprintf("%p", s)
	m.mu.Lock()
	defer m.mu.Unlock()
	inc := m.sessInc[p]
	m.holders[inc] += d
	return inc
}

type pop struct {
	Kind byte // G get, U use, C close, A advance, F factory close
	Arg  int
}

func (o pop) String() string {
	if o.Kind == 'A' || o.Kind == 'F' {
		return string(o.Kind)
	}
	return fmt.Sprintf("%c%d", o.Kind, o.Arg)
}

func progString(p []pop) string {
	s := make([]string, len(p))
	for i, o := range p {
		s[i] = o.String()
	}
	return strings.Join(s, " ")
}

type handle struct {
	s      *appencryption.Session
	part   string
	closed bool
}

// runProgram executes one program against a fresh factory with the given session-cache shape (inside a bubble).
func runProgram(w *world.World, policy string, size int, prog []pop, dur time.Duration) (sig, detail string, stats [3]int) {
	cfg := world.Default(100*time.Hour, 50*time.Hour, time.Minute)
	cfg.SessCache, cfg.SessCap, cfg.SessPolicy, cfg.SessDur = true, size, policy, dur
	mon := newTdMon()
	mon.install()
	defer mon.uninstall()
	fail := func(s, f string, a ...any) {
		if sig == "" {
			sig, detail = s, fmt.Sprintf("session cache %s/size=%d program [%s]: ", policy, size, progString(prog))+fmt.Sprintf(f, a...)
		}
	}
	f := w.Factory(cfg, "svc", "prod")
	ctx := context.Background()
	var hs []*handle
	open := func() []*handle {
		var o []*handle
		for _, h := range hs {
			if !h.closed {
				o = append(o, h)
			}
		}
		return o
	}
	distinct := map[int]bool{}
	factoryClosed := false
	lastGet := map[string]*appencryption.Session{}
	lastOpWasGetOf := ""
	use := func(h *handle) {
		pl := []byte("payload for " + h.part)
		d, err := h.s.Encrypt(ctx, pl)
		if err != nil {
			fail("c16-held-session-unusable", "encrypt on a held, unclosed session for %q failed: %v", h.part, err)
			return
		}
		out, err := h.s.Decrypt(ctx, *d)
		if err != nil || !bytes.Equal(out, pl) {
			fail("c16-held-session-unusable", "decrypt on a held, unclosed session for %q failed: %v", h.part, err)
		}
		stats[1]++
	}
	for _, o := range prog {
		switch o.Kind {
		case 'G':
			if factoryClosed {
				continue
			}
			part := fmt.Sprintf("part%d", o.Arg)
			s, err := f.GetSession(part)
			if err != nil {
				fail("c16-getsession-failed", "GetSession(%q): %v", part, err)
				continue
			}
			inc := mon.hold(s, +1)
			if lastOpWasGetOf == part && lastGet[part] != s {
				fail("c16-cached-session-not-shared", "two consecutive GetSession(%q) calls returned different sessions (%p, %p)", part, lastGet[part], s)
			}
			lastGet[part] = s
			lastOpWasGetOf = part
			distinct[inc] = true
			hs = append(hs, &handle{s: s, part: part})
			stats[0]++
			continue
		case 'U':
			op := open()
			if len(op) == 0 || factoryClosed {
				break
			}
			h := op[0]
			if o.Arg == 1 {
				h = op[len(op)-1]
			}
			use(h)
		case 'C':
			op := open()
			if len(op) == 0 {
				break
			}
			h := op[0]
			if o.Arg == 1 {
				h = op[len(op)-1]
			}
			h.closed = true
			mon.hold(h.s, -1)
			if err := h.s.Close(); err != nil {
				fail("c16-close-error", "Close returned %v", err)
			}
		case 'A':
			time.Sleep(dur + time.Second)
		case 'F':
			if !factoryClosed {
				factoryClosed = true
				f.Close()
			}
		}
		lastOpWasGetOf = ""
		synctest.Wait()
		// every still-held session keeps working whatever was evicted or expired meanwhile
		if !factoryClosed {
			for _, h := range open() {
				use(h)
			}
		}
	}
	for _, h := range open() {
		h.closed = true
		mon.hold(h.s, -1)
		h.s.Close()
	}
	if !factoryClosed {
		f.Close()
	}
	synctest.Wait()
	mon.mu.Lock()
	defer mon.mu.Unlock()
	for _, e := range mon.early {
		fail("c16-teardown-while-held", "%s", e)
	}
	for inc := range distinct {
		if inc == 0 {
			fail("c16-monitor-lost-session", "no [newSession] debug line seen for a session that was handed out")
			continue
		}
		if n := mon.closes[inc]; n != 1 {
			fail("c16-teardown-count", "after every holder and the factory closed, session incarnation #%d was torn down %d time(s), want exactly 1", inc, n)
		}
	}
	for inc, n := range mon.closes {
		if n > 1 {
			fail("c16-teardown-count", "session incarnation #%d was closed %d times", inc, n)
		}
	}
	stats[2] = len(distinct)
	return
}

func enumeratePrograms(n int, f func([]pop)) {
	alphabet := []pop{{'G', 0}, {'G', 1}, {'G', 2}, {'U', 0}, {'U', 1}, {'C', 0}, {'C', 1}, {'A', 0}, {'F', 0}}
	seq := make([]pop, n)
	var rec func(pos, usedParts, openH int, closedF bool)
	rec = func(pos, usedParts, openH int, closedF bool) {
		if pos == n {
			f(seq)
			return
		}
		for _, o := range alphabet {
			switch o.Kind {
			case 'G':
				if o.Arg > usedParts || closedF { // partitions are introduced in order
					continue
				}
				np := usedParts
				if o.Arg == usedParts {
					np++
				}
				seq[pos] = o
				rec(pos+1, np, openH+1, closedF)
			case 'U':
				if openH == 0 || closedF || (o.Arg == 1 && openH < 2) {
					continue
				}
				seq[pos] = o
				rec(pos+1, usedParts, openH, closedF)
			case 'C':
				if openH == 0 || (o.Arg == 1 && openH < 2) {
					continue
				}
				seq[pos] = o
				rec(pos+1, usedParts, openH-1, closedF)
			case 'A':
				if closedF || pos == 0 {
					continue
				}
				seq[pos] = o
				rec(pos+1, usedParts, openH, closedF)
			case 'F':
				if closedF || pos == 0 {
					continue
				}
				seq[pos] = o
				rec(pos+1, usedParts, openH, true)
			}
		}
	}
	rec(0, 0, 0, false)
}

func TestC16(t *testing.T) {
	r := ev.Start("C16", "exploration")
	r.Rule("(1) every program of exactly L steps over {get a session for partition 0/1/2, use the oldest/newest open handle, close the oldest/newest handle, advance the virtual clock past SessionCacheDuration, close the factory} (partitions introduced in order) is executed against a real factory with session cache size 1-2 and each eviction policy inside a synctest bubble; after every step synctest.Wait quiesces the asynchronous Remove goroutines and every still-held handle must still encrypt and decrypt; two consecutive gets of one partition must return the same *Session; after all handles and the factory are closed the env.close hook must have fired exactly once per session ever handed out and never while the harness's own holder count for that session was > 0 (sessions are mapped to their encryption through the SDK's [newSession] debug line). (2) stress with real goroutines and real millisecond expiry under the race detector, same logical oracle after quiescence. Distinct+non-trivial: programs in which at least two distinct underlying sessions were handed out (an eviction or expiry replaced one).")
	r.Assume("holder counts are kept by the harness at the client boundary (GetSession return / Close call)")
	L := ev.Pick(4, 6)
	policies := ev.Pick([]string{"", "lru"}, []string{"", "lru", "lfu", "slru", "tinylfu"})
	failed := 0
	for _, pol := range policies {
		for _, size := range []int{1, 2} {
			journal(fmt.Sprintf("C16 programs policy=%q size=%d", pol, size))
			p := inBubble(t, func() {
				w := world.New("memguard")
				defer w.Close()
				time.Sleep(13 * time.Second)
				n := 0
				enumeratePrograms(L, func(prog []pop) {
					if failed > 20 {
						return
					}
					n++
					sig, detail, st := runProgram(w, pol, size, prog, time.Hour)
					r.Eval(1)
					r.Count("handles_handed_out", int64(st[0]))
					r.Count("round_trips_on_held_handles", int64(st[1]))
					if st[2] >= 2 {
						r.Distinct(fmt.Sprintf("%s|%d|%s", pol, size, progString(prog)))
						if r.WantSample() && n%97 == 0 {
							r.Sample(map[string]any{"policy": pol, "size": size, "program": progString(prog), "distinct_sessions": st[2]})
						}
					}
					if sig != "" {
						failed++
						r.Violation(sig, detail, map[string]any{"engine": "conc/c16", "policy": pol, "size": size, "program": progString(prog)})
					}
				})
				r.Count(fmt.Sprintf("programs:%s/%d", pol, size), int64(n))
			})
			if p != nil {
				r.Violation("c16-panic-or-deadlock", fmt.Sprintf("policy=%q size=%d: %v", pol, size, p), nil)
			}
		}
	}
	r.Exhaustive(true)
	r.Extra("program_length", L)
	stressC16(t, r)
	r.Finish(t)
}

func stressC16(t *testing.T, r *ev.Run) {
	opsN := ev.Pick(3000, 60000)
	reps := ev.Pick(2, 8)
	for rep := 0; rep < reps; rep++ {
		pol := []string{"", "lru", "lfu", "tinylfu"}[rep%4]
		journal(fmt.Sprintf("C16 stress rep=%d policy=%q", rep, pol))
		w := world.New([]string{"memguard", "protectedmemory"}[rep%2])
		w.MS.Drop, w.AEAD.Drop = true, true
		w.Led.NoHash = true
		cfg := world.Default(time.Hour, time.Hour, time.Minute)
		cfg.SessCache, cfg.SessCap, cfg.SessPolicy, cfg.SessDur = true, 2, pol, time.Duration(1+rep%2)*time.Millisecond
		mon := newTdMon()
		mon.install()
		f := w.Factory(cfg, "svc", "prod")
		ctx := context.Background()
		var wg sync.WaitGroup
		var failures atomic.Int64
		var firstErr atomic.Value
		var handed sync.Map
		seed := ev.Seed()*733 + int64(rep)
		for g := 0; g < 16; g++ {
			g := g
			wg.Add(1)
			go func() {
				defer wg.Done()
				rng := rand.New(rand.NewSource(seed*97 + int64(g)))
				for i := 0; i < opsN/16; i++ {
					part := fmt.Sprintf("part%d", rng.Intn(6))
					s, err := f.GetSession(part)
					if err != nil {
						failures.Add(1)
						firstErr.CompareAndSwap(nil, "GetSession: "+err.Error())
						continue
					}
					handed.Store(mon.hold(s, +1), true)
					for k := 0; k < 1+rng.Intn(3); k++ {
						pl := []byte(fmt.Sprintf("p-%d-%d-%d", g, i, k))
						d, err := s.Encrypt(ctx, pl)
						if err == nil {
							var out []byte
							out, err = s.Decrypt(ctx, *d)
							if err == nil && !bytes.Equal(out, pl) {
								err = fmt.Errorf("wrong bytes")
							}
						}
						if err != nil {
							failures.Add(1)
							firstErr.CompareAndSwap(nil, part+": "+err.Error())
						}
						if rng.Intn(4) == 0 {
							time.Sleep(time.Duration(rng.Intn(1500)) * time.Microsecond)
						}
					}
					mon.hold(s, -1)
					s.Close()
				}
			}()
		}
		wg.Wait()
		f.Close()
		// bounded wait for the asynchronous Remove goroutines
		nHanded := 0
		handed.Range(func(_, _ any) bool { nHanded++; return true })
		deadline := time.Now().Add(20 * time.Second)
		for time.Now().Before(deadline) {
			mon.mu.Lock()
			done := len(mon.closes) >= nHanded
			mon.mu.Unlock()
			if done {
				break
			}
			time.Sleep(5 * time.Millisecond)
		}
		mon.uninstall()
		mon.mu.Lock()
		r.Eval(1)
		r.Count("stress_ops", int64(opsN))
		r.Count("stress_sessions_handed_out", int64(nHanded))
		r.Count("stress_teardowns", int64(len(mon.closes)))
		if n := failures.Load(); n > 0 {
			fe, _ := firstErr.Load().(string)
			r.Violation("c16-stress-held-session-unusable", fmt.Sprintf("stress (policy %q, seed %d): %d operation(s) on held sessions failed; first: %s", pol, seed, n, fe), nil)
		}
		for _, e := range mon.early {
			r.Violation("c16-teardown-while-held", fmt.Sprintf("stress (policy %q, seed %d): %s", pol, seed, e), nil)
			break
		}
		twice, never := 0, 0
		handed.Range(func(k, _ any) bool {
			switch n := mon.closes[k.(int)]; {
			case n > 1:
				twice++
			case n == 0:
				never++
			}
			return true
		})
		if twice > 0 {
			r.Violation("c16-teardown-count", fmt.Sprintf("stress (policy %q, seed %d): %d session(s) torn down more than once", pol, seed, twice), nil)
		}
		if never > 0 {
			r.Inconclusive(fmt.Sprintf("stress (policy %q): %d of %d sessions not torn down 20 s after factory close", pol, never, nHanded))
		}
		mon.mu.Unlock()
		w.Close()
	}
}
