package conc

import (
	"bytes"
	"context"
	"fmt"
	"math"
	"math/rand"
	"os"
	"os/exec"
	"runtime"
	"strings"
	"sync"
	"sync/atomic"
	"testing"
	"testing/synctest"
	"time"

	"verif/harness/ev"
	"verif/harness/sessprog"
	"verif/harness/world"
)

func TestC16(t *testing.T) {
	r := ev.Start("C16", "exploration")
	r.Rule("(1) every program of exactly L steps over {get a session for partition 0/1/2, use the oldest/newest open handle, close the oldest/newest handle, advance the virtual clock past SessionCacheDuration, close the factory} (partitions introduced in order) is executed against a real factory with session cache size 1-2 and each eviction policy inside a synctest bubble; after every step synctest.Wait quiesces the asynchronous Remove goroutines and every still-held handle must still encrypt and decrypt; two consecutive gets of one partition must return the same *Session; after all handles and the factory are closed the env.close hook must have fired exactly once per session ever handed out and never while the harness's own holder count for that session was > 0 (sessions are mapped to their encryption through the SDK's [newSession] debug line). (2) stress with real goroutines and real millisecond expiry under the race detector, same logical oracle after quiescence. (3) get/use/close load against a factory built from the SDK's own parts with every harness monitor removed (the race detector then sees the SDK's synchronisation only). Distinct+non-trivial: programs in which at least two distinct underlying sessions were handed out (an eviction or expiry replaced one).")
	r.Assume("holder counts are kept by the harness at the client boundary (GetSession return / Close call)")
	L := ev.Pick(4, 6)
	policies := ev.Pick([]string{"", "lru", "lfu"}, []string{"", "lru", "lfu", "slru", "tinylfu"})
	failed := 0
	for _, pol := range policies {
		for _, size := range []int{1, 2} {
			journal(fmt.Sprintf("C16 programs policy=%q size=%d", pol, size))
			p := inBubbleC16(t, r, func() {
				w := world.New("memguard")
				defer w.Close()
				time.Sleep(13 * time.Second)
				n := 0
				sessprog.EnumeratePrograms(L, func(prog []sessprog.Op) {
					if failed > 20 {
						return
					}
					n++
					sig, detail, st := sessprog.RunProgram(w, pol, size, prog, time.Hour)
					r.Eval(1)
					r.Count("handles_handed_out", int64(st[0]))
					r.Count("round_trips_on_held_handles", int64(st[1]))
					if st[2] >= 2 {
						r.Distinct(fmt.Sprintf("%s|%d|%s", pol, size, sessprog.ProgString(prog)))
						if r.WantSample() && n%97 == 0 {
							r.Sample(map[string]any{"policy": pol, "size": size, "program": sessprog.ProgString(prog), "distinct_sessions": st[2]})
						}
					}
					if strings.HasPrefix(sig, "INCONCLUSIVE:") {
						r.Inconclusive(detail)
					} else if sig != "" {
						failed++
						r.Violation(sig, detail, map[string]any{"engine": "conc/c16", "policy": pol, "size": size, "program": sessprog.ProgString(prog)})
					}
				})
				r.Count(fmt.Sprintf("programs:%s/%d", pol, size), int64(n))
			})
			if p != nil {
				r.Violation("c16-panic-or-deadlock", fmt.Sprintf("policy=%q size=%d: %v", pol, size, p), nil)
			}
		}
	}
	// cached sessions over one shared intermediate-key cache: after all holders and the factory are closed every key of
	// every session has to be released as well (ledger of the programs)
	sessprog.SharedIK = true
	p0 := inBubbleC16(t, r, func() {
		w := world.New("memguard")
		defer w.Close()
		time.Sleep(13 * time.Second)
		sessprog.EnumeratePrograms(ev.Pick(3, 5), func(prog []sessprog.Op) {
			if failed > 20 {
				return
			}
			sig, detail, _ := sessprog.RunProgram(w, "lru", 2, prog, time.Hour)
			r.Eval(1)
			r.Count("programs_with_shared_ik_cache", 1)
			if strings.HasPrefix(sig, "INCONCLUSIVE:") {
				r.Inconclusive(detail)
			} else if sig != "" {
				failed++
				r.Violation(sig, detail+" (shared intermediate-key cache)", map[string]any{"engine": "conc/c16", "shared_ik": true, "program": sessprog.ProgString(prog)})
			}
			for _, f := range sessprog.LastLedger {
				if kind, msg, _ := strings.Cut(f, "|"); kind == "leaked" {
					failed++
					r.Violation("c16-session-resources-not-released", fmt.Sprintf("session cache lru/2 over a shared intermediate-key cache, program [%s]: %s", sessprog.ProgString(prog), msg), map[string]any{"program": sessprog.ProgString(prog)})
					break
				}
			}
		})
	})
	sessprog.SharedIK = false
	if p0 != nil {
		r.Violation("c16-panic-or-deadlock", fmt.Sprintf("shared intermediate-key cache: %v", p0), nil)
	}
	// session-cache durations at the far end of the range ("never expire"): the same programs, shorter, with
	// SessionCacheDuration = 250 years and = the largest time.Duration
	for _, dur := range []time.Duration{250 * 365 * 24 * time.Hour, time.Duration(math.MaxInt64), time.Duration(math.MaxInt64) - time.Millisecond} {
		journal(fmt.Sprintf("C16 programs with session cache duration %s", dur))
		p := inBubbleC16(t, r, func() {
			w := world.New("memguard")
			defer w.Close()
			time.Sleep(13 * time.Second)
			sessprog.EnumeratePrograms(ev.Pick(3, 4), func(prog []sessprog.Op) {
				if failed > 20 {
					return
				}
				sig, detail, st := sessprog.RunProgram(w, "", 2, prog, dur)
				r.Eval(1)
				r.Count("programs_with_huge_duration", 1)
				if st[2] >= 2 {
					r.Distinct(fmt.Sprintf("huge|%s|%s", dur, sessprog.ProgString(prog)))
				}
				if strings.HasPrefix(sig, "INCONCLUSIVE:") {
					r.Inconclusive(detail)
				} else if sig != "" {
					failed++
					r.Violation(sig, detail+fmt.Sprintf(" (session cache duration %s)", dur), map[string]any{"engine": "conc/c16", "duration": dur.String(), "program": sessprog.ProgString(prog)})
				}
			})
		})
		if p != nil {
			r.Violation("c16-panic-or-deadlock", fmt.Sprintf("session cache duration %s: %v", dur, p), nil)
		}
	}
	r.Exhaustive(true)
	r.Extra("program_length", L)
	if !c16Hung.Load() {
		largeCachePrograms(t, r)
		manyHeldPrograms(t, r)
		sessionCacheSchedules(r)
		// (with a tear-down that never finishes the real-goroutine passes would only wait for their own time limit)
		stressC16(t, r)
		rawPassesC16(r)
	}
	r.Finish(t)
}

func stressC16(t *testing.T, r *ev.Run) {
	opsN := ev.Pick(3000, 60000)
	reps := ev.Pick(2, 6)
	for rep := 0; rep < reps; rep++ {
		pol := []string{"", "lru", "lfu", "tinylfu"}[rep%4]
		journal(fmt.Sprintf("C16 stress rep=%d policy=%q", rep, pol))
		w := world.New([]string{"memguard", "protectedmemory"}[rep%2])
		w.MS.Drop, w.AEAD.Drop = true, true
		w.Led.NoHash = true
		cfg := world.Default(time.Hour, time.Hour, time.Minute)
		cfg.SessCache, cfg.SessCap, cfg.SessPolicy, cfg.SessDur = true, 2, pol, time.Duration(1+rep%2)*time.Millisecond
		mon := sessprog.NewTdMon()
		mon.Install()
		// seeded yields at every hook point (hand-placed and generated before-lock / after-unlock points) widen the
		// windows between looking a session up, pinning it and using it
		var yields atomic.Int64
		mon.Yield = func(point string) {
			if strings.HasSuffix(point, ".locked") {
				return
			}
			n := yields.Add(1)
			x := (uint64(n)*0x9E3779B97F4A7C15 + uint64(rep)*7919) >> 59
			switch {
			case x < 4:
				runtime.Gosched()
			case x < 7:
				time.Sleep(time.Duration(20+n%200) * time.Microsecond)
			}
		}
		f := w.Factory(cfg, "svc", "prod")
		ctx := context.Background()
		var wg sync.WaitGroup
		var failures atomic.Int64
		var firstErr atomic.Value
		var handed sync.Map
		seed := ev.Seed()*733 + int64(rep)
		for g := 0; g < 16; g++ {
			g := g
			wg.Add(1)
			go func() {
				defer wg.Done()
				rng := rand.New(rand.NewSource(seed*97 + int64(g)))
				for i := 0; i < opsN/16; i++ {
					part := fmt.Sprintf("part%d", rng.Intn(6))
					s, err := f.GetSession(part)
					if err != nil {
						failures.Add(1)
						firstErr.CompareAndSwap(nil, "GetSession: "+err.Error())
						continue
					}
					handed.Store(mon.Hold(s, +1), true)
					for k := 0; k < 1+rng.Intn(3); k++ {
						pl := []byte(fmt.Sprintf("p-%d-%d-%d", g, i, k))
						d, err := s.Encrypt(ctx, pl)
						if err == nil {
							var out []byte
							out, err = s.Decrypt(ctx, *d)
							if err == nil && !bytes.Equal(out, pl) {
								err = fmt.Errorf("wrong bytes")
							}
						}
						if err != nil {
							failures.Add(1)
							firstErr.CompareAndSwap(nil, part+": "+err.Error())
						}
						if rng.Intn(4) == 0 {
							time.Sleep(time.Duration(rng.Intn(1500)) * time.Microsecond)
						}
					}
					mon.Hold(s, -1)
					s.Close()
				}
			}()
		}
		wg.Wait()
		f.Close()
		// bounded wait for the asynchronous Remove goroutines
		nHanded := 0
		handed.Range(func(_, _ any) bool { nHanded++; return true })
		deadline := time.Now().Add(20 * time.Second)
		for time.Now().Before(deadline) {
			mon.Mu.Lock()
			done := len(mon.Closes) >= nHanded
			mon.Mu.Unlock()
			if done {
				break
			}
			time.Sleep(5 * time.Millisecond)
		}
		mon.Uninstall()
		mon.Mu.Lock()
		r.Eval(1)
		r.Count("stress_ops", int64(opsN))
		r.Count("stress_sessions_handed_out", int64(nHanded))
		r.Count("stress_teardowns", int64(len(mon.Closes)))
		r.Count("stress_yield_points", yields.Load())
		if n := failures.Load(); n > 0 {
			fe, _ := firstErr.Load().(string)
			r.Violation("c16-stress-held-session-unusable", fmt.Sprintf("stress (policy %q, seed %d): %d operation(s) on held sessions failed; first: %s", pol, seed, n, fe), nil)
		}
		for _, e := range mon.Early {
			r.Violation("c16-teardown-while-held", fmt.Sprintf("stress (policy %q, seed %d): %s", pol, seed, e), nil)
			break
		}
		twice, never := 0, 0
		handed.Range(func(k, _ any) bool {
			switch n := mon.Closes[k.(int)]; {
			case n > 1:
				twice++
			case n == 0:
				never++
			}
			return true
		})
		if twice > 0 {
			r.Violation("c16-teardown-count", fmt.Sprintf("stress (policy %q, seed %d): %d session(s) torn down more than once", pol, seed, twice), nil)
		}
		if never > 0 {
			r.Inconclusive(fmt.Sprintf("stress (policy %q): %d of %d sessions not torn down 20 s after factory close", pol, never, nHanded))
		}
		mon.Mu.Unlock()
		w.Close()
	}
}

// largeCachePrograms: long scripted programs against session caches of 100/101 entries (the sizes at which the
// tinylfu admission window and the slru protected segment become non-trivial): 3x capacity partitions, each
// requested twice in a row (the second request promotes the entry), with revisits of older partitions, a use of a
// held handle across the churn, an expiry and the factory close; same per-step and teardown-count oracle as the
// enumerated programs.
func largeCachePrograms(t *testing.T, r *ev.Run) {
	for _, pol := range []string{"", "lru", "lfu", "slru", "tinylfu"} {
		for _, size := range []int{100, 101} {
			if !ev.Thorough() && size == 101 && pol != "tinylfu" {
				continue
			}
			journal(fmt.Sprintf("C16 large-cache program policy=%q size=%d", pol, size))
			var prog []sessprog.Op
			prog = append(prog, sessprog.Op{Kind: 'G', Arg: 100000}) // a handle held across all the churn (oldest handle)
			for i := 0; i < 3*size; i++ {
				prog = append(prog, sessprog.Op{Kind: 'G', Arg: i}, sessprog.Op{Kind: 'C', Arg: 1}, sessprog.Op{Kind: 'G', Arg: i}, sessprog.Op{Kind: 'C', Arg: 1})
				if i%7 == 6 {
					prog = append(prog, sessprog.Op{Kind: 'G', Arg: i - 5}, sessprog.Op{Kind: 'C', Arg: 1})
				}
				if i%50 == 49 {
					prog = append(prog, sessprog.Op{Kind: 'U', Arg: 0})
				}
			}
			prog = append(prog, sessprog.Op{Kind: 'U', Arg: 0}, sessprog.Op{Kind: 'A'}, sessprog.Op{Kind: 'U', Arg: 0}, sessprog.Op{Kind: 'C', Arg: 0}, sessprog.Op{Kind: 'F'})
			p := inBubbleC16(t, r, func() {
				w := world.New("memguard")
				defer w.Close()
				w.MS.Drop, w.AEAD.Drop = true, true
				time.Sleep(17 * time.Second)
				sig, detail, st := sessprog.RunProgram(w, pol, size, prog, time.Hour)
				r.Eval(1)
				r.Count("large_cache_programs", 1)
				r.Count("handles_handed_out", int64(st[0]))
				if st[2] >= 2 {
					r.Distinct(fmt.Sprintf("large|%s|%d", pol, size))
				}
				if strings.HasPrefix(sig, "INCONCLUSIVE:") {
					r.Inconclusive(detail)
				} else if sig != "" {
					r.Violation(sig, detail, map[string]any{"engine": "conc/c16-large", "policy": pol, "size": size})
				}
			})
			if p != nil {
				r.Violation("c16-panic-or-deadlock", fmt.Sprintf("large-cache program policy=%q size=%d: %v", pol, size, p), nil)
			}
		}
	}
}

// manyHeldPrograms: far more sessions are held at the same time than the cache has room for ("no matter how many
// other partitions are requested"): eight partitions are requested and kept, all of them are used, some partitions
// are requested again, everything is used once more, then closed. Cache sizes 1-3, every policy.
func manyHeldPrograms(t *testing.T, r *ev.Run) {
	for _, pol := range []string{"", "lru", "lfu", "slru", "tinylfu"} {
		for _, size := range []int{1, 2, 3} {
			journal(fmt.Sprintf("C16 many-held program policy=%q size=%d", pol, size))
			var prog []sessprog.Op
			for i := 0; i < 8; i++ {
				prog = append(prog, sessprog.Op{Kind: 'G', Arg: i})
			}
			for round := 0; round < 2; round++ {
				for i := 0; i < 8; i++ {
					// use every held handle: close-oldest and re-get rotates through them while keeping eight open
					prog = append(prog, sessprog.Op{Kind: 'U', Arg: 0}, sessprog.Op{Kind: 'C', Arg: 0}, sessprog.Op{Kind: 'G', Arg: (i + round) % 8}, sessprog.Op{Kind: 'U', Arg: 1})
				}
				prog = append(prog, sessprog.Op{Kind: 'G', Arg: 20 + round}, sessprog.Op{Kind: 'G', Arg: 30 + round})
			}
			for i := 0; i < 12; i++ {
				prog = append(prog, sessprog.Op{Kind: 'U', Arg: 0}, sessprog.Op{Kind: 'C', Arg: 0})
			}
			prog = append(prog, sessprog.Op{Kind: 'F'})
			p := inBubbleC16(t, r, func() {
				w := world.New("memguard")
				defer w.Close()
				time.Sleep(19 * time.Second)
				sig, detail, st := sessprog.RunProgram(w, pol, size, prog, time.Hour)
				r.Eval(1)
				r.Count("many_held_programs", 1)
				if st[2] >= 2 {
					r.Distinct(fmt.Sprintf("many-held|%s|%d", pol, size))
				}
				if strings.HasPrefix(sig, "INCONCLUSIVE:") {
					r.Inconclusive(detail)
				} else if sig != "" {
					r.Violation(sig, detail, map[string]any{"engine": "conc/c16-many-held", "policy": pol, "size": size})
				}
			})
			if p != nil {
				r.Violation("c16-panic-or-deadlock", fmt.Sprintf("many-held program policy=%q size=%d: %v", pol, size, p), nil)
			}
		}
	}
}

// inBubbleC16 runs f (which executes session-cache programs) inside a bubble under a progress watchdog. A goroutine
// waiting for a sync.Mutex is not "durably blocked" for synctest, so a lock that is never released (a tear-down
// goroutine that dead-locks on its own mutex, say) would hang the bubble until the test binary's time limit. If no
// program starts for 120 s of wall clock (one program takes milliseconds) the program that was running is executed
// once more on its own; if that does not finish within 60 s either, the hang is reported for that program with the
// bubble abandoned, otherwise the run is inconclusive.
var c16Hung atomic.Bool

func inBubbleC16(t *testing.T, r *ev.Run, f func()) (panicked any) {
	if c16Hung.Load() {
		return nil // a hang has been reported: what follows would only hang again
	}
	done := make(chan any, 1)
	go func() {
		defer func() { done <- recover() }()
		synctest.Test(t, func(t *testing.T) { f() })
	}()
	last, idle := sessprog.Started.Load(), 0
	for {
		select {
		case p := <-done:
			return p
		case <-time.After(20 * time.Second):
		}
		if cur := sessprog.Started.Load(); cur != last {
			last, idle = cur, 0
			continue
		}
		if idle++; idle < 6 {
			continue
		}
		cp, _ := sessprog.Current.Load().(sessprog.CurrentProgram)
		// second attempt in a child process (the abandoned bubble still owns the harness's process-wide monitors)
		ctx, cancel := context.WithTimeout(context.Background(), 90*time.Second)
		cmd := exec.CommandContext(ctx, os.Args[0], "-test.run=^TestC16Child$", "-test.count=1")
		cmd.Env = append(os.Environ(), fmt.Sprintf("VERIF_C16_CHILD=%s|%d|%d|%v|%s", cp.Policy, cp.Size, int64(cp.Dur), cp.Shared, sessprog.ProgString(cp.Prog)))
		out, err := cmd.CombinedOutput()
		timedOut := ctx.Err() != nil
		cancel()
		if !timedOut && strings.Contains(string(out), "C16CHILD finished") {
			r.Inconclusive(fmt.Sprintf("no session-cache program started for 120 s of wall clock while [%s] (policy %q, size %d) was running, but the same program finished when run on its own in a child process", sessprog.ProgString(cp.Prog), cp.Policy, cp.Size))
			return "progress watchdog fired (inconclusive)"
		}
		c16Hung.Store(true)
		return fmt.Sprintf("hang: session-cache program [%s] (policy %q, size %d, duration %s) does not finish: no progress for 120 s of wall clock, and a child process running only this program did not finish within 90 s either (timed out=%v, err=%v; a lock that is never released?)", sessprog.ProgString(cp.Prog), cp.Policy, cp.Size, cp.Dur, timedOut, err)
	}
}

// TestC16Child runs one session-cache program in a process of its own (second attempt after a suspected hang).
func TestC16Child(t *testing.T) {
	spec := os.Getenv("VERIF_C16_CHILD")
	if spec == "" {
		t.Skip("helper process of TestC16")
	}
	f := strings.SplitN(spec, "|", 5)
	if len(f) != 5 {
		t.Fatal("bad spec")
	}
	var size int
	var dur int64
	fmt.Sscanf(f[1], "%d", &size)
	fmt.Sscanf(f[2], "%d", &dur)
	sessprog.SharedIK = f[3] == "true"
	synctest.Test(t, func(t *testing.T) {
		w := world.New("memguard")
		defer w.Close()
		time.Sleep(13 * time.Second)
		sig, _, _ := sessprog.RunProgram(w, f[0], size, sessprog.ParseProg(f[4]), time.Duration(dur))
		fmt.Println("C16CHILD finished", sig)
	})
}
