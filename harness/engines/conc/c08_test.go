// Package conc explores schedules of concurrent SDK use: enumerated interleavings at lock-free hook points
// (controlled scheduler in a synctest bubble) and seeded stress under the race detector (C08, C16).
package conc

import (
	"bytes"
	"context"
	"fmt"
	"math/rand"
	"os"
	"runtime"
	"strings"
	"sync"
	"sync/atomic"
	"testing"
	"testing/synctest"
	"time"

	"github.com/godaddy/asherah/go/appencryption"

	"verif/harness/ev"
	"verif/harness/probe"
	"verif/harness/sched"
	"verif/harness/sessprog"
	"verif/harness/world"
)

func journal(s string) {
	if p := os.Getenv("VERIF_JOURNAL"); p != "" {
		if f, err := os.OpenFile(p, os.O_APPEND|os.O_WRONLY|os.O_CREATE, 0o644); err == nil {
			fmt.Fprintln(f, s)
			f.Close()
		}
	}
}

type rec struct {
	part    string
	payload []byte
	drr     *appencryption.DataRowRecord
}

type opResult struct {
	name string
	err  error
	bad  bool // wrong bytes
}

type worker struct {
	label   string
	prog    func(w *worker)
	results []opResult
	calls   int // key-cache calls entered since the current op began (1 = the outermost, lock-free one)
	panicv  any
	ungated bool // set by a program: its remaining operations run without scheduling points
}

func (w *worker) dec(s *appencryption.Session, r rec) {
	w.calls = 0
	out, err := s.Decrypt(context.Background(), *world.CopyDRR(r.drr))
	w.results = append(w.results, opResult{"decrypt " + r.part, err, err == nil && !bytes.Equal(out, r.payload)})
}

func (w *worker) enc(s *appencryption.Session, part string) {
	w.calls = 0
	_, err := s.Encrypt(context.Background(), []byte("payload "+part))
	w.results = append(w.results, opResult{"encrypt " + part, err, false})
}

type cenv struct {
	w    *world.World
	f    *appencryption.SessionFactory
	recs map[string]rec
	old  map[string]rec // records of an earlier key generation
	sess map[string]*appencryption.Session
}

type cell struct {
	name         string
	cfg          world.Cfg
	gateNested   bool // also park at hook points reached while the calling session's own IK cache lock is held
	parts        []string
	twoGens      bool
	revokeLatest bool // the partitions' latest IK is flagged revoked right after the producer created it (same precision unit)
	noWarm       bool // do not load every partition's key once before the schedule starts: the cache under test has seen no eviction yet
	skOlder      bool // partitions' keys are created half a lifetime after the SK; the run starts when the SK has expired and the IKs have not
	workers      func(e *cenv) []*worker
}

func sharedCfg(policy string, cap int) world.Cfg {
	c := world.Default(time.Hour, 30*time.Minute, time.Minute)
	c.SharedIK, c.IKPolicy, c.IKCap = true, policy, cap
	return c
}

func cells() []cell {
	var out []cell
	two := func(e *cenv) []*worker {
		return []*worker{
			{label: "g1", prog: func(w *worker) { w.dec(e.sess["P1"], e.recs["P1"]) }},
			{label: "g2", prog: func(w *worker) { w.dec(e.sess["P2"], e.recs["P2"]) }},
		}
	}
	for _, pol := range []string{"lru", "lfu", "slru", "tinylfu"} {
		out = append(out, cell{name: "shared-" + pol + "-cap1/dec-vs-dec", cfg: sharedCfg(pol, 1), parts: []string{"P1", "P2"}, workers: two})
	}
	out = append(out, cell{name: "shared-lru-cap1/dec-vs-enc", cfg: sharedCfg("lru", 1), parts: []string{"P1", "P2"}, workers: func(e *cenv) []*worker {
		return []*worker{
			{label: "g1", prog: func(w *worker) { w.dec(e.sess["P1"], e.recs["P1"]) }},
			{label: "g2", prog: func(w *worker) { w.enc(e.sess["P2"], "P2") }},
		}
	}})
	out = append(out, cell{name: "shared-lru-cap2/three-partitions", cfg: sharedCfg("lru", 2), parts: []string{"P1", "P2", "P3"}, workers: func(e *cenv) []*worker {
		return []*worker{
			{label: "g1", prog: func(w *worker) { w.dec(e.sess["P1"], e.recs["P1"]) }},
			{label: "g2", prog: func(w *worker) { w.dec(e.sess["P2"], e.recs["P2"]); w.dec(e.sess["P3"], e.recs["P3"]) }},
		}
	}})
	out = append(out, cell{name: "shared-slru-cap2/three-goroutines", cfg: sharedCfg("slru", 2), parts: []string{"P1", "P2", "P3"}, workers: func(e *cenv) []*worker {
		return []*worker{
			{label: "g1", prog: func(w *worker) { w.dec(e.sess["P1"], e.recs["P1"]) }},
			{label: "g2", prog: func(w *worker) { w.dec(e.sess["P2"], e.recs["P2"]) }},
			{label: "g3", prog: func(w *worker) { w.enc(e.sess["P3"], "P3") }},
		}
	}})
	// a key that was used several times before (promoted to / demoted from a protected segment, high frequency
	// count) is in use by g1 while g2 churns the cache through several further evictions
	for _, pol := range []string{"lru", "lfu", "slru", "tinylfu"} {
		for _, cp := range []int{1, 2} {
			if cp == 2 && (pol == "lru" || pol == "lfu") {
				continue
			}
			out = append(out, cell{name: fmt.Sprintf("shared-%s-cap%d/hot-key-vs-churn", pol, cp), cfg: sharedCfg(pol, cp), noWarm: true, parts: []string{"P1", "P2", "P3", "P4"}, workers: func(e *cenv) []*worker {
				for i := 0; i < 3; i++ {
					_, _ = e.sess["P1"].Decrypt(context.Background(), *world.CopyDRR(e.recs["P1"].drr))
				}
				return []*worker{
					{label: "g1", prog: func(w *worker) { w.dec(e.sess["P1"], e.recs["P1"]) }},
					{label: "g2", prog: func(w *worker) {
						w.dec(e.sess["P2"], e.recs["P2"])
						w.dec(e.sess["P3"], e.recs["P3"])
						w.dec(e.sess["P4"], e.recs["P4"])
					}},
				}
			}})
		}
	}
	// the same with a key that is refreshed in place (revoke-check re-read, which re-inserts the entry under its
	// existing cache key) by the very lookup that hands it to g1, before the churn
	for _, pol := range []string{"lru", "lfu", "slru", "tinylfu"} {
		cfgR := sharedCfg(pol, 2)
		cfgR.Revoke = time.Nanosecond
		out = append(out, cell{name: fmt.Sprintf("shared-%s-cap2/refreshed-hot-key-vs-churn", pol), cfg: cfgR, noWarm: true, parts: []string{"P1", "P2", "P3", "P4"}, workers: func(e *cenv) []*worker {
			_, _ = e.sess["P1b"].Decrypt(context.Background(), *world.CopyDRR(e.recs["P1"].drr))
			time.Sleep(time.Microsecond) // the cached entry is stale now: the next use re-reads and re-inserts it
			return []*worker{
				{label: "g1", prog: func(w *worker) { w.dec(e.sess["P1"], e.recs["P1"]) }},
				{label: "g2", prog: func(w *worker) {
					w.dec(e.sess["P2"], e.recs["P2"])
					w.ungated = true // the rest of the churn runs without further scheduling points
					w.dec(e.sess["P3"], e.recs["P3"])
					w.dec(e.sess["P4"], e.recs["P4"])
					w.dec(e.sess["P2"], e.recs["P2"])
				}},
			}
		}})
	}
	// another process has rotated the partition's key (the cached latest key was revoked, a newer one exists): the
	// stale "latest" entry is refreshed to the newer key by an encrypt while a decrypt still needs the old key, which
	// stays cached under its own id
	for _, pol := range []string{"", "lru"} {
		cfgRot := sharedCfg(pol, 4)
		cfgRot.Revoke = time.Minute
		out = append(out, cell{name: fmt.Sprintf("shared-%s/latest-rotated-by-another-process", map[string]string{"": "simple", "lru": "lru4"}[pol]), cfg: cfgRot, parts: []string{"P1", "P2"}, workers: func(e *cenv) []*worker {
			dr := e.recs["P1"].drr
			if !e.w.Revoke(dr.Key.ParentKeyMeta.ID, dr.Key.ParentKeyMeta.Created, time.Now()) {
				panic("revoke failed")
			}
			time.Sleep(3 * time.Minute) // a later stamp is creatable and every cached entry is stale
			pf := e.w.Factory(world.Default(time.Hour, 30*time.Minute, time.Minute), "svc", "prod")
			ps, _ := pf.GetSession("P1")
			if _, err := ps.Encrypt(context.Background(), []byte("rotates")); err != nil {
				panic(err)
			}
			ps.Close()
			pf.Close()
			return []*worker{
				{label: "g1", prog: func(w *worker) { w.dec(e.sess["P1"], e.recs["P1"]) }},
				{label: "g2", prog: func(w *worker) {
					w.enc(e.sess["P1b"], "P1")
					w.ungated = true
					w.dec(e.sess["P1b"], e.recs["P1"])
				}},
			}
		}})
	}
	// the latest key is flagged revoked inside the creation-date precision unit in which it was created (no later stamp
	// can be created yet, so the reload comes back with a new object for the same key id) while another goroutine
	// of the same cache holds the old object: default "simple" shared cache and bounded ones
	for _, pol := range []string{"", "lru"} {
		pol := pol
		cfgRev := sharedCfg(pol, 8)
		cfgRev.Revoke = time.Nanosecond // every use re-checks: the flag is noticed at once, inside the creation window
		out = append(out, cell{name: fmt.Sprintf("shared-%s/latest-revoked-in-its-creation-window", map[string]string{"": "simple", "lru": "lru8"}[pol]), cfg: cfgRev, noWarm: true, revokeLatest: true, parts: []string{"P1"}, workers: func(e *cenv) []*worker {
			return []*worker{
				{label: "g1", prog: func(w *worker) { w.enc(e.sess["P1"], "P1"); w.dec(e.sess["P1"], e.recs["P1"]) }},
				{label: "g2", prog: func(w *worker) { w.enc(e.sess["P1b"], "P1"); w.enc(e.sess["P1b"], "P1") }},
			}
		}})
	}
	// SK cache of capacity 1 with two SK generations, per-session IK caches
	skc := world.Default(time.Hour, 30*time.Minute, time.Minute)
	skc.SKPolicy, skc.SKCap = "lru", 1
	out = append(out, cell{name: "sk-lru-cap1/old-gen-vs-new-gen", cfg: skc, gateNested: true, parts: []string{"P1", "P2"}, twoGens: true, workers: func(e *cenv) []*worker {
		return []*worker{
			{label: "g1", prog: func(w *worker) { w.dec(e.sess["P1"], e.old["P1"]) }},
			{label: "g2", prog: func(w *worker) { w.dec(e.sess["P2"], e.recs["P2"]) }},
		}
	}})
	// the parent SK of a still-valid IK has expired: the encrypt path rejects it and rotates while another
	// goroutine needs the same (old) SK to decrypt an old-generation record
	rot := world.Default(time.Hour, time.Nanosecond, time.Minute)
	out = append(out, cell{name: "sk-expired-ik-valid/rotate-vs-old-decrypt", cfg: rot, gateNested: true, parts: []string{"P1", "P2"}, skOlder: true, workers: func(e *cenv) []*worker {
		return []*worker{
			{label: "g1", prog: func(w *worker) { w.enc(e.sess["P2"], "P2"); w.dec(e.sess["P2"], e.recs["P2"]) }},
			{label: "g2", prog: func(w *worker) { w.dec(e.sess["P1b"], e.recs["P1"]); w.dec(e.sess["P1"], e.recs["P1"]) }},
		}
	}})
	// another session of the same partition is closed while one is in use (per-session caches)
	ps := world.Default(time.Hour, 30*time.Minute, time.Minute)
	out = append(out, cell{name: "per-session/close-other-session", cfg: ps, gateNested: true, parts: []string{"P1"}, workers: func(e *cenv) []*worker {
		other, _ := e.f.GetSession("P1")
		_, _ = other.Decrypt(context.Background(), *world.CopyDRR(e.recs["P1"].drr))
		return []*worker{
			{label: "g1", prog: func(w *worker) { w.dec(e.sess["P1"], e.recs["P1"]) }},
			{label: "g2", prog: func(w *worker) { w.calls = 0; other.Close() }},
		}
	}})
	// forced refresh on every access
	rf := sharedCfg("lru", 2)
	rf.Revoke = time.Nanosecond
	out = append(out, cell{name: "shared-lru-cap2/refresh-every-access", cfg: rf, parts: []string{"P1", "P2"}, workers: func(e *cenv) []*worker {
		time.Sleep(time.Microsecond) // virtual time has to move for the warmed entries to count as stale
		return []*worker{
			{label: "g1", prog: func(w *worker) { w.dec(e.sess["P1"], e.recs["P1"]); w.enc(e.sess["P1"], "P1") }},
			{label: "g2", prog: func(w *worker) { w.dec(e.sess["P1b"], e.recs["P1"]) }},
		}
	}})
	return out
}

type schedOutcome struct {
	trace      []string
	evictInUse int
	verdicts   [][2]string
	hookOrder  string
}

// runCell executes one schedule of cell c chosen by d, inside a bubble.
func runCell(c cell, d *sched.DFS) (out schedOutcome) {
	e := &cenv{w: world.New("memguard"), recs: map[string]rec{}, old: map[string]rec{}, sess: map[string]*appencryption.Session{}}
	defer e.w.Close()
	time.Sleep(29 * time.Second)
	ctx := context.Background()
	// records are produced by a separate process
	produce := func(into map[string]rec) {
		pf := e.w.Factory(world.Default(time.Hour, 30*time.Minute, time.Minute), "svc", "prod")
		for _, p := range c.parts {
			s, _ := pf.GetSession(p)
			pl := []byte("payload of " + p + fmt.Sprint(len(into)))
			dr, err := s.Encrypt(ctx, pl)
			if err != nil {
				panic(err)
			}
			into[p] = rec{p, pl, dr}
			s.Close()
		}
		pf.Close()
	}
	if c.twoGens {
		produce(e.old)
		time.Sleep(time.Hour + 2*time.Minute)
	}
	if c.skOlder {
		pf := e.w.Factory(world.Default(time.Hour, 30*time.Minute, time.Minute), "svc", "prod")
		s, _ := pf.GetSession("seed")
		if _, err := s.Encrypt(ctx, []byte("seed")); err != nil {
			panic(err)
		}
		s.Close()
		pf.Close()
		time.Sleep(30 * time.Minute)
	}
	produce(e.recs)
	e.f = e.w.Factory(c.cfg, "svc", "prod")
	for _, p := range c.parts {
		e.sess[p], _ = e.f.GetSession(p)
		e.sess[p+"b"], _ = e.f.GetSession(p)
	}
	if c.revokeLatest {
		// the keys the producer has just created are flagged revoked at once (same precision unit); the factory under
		// test is cold, so its first lookups come back with the revoked key (no later stamp can be created yet)
		for _, p := range c.parts {
			dr := e.recs[p].drr
			if !e.w.Revoke(dr.Key.ParentKeyMeta.ID, dr.Key.ParentKeyMeta.Created, time.Now()) {
				panic("revoke failed")
			}
		}
	}
	if c.skOlder {
		// the factory under test is long-lived: it cached the SK while it was valid
		if _, err := e.sess[c.parts[0]].Decrypt(ctx, *world.CopyDRR(e.recs[c.parts[0]].drr)); err != nil {
			panic("warm-up decrypt failed: " + err.Error())
		}
		time.Sleep(31 * time.Minute) // SK now expired, IKs still valid
	}
	// warm: each partition's key is loaded once so that the interesting state is "cached, then evicted"
	for _, p := range c.parts {
		if c.skOlder || c.noWarm {
			break
		}
		if _, err := e.sess[p].Decrypt(ctx, *world.CopyDRR(e.recs[p].drr)); err != nil {
			panic("warm-up decrypt failed: " + err.Error())
		}
	}
	workers := c.workers(e)
	byLabel := map[string]*worker{}
	for _, w := range workers {
		byLabel[w.label] = w
	}
	ctrl := sched.NewController()
	var hookLog []string
	var hmu sync.Mutex
	probe.SetHookSink(func(point string, arg any) {
		l := sched.Label()
		if point == "kc.evict.locked" {
			if ki, ok := arg.(appencryption.VerifKeyInfo); ok && ki.Refs > 1 {
				hmu.Lock()
				out.evictInUse++
				hmu.Unlock()
			}
			return
		}
		if l == "" || strings.HasSuffix(point, ".locked") || point == "cck.destroy" || strings.HasPrefix(point, "auto.before_lock") || strings.HasPrefix(point, "auto.after_deferred_unlock") {
			return
		}
		w := byLabel[l]
		if w.ungated {
			return
		}
		switch point {
		case "kc.getorload.enter", "kc.getorloadlatest.enter":
			w.calls++
		}
		nested := w.calls >= 2 || point == "loadik.got_sk" || point == "createik.got_sk" || point == "ikfromekr.reresolved_sk"
		if point == "enc.got_ik" || point == "dec.got_ik" {
			nested = false
		}
		if nested && !c.gateNested {
			return
		}
		hmu.Lock()
		hookLog = append(hookLog, l+"@"+point)
		hmu.Unlock()
		ctrl.Park(point)
	})
	defer probe.SetHookSink(nil)

	for _, w := range workers {
		w := w
		go func() {
			sched.SetLabel(w.label)
			defer sched.ClearLabel()
			defer func() {
				if p := recover(); p != nil {
					w.panicv = p
				}
			}()
			ctrl.Park("start")
			w.prog(w)
		}()
	}
	for steps := 0; steps < 5000; steps++ {
		synctest.Wait()
		parked := ctrl.Parked()
		if len(parked) == 0 {
			break
		}
		k := d.Choose(len(parked))
		ctrl.Release(parked[k].Label)
	}
	probe.SetHookSink(nil)
	out.trace = ctrl.Trace
	out.hookOrder = strings.Join(hookLog, ",")
	for _, w := range workers {
		if w.panicv != nil {
			out.verdicts = append(out.verdicts, [2]string{"c08-panic", fmt.Sprintf("%s panicked: %v", w.label, w.panicv)})
		}
		for _, r := range w.results {
			if r.err != nil {
				sig := "c08-op-failed"
				if strings.Contains(r.err.Error(), "already been destroyed") {
					sig = "c08-key-destroyed-under-user"
				}
				out.verdicts = append(out.verdicts, [2]string{sig, fmt.Sprintf("%s: %s failed although it raced with nobody's close of its own session: %v", w.label, r.name, r.err)})
			} else if r.bad {
				out.verdicts = append(out.verdicts, [2]string{"c08-wrong-bytes", fmt.Sprintf("%s: %s returned wrong bytes", w.label, r.name)})
			}
		}
	}
	// everything still works afterwards, then close and audit the ledger
	for _, p := range c.parts {
		if _, err := e.sess[p].Decrypt(ctx, *world.CopyDRR(e.recs[p].drr)); err != nil {
			out.verdicts = append(out.verdicts, [2]string{"c08-op-failed-after-schedule", fmt.Sprintf("decrypt of %s after the schedule failed: %v", p, err)})
		}
	}
	for _, s := range e.sess {
		s.Close()
	}
	e.f.Close()
	synctest.Wait()
	for _, sr := range e.w.Led.Recs() {
		st := sr.State()
		if st.TouchAfterClose > 0 {
			out.verdicts = append(out.verdicts, [2]string{"c08-secret-touched-after-destroy", fmt.Sprintf("%s was accessed after it had been destroyed", sr)})
		}
	}
	return out
}

func inBubble(t *testing.T, f func()) (panicked any) {
	defer func() { panicked = recover() }()
	synctest.Test(t, func(t *testing.T) { f() })
	return nil
}

func TestC08(t *testing.T) {
	r := ev.Start("C08", "exploration")
	r.Rule("(1) controlled scheduler: 2-3 goroutines with short programs (decrypt / encrypt / decrypt an old-generation record / close another session / refresh on every access) park at the verif hook points where no SDK lock is held (entering and leaving the read-locked lookup of GetOrLoad, entering GetOrLoadLatest, holding a tracked key) and a controller woken by synctest.Wait releases exactly one per step; ALL interleavings are enumerated depth-first with replay for shared IK caches of capacity 1-2 under lru/lfu/slru/tinylfu, an SK cache of capacity 1 with two SK generations and per-session caches. (2) seeded stress with real goroutines under the Go race detector: 16-32 goroutines over 8-150 partitions on capacity-1/2 (synchronous) and capacity-100 (asynchronous eviction) caches with seeded yields at the same hook points. (3) the same kind of load against a factory built from the SDK's own parts with every harness monitor removed, so that the race detector sees the SDK's synchronisation only. Oracle: every operation that does not race with the close of its own session succeeds with the right bytes, the ledger sees no access to a destroyed secret, no race report has an asherah frame. Distinct+non-trivial: distinct hook-order traces in which a key was evicted while a caller held or was about to take a reference.")
	r.Assume("gates are only placed where the parked goroutine holds no lock another goroutine of the scenario needs (otherwise synctest.Wait would never see quiescence)")
	maxPer := ev.Pick(250, 9000)
	exhaustive := true
	onlyShape := os.Getenv("VERIF_C08_SHAPE") // debugging aid: run only the stress shapes whose name contains this
	onlyCell := os.Getenv("VERIF_C08_CELL")   // debugging aid: run only the schedule cells whose name contains this
	for _, c := range cells() {
		if onlyShape != "" && onlyCell == "" {
			break
		}
		if onlyCell != "" && !strings.Contains(c.name, onlyCell) {
			continue
		}
		d := &sched.DFS{}
		n := 0
		for {
			d.Reset()
			var o schedOutcome
			journal(fmt.Sprintf("C08 cell=%s path=%v", c.name, d.Path()))
			if p := inBubble(t, func() { o = runCell(c, d) }); p != nil {
				r.Violation("c08-panic-or-deadlock:"+c.name, fmt.Sprintf("cell %s schedule %v: %v", c.name, d.Path(), p), map[string]any{"cell": c.name, "path": d.Path()})
			}
			n++
			r.Eval(1)
			r.Count("evictions_of_keys_in_use", int64(o.evictInUse))
			if o.evictInUse > 0 {
				r.Distinct(c.name + "|" + o.hookOrder)
			}
			r.SetAdd("hook_orders", c.name+"|"+o.hookOrder)
			for _, v := range o.verdicts {
				r.Violation(v[0], fmt.Sprintf("cell %s schedule %v: %s", c.name, o.trace, v[1]), map[string]any{"engine": "conc/schedules", "cell": c.name, "path": d.Path(), "trace": o.trace})
			}
			if n == 1 || (o.evictInUse > 0 && r.WantSample()) {
				r.Sample(map[string]any{"cell": c.name, "schedule": o.trace, "evictions_of_keys_in_use": o.evictInUse})
			}
			if !d.Next() {
				break
			}
			if n >= maxPer {
				exhaustive = false
				r.Count("cells_truncated", 1)
				break
			}
		}
		r.Count("schedules:"+c.name, int64(n))
	}
	r.Exhaustive(exhaustive)
	stressC08(t, r)
	if onlyShape == "" && !c08StressHung {
		rawPassesC08(r)
	}
	r.Finish(t)
}

// ---- stress under the race detector

// progressC08 counts operations begun by stress workers; c08StressHung is set when a shape was abandoned as stuck.
var (
	progressC08   atomic.Int64
	c08StressHung bool
)

func stressC08(t *testing.T, r *ev.Run) {
	type shape struct {
		name    string
		cfg     world.Cfg
		parts   int
		workers int
		ops     int
		encPct  int  // percentage of encrypts (default 33)
		hot     bool // aggressive yields at log points (long sleeps, often)
	}
	mk := func(pol string, cap int, shared bool) world.Cfg {
		c := world.Default(time.Hour, time.Hour, time.Minute)
		c.IKPolicy, c.IKCap, c.SharedIK = pol, cap, shared
		c.SKPolicy, c.SKCap = "lru", 1
		return c
	}
	opsN := ev.Pick(1500, 24000)
	shapes := []shape{
		{"shared-lru-1", mk("lru", 1, true), 8, 16, opsN, 0, false},
		{"shared-slru-2", mk("slru", 2, true), 8, 16, opsN, 0, false},
		{"shared-tinylfu-2", mk("tinylfu", 2, true), 8, 16, opsN, 0, false},
		{"shared-lfu-100-async", mk("lfu", 100, true), 150, 32, opsN, 0, false},
		{"per-session-lru-1", mk("lru", 1, false), 8, 16, opsN, 0, false},
	}
	sc := world.Default(time.Hour, time.Hour, time.Minute)
	sc.SessCache, sc.SessCap, sc.SessDur, sc.SharedIK, sc.IKPolicy, sc.IKCap = true, 2, 2*time.Millisecond, true, "lru", 2
	shapes = append(shapes, shape{"session-cache-2+shared-lru-2", sc, 6, 16, opsN, 0, false})
	// cached sessions with their own key caches: a session torn down while still held destroys keys under its users
	sc2 := world.Default(time.Hour, time.Hour, time.Minute)
	sc2.SessCache, sc2.SessCap, sc2.SessDur = true, 2, 2*time.Millisecond
	shapes = append(shapes, shape{"session-cache-2+per-session-keys", sc2, 6, 16, opsN, 0, false})
	// mostly cache hits on the encrypt path, with long pauses at the SDK's log points: the window between finding the
	// latest key and taking a reference on it
	shapes = append(shapes, shape{"shared-lru-2/encrypt-heavy/hot-yields", mk("lru", 2, true), 3, 16, opsN, 85, true})
	shapes = append(shapes, shape{"shared-slru-1/encrypt-heavy/hot-yields", mk("slru", 1, true), 2, 16, opsN, 85, true})
	reps := ev.Pick(1, 3)
	for rep := 0; rep < reps; rep++ {
		for si, sh := range shapes {
			if onlyShape := os.Getenv("VERIF_C08_SHAPE"); onlyShape != "" && !strings.Contains(sh.name, onlyShape) {
				continue
			}
			journal(fmt.Sprintf("C08 stress %s rep %d", sh.name, rep))
			w := world.New([]string{"memguard", "protectedmemory"}[(si+rep)%2])
			w.MS.Drop, w.AEAD.Drop = true, true
			w.Led.NoHash = true
			ctx := context.Background()
			pf := w.Factory(world.Default(time.Hour, time.Hour, time.Minute), "svc", "prod")
			recs := make([]rec, sh.parts)
			for i := range recs {
				p := fmt.Sprintf("part%d", i)
				s, _ := pf.GetSession(p)
				pl := []byte("payload " + p)
				d, err := s.Encrypt(ctx, pl)
				if err != nil {
					t.Fatal(err)
				}
				recs[i] = rec{p, pl, d}
				s.Close()
			}
			pf.Close()
			var evictInUse, yields atomic.Int64
			seed := ev.Seed()*1009 + int64(si*17+rep)
			probe.SetHookSink(func(point string, arg any) {
				if point == "kc.evict.locked" {
					if ki, ok := arg.(appencryption.VerifKeyInfo); ok && ki.Refs > 1 {
						evictInUse.Add(1)
					}
					return
				}
				if strings.HasSuffix(point, ".locked") {
					return
				}
				// seeded yields widen the windows between a lookup and taking the reference
				n := yields.Add(1)
				x := (uint64(n)*0x9E3779B97F4A7C15 + uint64(seed)) >> 60
				switch {
				case x < 5:
					runtime.Gosched()
				case x == 5:
					time.Sleep(time.Duration(1+n%50) * time.Microsecond)
				}
			})
			// the SDK's own debug-log calls are further yield points: they sit between many steps that no hook marks
			// (a yield inside a lock adds nothing, one between a lookup and taking a reference widens that window)
			var logYields atomic.Int64
			sessprog.Tap.SetKeep(false)
			sessprog.Tap.SetScan(func(string) {
				n := logYields.Add(1)
				x := (uint64(n)*0xD1B54A32D192ED03 + uint64(seed)) >> 59
				switch {
				case sh.hot && x < 6:
					time.Sleep(time.Duration(40+n%160) * time.Microsecond)
				case x < 3:
					runtime.Gosched()
				case x == 3:
					time.Sleep(time.Duration(5+n%40) * time.Microsecond)
				}
			})
			f := w.Factory(sh.cfg, "svc", "prod")
			var wg sync.WaitGroup
			var failures atomic.Int64
			var firstErr atomic.Value
			for g := 0; g < sh.workers; g++ {
				g := g
				wg.Add(1)
				go func() {
					defer wg.Done()
					rng := rand.New(rand.NewSource(seed*131 + int64(g)))
					for i := 0; i < sh.ops/sh.workers; i++ {
						progressC08.Add(1)
						rc := recs[rng.Intn(len(recs))]
						s, err := f.GetSession(rc.part)
						if err != nil {
							failures.Add(1)
							firstErr.CompareAndSwap(nil, "GetSession: "+err.Error())
							continue
						}
						nops := 1 + rng.Intn(3)
						for k := 0; k < nops; k++ {
							encPct := sh.encPct
							if encPct == 0 {
								encPct = 33
							}
							if rng.Intn(100) < encPct {
								if _, err := s.Encrypt(ctx, []byte("x")); err != nil {
									failures.Add(1)
									firstErr.CompareAndSwap(nil, "encrypt "+rc.part+": "+err.Error())
								}
							} else {
								out, err := s.Decrypt(ctx, *world.CopyDRR(rc.drr))
								if err != nil || !bytes.Equal(out, rc.payload) {
									failures.Add(1)
									firstErr.CompareAndSwap(nil, fmt.Sprintf("decrypt %s: err=%v", rc.part, err))
								}
							}
						}
						s.Close()
					}
				}()
			}
			// a worker that waits for a lock nobody will ever release (a mutex copied while it was held, say) would keep
			// the run waiting until the test binary's time limit, without a verdict. Every operation takes micro- to
			// milliseconds: if not a single worker finishes an operation for three minutes the workers are not slow but
			// stuck, and that is reported for this shape; the rest of the stress part is skipped.
			allDone := make(chan struct{})
			go func() { wg.Wait(); close(allDone) }()
			stuck := false
			for last, idle := progressC08.Load(), 0; !stuck; {
				select {
				case <-allDone:
					idle = -1
				case <-time.After(10 * time.Second):
				}
				if idle < 0 {
					break
				}
				if cur := progressC08.Load(); cur != last {
					last, idle = cur, 0
				} else if idle++; idle >= 18 {
					stuck = true
				}
			}
			if stuck {
				buf := make([]byte, 1<<20)
				buf = buf[:runtime.Stack(buf, true)]
				blocked := 0
				for _, g := range strings.Split(string(buf), "\n\n") {
					if strings.Contains(g, "sync.Mutex") || strings.Contains(g, "sync.RWMutex") || strings.Contains(g, "[sync.") {
						if strings.Contains(g, "godaddy/asherah") {
							blocked++
						}
					}
				}
				r.Violation("c08-stress-hang", fmt.Sprintf("stress shape %s (seed %d): no worker completed an operation for 180 s of wall clock; %d goroutine(s) are waiting for a lock inside the SDK (an operation that neither succeeds nor fails)", sh.name, seed, blocked), map[string]any{"shape": sh.name, "seed": seed})
				probe.SetHookSink(nil)
				sessprog.Tap.SetScan(nil)
				c08StressHung = true
				return
			}
			probe.SetHookSink(nil)
			sessprog.Tap.SetScan(nil)
			r.Count("stress_log_yield_points", logYields.Load())
			f.Close()
			// asynchronous teardown: bounded wait for quiescence, inconclusive if it never comes
			deadline := time.Now().Add(20 * time.Second)
			for len(w.Led.Live()) > 0 && time.Now().Before(deadline) {
				time.Sleep(5 * time.Millisecond)
			}
			touched := 0
			for _, sr := range w.Led.Recs() {
				if sr.State().TouchAfterClose > 0 {
					touched++
				}
			}
			r.Eval(1)
			r.Count("stress_ops", int64(sh.ops))
			r.Count("stress_evictions_of_keys_in_use", evictInUse.Load())
			r.Count("stress_yields_injected", yields.Load())
			r.SetAdd("stress_shapes", sh.name)
			if n := failures.Load(); n > 0 {
				fe, _ := firstErr.Load().(string)
				r.Violation("c08-stress-op-failed", fmt.Sprintf("stress shape %s (seed %d): %d operation(s) failed although no operation races with the close of its own session; first: %s", sh.name, seed, n, fe), map[string]any{"shape": sh.name, "seed": seed})
			}
			if touched > 0 {
				r.Violation("c08-stress-secret-touched-after-destroy", fmt.Sprintf("stress shape %s (seed %d): %d secret(s) were accessed after they had been destroyed", sh.name, seed, touched), map[string]any{"shape": sh.name, "seed": seed})
			}
			if live := len(w.Led.Live()); live > 0 {
				r.Inconclusive(fmt.Sprintf("stress shape %s: %d secrets still open 20 s after factory close (teardown not quiescent)", sh.name, live))
			}
			w.Close()
		}
	}
}
