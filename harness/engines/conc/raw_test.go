package conc

import (
	"bytes"
	"context"
	"fmt"
	"math/rand"
	"sync"
	"sync/atomic"
	"time"

	"github.com/godaddy/asherah/go/appencryption"
	"github.com/godaddy/asherah/go/appencryption/pkg/crypto/aead"
	"github.com/godaddy/asherah/go/appencryption/pkg/kms"
	"github.com/godaddy/asherah/go/appencryption/pkg/persistence"

	"verif/harness/ev"
	"verif/harness/probe"
	"verif/harness/sessprog"
	"verif/harness/world"
)

// rawRacePass runs real goroutines against a factory built from the SDK's own parts only - in-memory metastore,
// static KMS, AES-GCM, the default secret factory - with every harness monitor out of the way: no ledger, no
// metastore/KMS/AEAD wrappers, no hook sink, an idle log tap. The monitors' own mutexes and atomics order the
// goroutines that pass through them and thereby hide unsynchronised accesses inside the SDK from the race detector;
// here the only synchronisation the detector sees is the SDK's. Verdicts: race reports (parsed by ./check) and
// operations that fail or return wrong bytes although their own session is open.
func rawRacePass(r *ev.Run, prop, name string, cfg world.Cfg, parts, workers, opsPer int) {
	journal(fmt.Sprintf("%s raw race pass %s", prop, name))
	probe.SetHookSink(nil)
	sessprog.Tap.SetScan(nil)
	sessprog.Tap.SetKeep(false)
	crypto := aead.NewAES256GCM()
	static, err := kms.NewStatic("thisIsAStaticMasterKeyForTesting", crypto)
	if err != nil {
		panic(err)
	}
	defer static.Close()
	f := appencryption.NewSessionFactory(&appencryption.Config{Service: "svc", Product: "prod", Policy: cfg.Policy()}, persistence.NewMemoryMetastore(), static, crypto)
	ctx := context.Background()
	var wg sync.WaitGroup
	var failures atomic.Int64
	var first atomic.Value
	start := make(chan struct{})
	for g := 0; g < workers; g++ {
		g := g
		wg.Add(1)
		go func() {
			defer wg.Done()
			rng := rand.New(rand.NewSource(ev.Seed()*577 + int64(g)))
			<-start
			for i := 0; i < opsPer; i++ {
				part := fmt.Sprintf("part%d", rng.Intn(parts))
				s, err := f.GetSession(part)
				if err != nil {
					failures.Add(1)
					first.CompareAndSwap(nil, "GetSession: "+err.Error())
					continue
				}
				for k := 0; k < 1+rng.Intn(2); k++ {
					pl := []byte(fmt.Sprintf("raw-%d-%d-%d", g, i, k))
					d, err := s.Encrypt(ctx, pl)
					if err == nil {
						var out []byte
						if out, err = s.Decrypt(ctx, *d); err == nil && !bytes.Equal(out, pl) {
							err = fmt.Errorf("wrong bytes")
						}
					}
					if err != nil {
						failures.Add(1)
						first.CompareAndSwap(nil, part+": "+err.Error())
					}
				}
				if rng.Intn(8) == 0 {
					time.Sleep(time.Duration(rng.Intn(300)) * time.Microsecond)
				}
				s.Close()
			}
		}()
	}
	close(start)
	wg.Wait()
	f.Close()
	r.Eval(1)
	r.Count("raw_race_pass_ops", int64(workers*opsPer))
	r.Distinct("raw|" + name)
	if n := failures.Load(); n > 0 {
		sig := "c08-stress-op-failed:raw"
		if prop == "C16" {
			sig = "c16-stress-held-session-unusable:raw"
		}
		r.Violation(sig, fmt.Sprintf("raw pass %s: %d operation(s) on open sessions failed, first: %v", name, n, first.Load()), map[string]any{"engine": "conc/raw", "shape": name})
	}
}

func rawPassesC08(r *ev.Run) {
	ops := ev.Pick(50, 1000)
	for _, sh := range []struct {
		pol    string
		cap    int
		shared bool
	}{{"lru", 1, true}, {"slru", 2, true}, {"tinylfu", 2, true}, {"lfu", 1, false}, {"", 1000, false}} {
		c := world.Default(time.Hour, time.Hour, time.Minute)
		c.IKPolicy, c.IKCap, c.SharedIK = sh.pol, sh.cap, sh.shared
		c.SKPolicy, c.SKCap = "lru", 1
		rawRacePass(r, "C08", fmt.Sprintf("ik=%s/%d/shared=%v", sh.pol, sh.cap, sh.shared), c, 6, 16, ops)
	}
	// stale on every access: reload paths race with users
	c := world.Default(time.Hour, time.Nanosecond, time.Minute)
	c.SharedIK, c.IKPolicy, c.IKCap = true, "lru", 2
	rawRacePass(r, "C08", "refresh-every-access", c, 3, 16, ops)
}

func rawPassesC16(r *ev.Run) {
	ops := ev.Pick(50, 1000)
	for _, sh := range []struct {
		pol string
		cap int
		dur time.Duration
	}{{"", 2, time.Hour}, {"lru", 1, time.Hour}, {"lfu", 2, time.Millisecond}, {"tinylfu", 3, 2 * time.Millisecond}, {"slru", 100, time.Hour}} {
		c := world.Default(time.Hour, time.Hour, time.Minute)
		c.SessCache, c.SessCap, c.SessPolicy, c.SessDur = true, sh.cap, sh.pol, sh.dur
		rawRacePass(r, "C16", fmt.Sprintf("sess=%s/%d/%s", sh.pol, sh.cap, sh.dur), c, 4, 16, ops)
	}
}
