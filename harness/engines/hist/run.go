package hist

import (
	"fmt"
	"math/rand"
	"strings"
	"testing"
	"testing/synctest"
	"time"

	"github.com/godaddy/asherah/go/appencryption"
	"github.com/godaddy/asherah/go/appencryption/pkg/log"

	"verif/harness/ev"
	"verif/harness/probe"
	"verif/harness/world"
)

var defaultParts = []string{"p0", "p1", "p2", "user_42", "üñí-çødé", "a", strings.Repeat("L", 255)}

var globalTap = &probe.LogTap{}

func init() { log.SetLogger(globalTap) }

type drrT = appencryption.DataRowRecord

func (h *hist) pickPart() string { return h.p.Parts[h.rng.Intn(len(h.p.Parts))] }

func (h *hist) advance() {
	P, R, E := h.precision, h.revoke, h.expire
	now := time.Now()
	toBoundary := now.Truncate(P).Add(P).Sub(now)
	choices := []time.Duration{
		time.Second, 59 * time.Second, time.Nanosecond,
		toBoundary - time.Nanosecond, toBoundary, toBoundary + time.Nanosecond,
		R / 2, R - time.Nanosecond, R + time.Nanosecond, 2*R + time.Nanosecond,
		E / 2, E - time.Second, E + time.Second, E + P, 10 * E,
	}
	weights := []int{6, 3, 1, 2, 2, 2, 4, 4, 6, 3, 3, 3, 4, 2, 1}
	tot := 0
	for _, w := range weights {
		tot += w
	}
	x := h.rng.Intn(tot)
	var d time.Duration
	for i, w := range weights {
		if x < w {
			d = choices[i]
			break
		}
		x -= w
	}
	if d <= 0 {
		d = time.Nanosecond
	}
	time.Sleep(d)
	h.logf("clock += %s", d)
	h.r.Count("clock_advances", 1)
}

func (h *hist) revokeStep() {
	rows := h.w.Rows()
	if len(rows) == 0 {
		return
	}
	// group by id, pick latest or an older generation
	byID := map[string][]world.Row{}
	var ids []string
	for _, r := range rows {
		if _, ok := byID[r.ID]; !ok {
			ids = append(ids, r.ID)
		}
		byID[r.ID] = append(byID[r.ID], r)
	}
	id := ids[h.rng.Intn(len(ids))]
	if h.rng.Intn(3) == 0 {
		id = h.skID()
		if _, ok := byID[id]; !ok {
			return
		}
	}
	gen := byID[id]
	pick := gen[len(gen)-1]
	if len(gen) > 1 && h.rng.Intn(3) == 0 {
		pick = gen[h.rng.Intn(len(gen)-1)]
	}
	if h.w.Revoke(pick.ID, pick.Created, time.Now()) {
		which := "latest"
		if pick.Created != gen[len(gen)-1].Created {
			which = "older"
		}
		kind := "IK"
		if strings.HasPrefix(pick.ID, "_SK_") {
			kind = "SK"
		}
		h.logf("REVOKE %s %s (%s,%d)", which, kind, pick.ID, pick.Created)
		h.r.Count("revocations_"+which+"_"+kind, 1)
	}
}

func (h *hist) step() {
	x := h.rng.Intn(100 + h.p.ClockBias + h.p.RevokeBias)
	switch {
	case x < 40:
		fa := h.liveFact()
		if s := h.getSess(fa, h.pickPart()); s != nil {
			h.encrypt(s)
		}
	case x < 72:
		if len(h.recs) == 0 {
			return
		}
		rc := h.recs[h.rng.Intn(len(h.recs))]
		if h.rng.Intn(3) == 0 && len(h.recs) > 4 { // prefer old records now and then
			rc = h.recs[h.rng.Intn(len(h.recs)/4+1)]
		}
		switch h.rng.Intn(5) {
		case 0: // a brand-new factory with empty caches ("another process")
			h.decryptFresh(rc)
		default:
			fa := h.liveFact()
			how := "other-factory"
			if rc.by == fmt.Sprintf("factory#%d", fa.id) {
				how = "same-factory"
			}
			if s := h.getSess(fa, rc.part); s != nil {
				h.decrypt(s, rc, how)
			}
		}
	case x < 78:
		fa := h.liveFact()
		for _, s := range fa.sess {
			if !s.closed {
				s.closed = true
				_ = s.s.Close()
				h.logf("factory#%d close session %q", fa.id, s.part)
				break
			}
		}
	case x < 83:
		live := 0
		for _, f := range h.facts {
			if f.alive {
				live++
			}
		}
		if live < h.p.MaxFacts && h.rng.Intn(2) == 0 {
			h.facts = append(h.facts, h.newFact())
		} else {
			fa := h.liveFact()
			h.closeFact(fa)
			h.facts = append(h.facts, h.newFact())
			h.r.Count("factory_restarts", 1)
		}
	case x < 100+h.p.ClockBias:
		h.advance()
	default:
		h.revokeStep()
	}
	if a := h.w.Audit(); a != "" {
		h.violate("store-row-mutated", "metastore immutability audit: %s", a)
	}
}

func (h *hist) decryptFresh(rc *rec) {
	var c world.Cfg
	if h.p.SameCfg != nil {
		c = *h.p.SameCfg
	} else {
		c = world.RandomCfg(h.rng)
	}
	c.Expire, c.Revoke, c.Precision = h.expire, h.revoke, h.precision
	fa := &fact{id: h.nfact, cfg: c, alive: true}
	h.nfact++
	fa.f = h.w.Factory(c, h.svc, h.prod)
	s, err := fa.f.GetSession(rc.part)
	if err != nil {
		h.violate("getsession-failed", "GetSession(%q) failed: %v", rc.part, err)
		return
	}
	ss := &sess{part: rc.part, s: s, fa: fa}
	h.decrypt(ss, rc, "fresh-factory")
	_ = s.Close()
	_ = fa.f.Close()
}

// runHistory executes one seeded history inside a synctest bubble.
func runHistory(t *testing.T, r *ev.Run, seed int64, p Params) (failed bool) {
	defer func() {
		if pv := recover(); pv != nil {
			r.Violation("hist-panic", fmt.Sprintf("history seed %d: panic escaped: %v", seed, pv), map[string]any{"history_seed": seed})
			failed = true
		}
	}()
	watchedBubble(t, 240*time.Second, func(t *testing.T) {
		rng := rand.New(rand.NewSource(seed))
		h := &hist{r: r, p: p, rng: rng, seed: seed, svc: "svc", prod: "prod"}
		h.c3 = newC03()
		h.store = map[int]*drrT{}
		impl := "memguard"
		if rng.Intn(2) == 0 {
			impl = "protectedmemory"
		}
		// half of the histories run over a real metastore plug-in (DynamoDB v1 / v2 client on the semantic fake, SQL on the mini SQL engine); the
		// choice comes from a generator of its own so that it does not shift the history drawn from rng
		backend := []string{"memory", "memory", "memory", "dynamodb-v1", "dynamodb-v2", "sql"}[rand.New(rand.NewSource(seed^0xbac)).Intn(6)]
		h.w = world.NewOn(impl, backend)
		h.r.Count("histories_on_"+backend, 1)
		h.w.MS.WhoFn = func() string { return h.scope }
		if rng.Intn(5) == 0 {
			h.w.Suffix = "us-west-2"
		}
		if p.Debug {
			h.tap = globalTap
			globalTap.SetKeep(true)
			globalTap.Take()
		} else {
			globalTap.SetKeep(false)
		}
		h.precision = []time.Duration{time.Second, time.Minute, time.Minute, time.Hour}[rng.Intn(4)]
		h.expire = h.precision * time.Duration(2+rng.Intn(100))
		h.revoke = []time.Duration{time.Second, 45 * time.Second, time.Minute, 10 * time.Minute, h.expire / 3, h.expire / 2, 2 * h.expire}[rng.Intn(7)]
		if h.revoke < time.Second {
			h.revoke = time.Second
		}
		if len(h.p.Parts) == 0 {
			h.p.Parts = defaultParts
		}
		noCache := p.NoCacheFrac > 0 && rng.Intn(100) < p.NoCacheFrac
		if noCache {
			c := world.Default(h.expire, h.revoke, h.precision)
			c.CacheIK, c.CacheSK = false, false
			h.p.SameCfg = &c
		}
		if p.LatencyPct > 0 {
			// now and then an external call takes (virtual) time: a precision unit, a revoke interval, a nanosecond
			lrng := rand.New(rand.NewSource(seed ^ 0x5eed))
			lat := func(string) time.Duration {
				if lrng.Intn(1000) >= p.LatencyPct {
					return 0
				}
				h.r.Count("latencies_injected", 1)
				if p.Oracles&(OC04|OC05) != 0 {
					// time-bound oracles: only jitter (covered by the oracle's slack); a call that takes longer than
					// the revoke-check interval legitimately stretches the staleness bound by its own duration
					return []time.Duration{time.Nanosecond, 100 * time.Nanosecond, time.Microsecond}[lrng.Intn(3)]
				}
				return []time.Duration{time.Nanosecond, time.Second, h.precision / 2, h.precision + time.Second, h.revoke + time.Nanosecond}[lrng.Intn(5)]
			}
			h.w.MS.Latency, h.w.KMS.Latency, h.w.AEAD.Latency = lat, lat, lat
			h.slack = 50 * time.Microsecond
		}
		h.logf("world secret=%s backend=%s suffix=%q E=%s R=%s P=%s", impl, backend, h.w.Suffix, h.expire, h.revoke, h.precision)
		h.facts = append(h.facts, h.newFact())
		defer func() {
			if pv := recover(); pv != nil {
				h.violate("sdk-panic", "panic during history: %v", pv)
				failed = true
				// best effort: let the bubble end
				panic(pv)
			}
		}()
		for i := 0; i < p.Steps && !h.failed; i++ {
			h.step()
		}
		// final sweep: a fresh process must decrypt everything ever produced
		if !h.failed && p.Oracles&OC01 != 0 {
			for _, rc := range h.recs {
				h.decryptFresh(rc)
				if h.failed {
					break
				}
			}
			r.Count("final_sweep_records", int64(len(h.recs)))
		}
		for _, fa := range h.facts {
			if fa.alive {
				h.closeFact(fa)
			}
		}
		synctest.Wait()
		if p.Oracles&OC09 != 0 && !h.failed {
			h.oracleC09Final()
		}
		h.w.Close()
		failed = h.failed
		r.Eval(1)
		gens := map[string]bool{}
		for _, rc := range h.recs {
			gens[fmt.Sprintf("%s|%d", rc.part, rc.drr.Key.ParentKeyMeta.Created)] = true
		}
		r.Max("max_key_generations_in_one_history", int64(len(gens)))
		if len(gens) > len(h.p.Parts) || len(h.w.Flips()) > 0 {
			r.Distinct(fmt.Sprintf("seed%d", seed))
		}
		r.Count("secrets_created", int64(h.w.Led.Len()))
		r.Count("metastore_calls", int64(h.w.MS.N()))
		r.Count("kms_calls", int64(h.w.KMS.N()))
		r.Count("c03_artefacts_scanned", h.c3.artefacts)
		r.Count("c03_bytes_scanned", h.c3.scanned)
		r.Count("aead_pairs_distinct", int64(h.w.AEAD.PairCount()))
		if h.w.AEAD.Repeats > 0 && p.Oracles&OC03 != 0 {
			h.violate("c03-key-nonce-pair-repeated", "%d repeated (key, nonce) pairs", h.w.AEAD.Repeats)
		}
		if r.WantSample() && len(h.steps) > 12 {
			n := len(h.steps)
			if n > 40 {
				n = 40
			}
			r.Sample(map[string]any{"history_seed": seed, "first_steps": h.steps[:n], "total_steps": len(h.steps)})
		}
	})
	return failed
}

func (h *hist) oracleC09Final() {
	for _, sr := range h.w.Led.Recs() {
		st := sr.State()
		if sr.Creator == "new-failed" {
			continue
		}
		switch {
		case st.CloseReturned == 0:
			h.violate("c09-secret-leaked", "after closing every session and factory %s was never closed", sr)
		case st.TouchAfterClose > 0:
			h.violate("c09-touch-after-close", "%s was accessed after it had been closed", sr)
		}
	}
}
