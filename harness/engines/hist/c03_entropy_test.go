package hist

import (
	"context"
	crand "crypto/rand"
	"fmt"
	"io"
	"testing"
	"time"

	"verif/harness/ev"
	"verif/harness/world"
)

// shortReader hands out at most n bytes per Read (with a nil error), as a pipe to an entropy daemon, a DRBG wrapper
// or a hardware source may: io.Reader allows it, and only io.ReadFull-style callers get their whole buffer filled.
type shortReader struct {
	r io.Reader
	n int
}

func (s shortReader) Read(p []byte) (int, error) {
	if len(p) > s.n {
		p = p[:s.n]
	}
	return s.r.Read(p)
}

// shortEntropy: "a newly generated random 256-bit data key and a fresh random nonce" must not depend on the process's
// entropy source filling a buffer in one Read. crypto/rand.Reader is replaced by one that returns 1, 5 or 8 bytes per
// call; every nonce the AEAD monitor sees and every CreateRandom secret the ledger records must still be random over
// its whole length: no run of zero bytes at its end, and no (key, nonce) pair twice.
func shortEntropy(t *testing.T, r *ev.Run) {
	orig := crand.Reader
	defer func() { crand.Reader = orig }()
	for _, impl := range []string{"memguard", "protectedmemory"} {
		for _, chunk := range []int{1, 5, 8} {
			name := fmt.Sprintf("short-reading-entropy/%s/%d-bytes-per-read", impl, chunk)
			journal("C03 " + name)
			crand.Reader = shortReader{orig, chunk}
			w := world.New(impl)
			cfg := world.Default(time.Hour, time.Minute, time.Minute)
			f := w.Factory(cfg, "svc", "prod")
			ctx := context.Background()
			aeadFrom, ledFrom := w.AEAD.N(), w.Led.Len()
			ok := true
			for i := 0; i < 40 && ok; i++ {
				s, err := f.GetSession(fmt.Sprintf("p%d", i%3))
				if err != nil {
					ok = false
					break
				}
				if _, err := s.Encrypt(ctx, []byte("payload")); err != nil {
					// an implementation may refuse to work with such a source; it must not work with weak randomness
					r.Count("short_entropy_encrypt_errors", 1)
				}
				s.Close()
			}
			crand.Reader = orig
			tailZeros := func(b []byte) int {
				n := 0
				for i := len(b) - 1; i >= 0 && b[i] == 0; i-- {
					n++
				}
				return n
			}
			nonces := 0
			for _, c := range w.AEAD.CallsFrom(aeadFrom) {
				if c.Op != 'E' || !c.OK {
					continue
				}
				nonces++
				if z := tailZeros(c.Nonce[:]); z >= 4 {
					r.Violation("c03-nonce-not-random", fmt.Sprintf("%s: with an entropy source that returns %d byte(s) per Read, the nonce %x of an encryption ends in %d zero bytes: only its beginning is random", name, chunk, c.Nonce, z), nil)
					break
				}
			}
			if w.AEAD.Repeats > 0 {
				r.Violation("c03-key-nonce-pair-repeated", fmt.Sprintf("%s: %d (key, nonce) pair(s) were used for more than one encryption", name, w.AEAD.Repeats), nil)
			}
			keys := 0
			for _, sr := range w.Led.RecsFrom(ledFrom) {
				if sr.Creator != "random" || len(sr.Bytes) < 16 {
					continue
				}
				keys++
				if z := tailZeros(sr.Bytes); z >= 6 {
					r.Violation("c03-key-not-random", fmt.Sprintf("%s: a key generated from an entropy source that returns %d byte(s) per Read ends in %d zero bytes (of %d): only its beginning is random", name, chunk, z, len(sr.Bytes)), nil)
					break
				}
			}
			r.Eval(1)
			r.Count("short_entropy_nonces_checked", int64(nonces))
			r.Count("short_entropy_keys_checked", int64(keys))
			if nonces > 0 && keys > 0 {
				r.Distinct(name)
			}
			f.Close()
			w.Close()
		}
	}
}
