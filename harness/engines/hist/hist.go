// Package hist drives seeded random operation histories against real SDK factories inside a
// testing/synctest bubble (virtual clock) and decides C01, C03, C04, C05 and C20 from what the monitors saw.
package hist

import (
	"bytes"
	"context"
	"encoding/json"
	"errors"
	"fmt"
	"github.com/godaddy/asherah/go/appencryption/pkg/persistence"
	"math/rand"
	mrand "math/rand"
	"strings"
	"time"

	"github.com/godaddy/asherah/go/appencryption"

	"verif/harness/ev"
	"verif/harness/probe"
	"verif/harness/world"
)

// Which oracles a run decides.
const (
	OC01 = 1 << iota
	OC03
	OC04
	OC05
	OC09
)

type fact struct {
	id    int
	cfg   world.Cfg
	f     *appencryption.SessionFactory
	sess  []*sess
	alive bool
}

type sess struct {
	part   string
	s      *appencryption.Session
	fa     *fact
	closed bool
}

type rec struct {
	n       int
	part    string
	payload []byte
	drr     *appencryption.DataRowRecord
	at      time.Time
	by      string
	viaJSON bool
}

// Params shape the histories of one check.
type Params struct {
	Oracles     int
	Steps       int
	MaxFacts    int
	Parts       []string
	BigPayloads bool
	RevokeBias  int // 0..100: weight of revoke steps
	ClockBias   int // weight of clock steps
	Debug       bool
	SameCfg     *world.Cfg // when set every factory uses this configuration
	NoCacheFrac int        // percentage of worlds whose factories never cache
	LatencyPct  int        // per-mille of external calls that take virtual time
	FaultPct    int        // per-mille of operations during which one metastore read or KMS call fails (transient error)
}

type hist struct {
	ledArmBase int // ledger call index at the last armFault/disarmFault
	r          *ev.Run
	p          Params
	rng        *rand.Rand
	w          *world.World
	facts      []*fact
	recs       []*rec
	// newIKReported: creation stamps of intermediate keys already reported as created under a revoked system key
	newIKReported map[int64]bool
	steps         []string
	seed          int64
	nfact         int

	expire, revoke, precision time.Duration

	svc, prod string
	store     map[int]*appencryption.DataRowRecord // Storer/Loader backing map
	tap       *probe.LogTap

	c3      *c03state
	slack   time.Duration // added to every time bound when call latencies are injected
	scope   string        // cache scope of the session performing the current operation
	msMark  int
	kmsMark int
	failed  bool
}

func (h *hist) now() time.Time { return time.Now() }

func (h *hist) logf(format string, a ...any) {
	s := fmt.Sprintf(format, a...)
	h.steps = append(h.steps, fmt.Sprintf("[%s] %s", h.now().UTC().Format("01-02T15:04:05.000000000"), s))
}

func (h *hist) witness() map[string]any {
	st := h.steps
	if len(st) > 120 {
		st = append([]string{fmt.Sprintf("... %d earlier steps omitted ...", len(st)-120)}, st[len(st)-120:]...)
	}
	return map[string]any{"engine": "hist", "history_seed": h.seed, "expire": h.expire.String(), "revoke_check": h.revoke.String(),
		"precision": h.precision.String(), "steps": st}
}

func (h *hist) violate(sig, format string, a ...any) {
	// a listed known finding is reported once and does not end the history
	if h.r.Violation(sig, fmt.Sprintf("history seed %d: ", h.seed)+fmt.Sprintf(format, a...), h.witness()) {
		h.failed = true
	}
}

func (h *hist) newFact() *fact {
	var c world.Cfg
	if h.p.SameCfg != nil {
		c = *h.p.SameCfg
	} else {
		c = world.RandomCfg(h.rng)
	}
	c.Expire, c.Revoke, c.Precision = h.expire, h.revoke, h.precision
	fa := &fact{id: h.nfact, cfg: c, alive: true}
	h.nfact++
	// a process start: an application that seeds the global math/rand source with a constant does so here.
	// Cryptographic randomness must not depend on it (with crypto/rand nothing repeats).
	mrand.Seed(20260101) //nolint:staticcheck
	fa.f = h.w.Factory(c, h.svc, h.prod)
	h.r.SetAdd("config_tuples", c.String())
	h.logf("factory#%d new %s", fa.id, c)
	return fa
}

func (h *hist) closeFact(fa *fact) {
	for _, s := range fa.sess {
		if !s.closed {
			s.closed = true
			if err := s.s.Close(); err != nil {
				h.logf("session close error %v", err)
			}
		}
	}
	fa.sess = nil
	fa.alive = false
	if err := fa.f.Close(); err != nil {
		h.logf("factory close error: %v", err)
	}
	h.logf("factory#%d closed", fa.id)
}

func (h *hist) getSess(fa *fact, part string) *sess {
	// reuse an open session of that partition half of the time
	if h.rng.Intn(2) == 0 {
		for _, s := range fa.sess {
			if !s.closed && s.part == part {
				return s
			}
		}
	}
	s, err := fa.f.GetSession(part)
	if err != nil {
		h.violate("getsession-failed", "GetSession(%q) failed: %v", part, err)
		return nil
	}
	ss := &sess{part: part, s: s, fa: fa}
	fa.sess = append(fa.sess, ss)
	h.logf("factory#%d open session %q", fa.id, part)
	return ss
}

// scopeOf names the key-cache scope a session's intermediate keys live in.
func scopeOf(s *sess) string {
	switch {
	case s.fa.cfg.SharedIK:
		return fmt.Sprintf("factory#%d", s.fa.id)
	default:
		return fmt.Sprintf("factory#%d/session@%p", s.fa.id, s.s)
	}
}

// seededByLoad reports whether the most recent metastore access to IK id by this cache scope was a
// decrypt-path Load of exactly (id, created) that happened after `after` - i.e. the key entered the cache
// (and became its "latest" alias) without the parent-key validation of the encrypt path.
func (h *hist) seededByLoad(scope, id string, created int64, after time.Time) bool {
	calls := h.w.MS.Calls()
	// the seeding load: the most recent exact load of (id, created) by this scope after the flag was set
	last := -1
	for i := len(calls) - 1; i >= 0; i-- {
		if c := calls[i]; c.Who == scope && c.ID == id && c.Op == "load" && c.Created == created {
			last = i
			break
		}
	}
	if last < 0 || !calls[last].At.After(after) {
		return false
	}
	// since then the scope must not have gone through the latest-key path for this id (a LoadLatest or an insert):
	// that would have replaced what the decrypt-path load left behind, and naming the key afterwards is another
	// defect. Exact loads of other generations (decrypts of older records) in between change nothing.
	for _, c := range calls[last+1:] {
		if c.Who == scope && c.ID == id && (c.Op == "loadlatest" || c.Op == "store") {
			return false
		}
	}
	// F11 is about a cache that has never seen a newer key of this id: if this scope already read or wrote a
	// later generation, naming the older one again is a different defect (the alias moved backwards)
	for _, c := range calls[:last] {
		if c.Who != scope || c.ID != id {
			continue
		}
		if (c.Out != nil && c.Out.Created > created) || (c.Op == "store" && c.OK && c.Created > created) {
			return false
		}
	}
	return true
}

func (h *hist) liveFact() *fact {
	var live []*fact
	for _, f := range h.facts {
		if f.alive {
			live = append(live, f)
		}
	}
	if len(live) == 0 {
		fa := h.newFact()
		h.facts = append(h.facts, fa)
		return fa
	}
	return live[h.rng.Intn(len(live))]
}

var payloadSizes = []int{0, 1, 15, 16, 17, 31, 32, 33, 100, 1024, 65536}

func (h *hist) payload() []byte {
	n := payloadSizes[h.rng.Intn(len(payloadSizes))]
	if h.p.BigPayloads && h.rng.Intn(200) == 0 {
		n = 1 << 20
	}
	if n > 1024 && h.rng.Intn(4) != 0 {
		n = 64
	}
	b := make([]byte, n)
	h.rng.Read(b)
	return b
}

type mapStore struct{ h *hist }

func (m mapStore) Store(_ context.Context, d appencryption.DataRowRecord) (interface{}, error) {
	k := len(m.h.store)
	m.h.store[k] = world.CopyDRR(&d)
	return k, nil
}

func (m mapStore) Load(_ context.Context, key interface{}) (*appencryption.DataRowRecord, error) {
	d, ok := m.h.store[key.(int)]
	if !ok {
		return nil, errors.New("no such record")
	}
	return world.CopyDRR(d), nil
}

func (h *hist) ikID(part string) string {
	id := fmt.Sprintf("_IK_%s_%s_%s", part, h.svc, h.prod)
	if h.w.Suffix != "" {
		id += "_" + h.w.Suffix
	}
	return id
}

func (h *hist) skID() string {
	id := fmt.Sprintf("_SK_%s_%s", h.svc, h.prod)
	if h.w.Suffix != "" {
		id += "_" + h.w.Suffix
	}
	return id
}

func expired(created int64, expire time.Duration, at time.Time) bool {
	return at.After(time.Unix(created, 0).Add(expire))
}

// armFault makes, with the configured probability, one of the next few metastore or KMS calls fail.
func (h *hist) armFault() {
	if h.p.FaultPct <= 0 || h.rng.Intn(1000) >= h.p.FaultPct {
		return
	}
	// only reads and KMS calls fail: the properties decided here presuppose a metastore that accepts writes
	switch x := h.rng.Intn(8); {
	case x < 2:
		h.w.KMS.Faults[h.w.KMS.N()+h.rng.Intn(2)] = true
	case x == 2:
		// the secure-memory allocator refuses one of the next few secrets (mlock limit reached)
		h.w.Led.FailAt[h.w.Led.Calls()+h.rng.Intn(3)] = true
	default:
		h.w.MS.ReadFaultIn = 1 + h.rng.Intn(3)
	}
	h.ledArmBase = h.w.Led.Calls()
	h.r.Count("transient_faults_armed", 1)
}

// disarmFault clears pending faults and reports whether one fired since the given call indexes.
func (h *hist) disarmFault(msFrom, kmsFrom int) bool {
	fired := false
	for _, c := range h.w.MS.CallsFrom(msFrom) {
		if c.Fault != "" {
			fired = true
		}
	}
	kc := h.w.KMS.Calls()
	for _, c := range kc[kmsFrom:] {
		if c.Fault {
			fired = true
		}
	}
	for _, c := range h.w.Led.CallLog(h.ledArmBase) {
		if c.Failed {
			fired = true
		}
	}
	h.ledArmBase = h.w.Led.Calls()
	h.w.MS.ReadFaultIn = 0
	for k := range h.w.KMS.Faults {
		delete(h.w.KMS.Faults, k)
	}
	h.w.KMS.FailEncrypts = 0
	for k := range h.w.Led.FailAt {
		delete(h.w.Led.FailAt, k)
	}
	if fired {
		h.r.Count("transient_faults_fired", 1)
	}
	return fired
}

// encrypt performs one Encrypt / Store through s and applies the per-operation oracles.
func (h *hist) encrypt(s *sess) {
	payload := h.payload()
	// the caller's slice usually sits in a larger buffer: neither the payload nor the bytes behind it may change
	backing := make([]byte, len(payload), len(payload)+64)
	copy(backing, payload)
	tail := backing[len(payload):cap(backing)]
	for i := range tail {
		tail[i] = 0xA5
	}
	payload = backing
	before := append([]byte(nil), payload...)
	label := fmt.Sprintf("enc#%d", len(h.recs))
	h.scope = scopeOf(s)
	h.w.Led.SetOp(label)
	msFrom, aeadFrom, ledFrom := h.w.MS.N(), h.w.AEAD.N(), h.w.Led.Len()
	kmsFrom := h.w.KMS.N()
	h.armFault()
	t := h.now()
	var (
		drr *appencryption.DataRowRecord
		err error
	)
	viaStore := h.rng.Intn(4) == 0
	if viaStore {
		var k interface{}
		var st appencryption.Storer = mapStore{h}
		if len(h.store)%2 == 1 {
			st = persistence.StorerFunc(mapStore{h}.Store) // the SDK's adapter for plain functions
		}
		k, err = s.s.Store(context.Background(), payload, st)
		if err == nil {
			drr = world.CopyDRR(h.store[k.(int)])
		}
	} else {
		drr, err = s.s.Encrypt(context.Background(), payload)
	}
	h.w.Led.SetOp("")
	h.r.Count("encrypts", 1)
	faulted := h.disarmFault(msFrom, kmsFrom)
	if err != nil {
		h.logf("factory#%d %q encrypt FAILED (fault injected=%v): %v", s.fa.id, s.part, faulted, err)
		if h.p.Oracles&OC03 != 0 {
			// the keys this failed call created and wrapped are still typed against the envelope hierarchy
			h.c03Advance(&encCtx{s: s, label: label, payload: before, msFrom: msFrom, failed: true})
		}
		if faulted {
			return
		}
		if h.p.Oracles&OC01 != 0 {
			h.violate("encrypt-failed-without-fault", "encrypt for %q failed although nothing was injected: %v", s.part, err)
		}
		return
	}
	if h.p.Oracles&OC01 != 0 {
		if !bytes.Equal(before, payload) {
			h.violate("encrypt-modified-payload", "Encrypt modified the caller's payload buffer (len %d)", len(payload))
		}
		for _, x := range backing[len(payload):cap(backing)] {
			if x != 0xA5 {
				h.violate("encrypt-wrote-behind-payload", "Encrypt wrote into the caller's buffer behind the payload slice (len %d, cap %d)", len(payload), cap(backing))
				break
			}
		}
	}
	// the caller reuses its buffer afterwards: the record must not alias it
	for i := range backing[:cap(backing)] {
		backing[:cap(backing)][i] ^= 0xFF
	}
	if drr == nil || drr.Key == nil || drr.Key.ParentKeyMeta == nil {
		h.violate("encrypt-malformed-record", "Encrypt returned a record without key / parent meta")
		return
	}
	rc := &rec{n: len(h.recs), part: s.part, payload: before, drr: world.CopyDRR(drr), at: t, by: fmt.Sprintf("factory#%d", s.fa.id)}
	if h.rng.Intn(2) == 0 {
		b, jerr := json.Marshal(drr)
		var back appencryption.DataRowRecord
		if jerr == nil {
			jerr = json.Unmarshal(b, &back)
		}
		if jerr != nil {
			h.violate("json-roundtrip", "record does not survive encoding/json: %v", jerr)
		} else {
			rc.drr = &back
			rc.viaJSON = true
		}
	}
	h.recs = append(h.recs, rc)
	ikc := drr.Key.ParentKeyMeta.Created
	if h.p.Oracles&OC03 != 0 {
		// "a data key only under the partition's intermediate key": the record names the key of the partition the
		// session was opened for, spelled exactly as the caller spelled it
		want := "_IK_" + s.part + "_" + h.svc + "_" + h.prod
		if h.w.Suffix != "" {
			want += "_" + h.w.Suffix
		}
		if got := drr.Key.ParentKeyMeta.ID; got != want {
			h.violate("c03-data-key-under-another-partitions-key", "encrypt for partition %q returned a record whose data key is wrapped under %q, the partition's intermediate key is %q", s.part, got, want)
		}
	}
	h.logf("factory#%d %q encrypt#%d len=%d -> IK created %d (age %s)%s", s.fa.id, s.part, rc.n, len(payload), ikc, t.Sub(time.Unix(ikc, 0)), map[bool]string{true: " via Store", false: ""}[viaStore])
	h.r.SetAdd("ik_generations", fmt.Sprintf("%d|%s|%d", h.seed, s.part, ikc))

	if h.p.Oracles&OC04 != 0 {
		h.oracleC04(s, rc, drr, t, msFrom)
	}
	if h.p.Oracles&OC05 != 0 {
		h.oracleC05(s, rc, drr, t)
	}
	if h.p.Oracles&OC03 != 0 {
		h.oracleC03Encrypt(s, rc, drr, label, aeadFrom, ledFrom, msFrom)
	}
	if h.p.Oracles&OC09 != 0 {
		h.oracleC09Op(s, label, ledFrom, aeadFrom)
	}
	// the caller owns the record it was handed: whatever it does to it afterwards must not reach back into the SDK
	// (rc.drr is a deep copy taken above; a record that shares memory with cached key metadata would corrupt later
	// operations, which the round-trip and rotation oracles then report)
	if !viaStore && drr.Key != nil {
		if pk := drr.Key.ParentKeyMeta; pk != nil {
			pk.ID, pk.Created = "scribbled-by-caller", -7
		}
		for i := range drr.Key.EncryptedKey {
			drr.Key.EncryptedKey[i] ^= 0x5a
		}
		drr.Key.Created, drr.Key.Revoked = -1, true
		for i := range drr.Data {
			drr.Data[i] ^= 0x5a
		}
	}
}

func (h *hist) oracleC04(s *sess, rc *rec, drr *appencryption.DataRowRecord, t time.Time, msFrom int) {
	ikid := drr.Key.ParentKeyMeta.ID
	ikc := drr.Key.ParentKeyMeta.Created
	E, R := s.fa.cfg.Expire, s.fa.cfg.Revoke
	h.r.Count("c04_records_checked", 1)
	if expired(ikc, E, t) {
		h.violate("c04-expired-ik-used", "record produced at %s names IK (%s,%d) whose age %s exceeds ExpireKeyAfter %s [%s]", t.UTC().Format(time.RFC3339Nano), ikid, ikc, t.Sub(time.Unix(ikc, 0)), E, s.fa.cfg)
	}
	// IK rows written during this operation must not sit under an SK that is expired now
	for _, c := range h.w.MS.CallsFrom(msFrom) {
		if c.Op == "store" && c.OK && strings.HasPrefix(c.ID, "_IK_") && c.In != nil && c.In.ParentKeyMeta != nil {
			h.r.Count("c04_ik_rows_created", 1)
			if expired(c.In.ParentKeyMeta.Created, E, t) {
				h.violate("c04-ik-created-under-expired-sk", "IK row (%s,%d) was created at %s under SK created %d which is expired (lifetime %s)", c.ID, c.Created, t.UTC().Format(time.RFC3339Nano), c.In.ParentKeyMeta.Created, E)
			}
		}
	}
	// clause 3: an IK whose parent SK expired stops being used within one revoke-check interval
	row := h.w.Raw(ikid, ikc)
	if row == nil || row.ParentKeyMeta == nil {
		return
	}
	skExp := time.Unix(row.ParentKeyMeta.Created, 0).Add(E)
	bound := R + h.slack // the property's bound: one revoke-check interval
	if t.After(skExp) {
		h.r.Count("c04_records_under_expired_sk_within_bound", 1)
	}
	// a replacement IK needs a later creation stamp: until the precision window of the current IK has passed the
	// insert of a new IK collides with it, so the interval runs from whichever comes later
	from := skExp
	if cf := time.Unix(ikc, 0).Add(s.fa.cfg.Precision); cf.After(from) {
		if t.After(skExp.Add(bound)) && !t.After(cf.Add(bound)) {
			h.r.Count("c04_excused_same_precision_window", 1)
		}
		from = cf
	}
	if t.After(from.Add(bound)) {
		sig := "c04-ik-under-expired-sk-still-used"
		if h.seededByLoad(scopeOf(s), ikid, ikc, skExp) {
			sig += ":latest-alias-seeded-by-decrypt-load"
		}
		h.violate(sig, "record at %s names IK (%s,%d) whose parent SK (created %d) expired at %s, more than one revoke-check interval (%s) ago [%s]",
			t.UTC().Format(time.RFC3339Nano), ikid, ikc, row.ParentKeyMeta.Created, skExp.UTC().Format(time.RFC3339Nano), R, s.fa.cfg)
	}
}

func (h *hist) flipTime(id string, created int64) (time.Time, bool) {
	for _, f := range h.w.Flips() {
		if f.ID == id && f.Created == created {
			return f.At, true
		}
	}
	return time.Time{}, false
}

func (h *hist) oracleC05(s *sess, rc *rec, drr *appencryption.DataRowRecord, t time.Time) {
	ikid := drr.Key.ParentKeyMeta.ID
	ikc := drr.Key.ParentKeyMeta.Created
	cfg := s.fa.cfg
	stamp := t.Truncate(cfg.Precision).Unix()
	if cfg.Precision <= 0 {
		stamp = t.Unix()
	}
	row := h.w.Raw(ikid, ikc)
	if row == nil {
		h.violate("c05-record-names-unpersisted-ik", "record names IK (%s,%d) which is not in the metastore", ikid, ikc)
		return
	}
	h.r.Count("c05_records_checked", 1)
	ikBound := cfg.Revoke + h.slack // the property's bounds: one interval for the IK itself, two for its parent SK
	if tr, ok := h.flipTime(ikid, ikc); ok {
		creatable := stamp > ikc
		// the interval runs from the moment a replacement became creatable (next precision window), if later
		if cf := time.Unix(ikc, 0).Add(cfg.Precision); cf.After(tr) {
			if creatable && t.After(tr.Add(ikBound)) && !t.After(cf.Add(ikBound)) {
				h.r.Count("c05_excused_same_precision_window", 1)
			}
			tr = cf
		}
		switch {
		case !creatable:
			h.r.Count("c05_excused_same_precision_window", 1)
		case t.After(tr.Add(ikBound)):
			h.violate("c05-revoked-ik-still-used", "IK (%s,%d) was flagged revoked at %s; record produced at %s (more than %s later, a later stamp %d is creatable) still names it [%s]",
				ikid, ikc, tr.UTC().Format(time.RFC3339Nano), t.UTC().Format(time.RFC3339Nano), ikBound, stamp, cfg)
		default:
			h.r.Count("c05_revoked_ik_used_within_bound", 1)
		}
	}
	if row.ParentKeyMeta != nil {
		skid, skc := row.ParentKeyMeta.ID, row.ParentKeyMeta.Created
		if tr, ok := h.flipTime(skid, skc); ok {
			bound := 2*cfg.Revoke + h.slack
			// "stops using it": an intermediate key that was *created* later than the bound after the flag (its stamp is
			// not later than its real creation time) was wrapped by the revoked system key when that was no longer
			// allowed - whatever the reason a replacement system key could not be made (a later stamp had been creatable
			// ... for longer than the bound: the decision to keep the system key is taken before the new intermediate
			// key is stamped, and the two may fall on different sides of a precision boundary)
			from := tr
			if cf := time.Unix(skc, 0).Add(cfg.Precision); cf.After(from) {
				from = cf
			}
			if born := time.Unix(ikc, 0); born.After(from.Add(bound)) && !h.newIKReported[ikc] {
				if h.newIKReported == nil {
					h.newIKReported = map[int64]bool{}
				}
				h.newIKReported[ikc] = true
				sig := "c05-new-ik-created-under-revoked-sk"
				if h.seededByLoad(scopeOf(s), skid, skc, tr) {
					sig += ":latest-alias-seeded-by-decrypt-load"
				}
				h.violate(sig, "SK (%s,%d) was flagged revoked at %s; IK (%s,%d) was created under it more than %s later and protects the record produced at %s [%s]",
					skid, skc, tr.UTC().Format(time.RFC3339Nano), ikid, ikc, bound, t.UTC().Format(time.RFC3339Nano), cfg)
			}
			creatable := stamp > skc && stamp > ikc
			newest := skc
			if ikc > newest {
				newest = ikc
			}
			if cf := time.Unix(newest, 0).Add(cfg.Precision); cf.After(tr) {
				if creatable && t.After(tr.Add(bound)) && !t.After(cf.Add(bound)) {
					h.r.Count("c05_excused_same_precision_window", 1)
				}
				tr = cf
			}
			switch {
			case !creatable:
				h.r.Count("c05_excused_same_precision_window", 1)
			case t.After(tr.Add(bound)):
				sig := "c05-ik-under-revoked-sk-still-used"
				if h.seededByLoad(scopeOf(s), ikid, ikc, tr) {
					sig += ":latest-alias-seeded-by-decrypt-load"
				}
				h.violate(sig, "SK (%s,%d) was flagged revoked at %s; record produced at %s (more than %s later) still names IK (%s,%d) under it [%s]",
					skid, skc, tr.UTC().Format(time.RFC3339Nano), t.UTC().Format(time.RFC3339Nano), bound, ikid, ikc, cfg)
			default:
				h.r.Count("c05_ik_under_revoked_sk_within_bound", 1)
			}
		}
	}
}

// decrypt decrypts record rc through s (Decrypt or Load) and checks the round trip.
func (h *hist) decrypt(s *sess, rc *rec, how string) {
	in := world.CopyDRR(rc.drr)
	arg := world.CopyDRR(rc.drr)
	label := fmt.Sprintf("dec#%d", rc.n)
	h.scope = scopeOf(s)
	h.w.Led.SetOp(label)
	ledFrom, aeadFrom := h.w.Led.Len(), h.w.AEAD.N()
	msFrom0, kmsFrom0 := h.w.MS.N(), h.w.KMS.N()
	h.armFault()
	var (
		out []byte
		err error
	)
	viaLoad := h.rng.Intn(4) == 0
	if viaLoad {
		k := len(h.store)
		h.store[k] = arg
		var ld appencryption.Loader = mapStore{h}
		if k%2 == 1 {
			ld = persistence.LoaderFunc(mapStore{h}.Load)
		}
		out, err = s.s.Load(context.Background(), k, ld)
	} else {
		out, err = s.s.Decrypt(context.Background(), *arg)
	}
	h.w.Led.SetOp("")
	if h.disarmFault(msFrom0, kmsFrom0) && err != nil {
		h.logf("factory#%d %q decrypt#%d failed under an injected fault: %v", s.fa.id, s.part, rc.n, err)
		return
	}
	h.r.Count("decrypts", 1)
	h.r.Count("decrypts_"+how, 1)
	ok := err == nil && bytes.Equal(out, rc.payload)
	h.logf("factory#%d %q decrypt#%d (%s) ok=%v", s.fa.id, s.part, rc.n, how, ok)
	if h.p.Oracles&OC01 != 0 {
		if err != nil {
			h.violate("c01-decrypt-error", "record #%d (partition %q, produced %s by %s, IK created %d) failed to decrypt %s at %s: %v [%s]",
				rc.n, rc.part, rc.at.UTC().Format(time.RFC3339), rc.by, rc.drr.Key.ParentKeyMeta.Created, how, h.now().UTC().Format(time.RFC3339), err, s.fa.cfg)
		} else if !bytes.Equal(out, rc.payload) {
			h.violate("c01-decrypt-wrong-bytes", "record #%d decrypted to different bytes (%d vs %d)", rc.n, len(out), len(rc.payload))
		}
		if !viaLoad {
			if d := world.DiffDRR(in, arg); d != "" {
				h.violate("c01-decrypt-modified-record", "Decrypt modified the caller's record: %s", d)
			}
		}
	}
	if h.p.Oracles&OC09 != 0 {
		h.oracleC09Op(s, label, ledFrom, aeadFrom)
	}
	if h.p.Oracles&OC03 != 0 {
		h.oracleC03Scan(label)
	}
	// the caller owns what it got back and what it passed in: it overwrites both now
	for i := range out {
		out[i] ^= 0xa5
	}
	if arg != nil && arg.Key != nil {
		if pk := arg.Key.ParentKeyMeta; pk != nil {
			pk.ID, pk.Created = "scribbled-by-caller", -9
		}
		for i := range arg.Key.EncryptedKey {
			arg.Key.EncryptedKey[i] ^= 0xa5
		}
		for i := range arg.Data {
			arg.Data[i] ^= 0xa5
		}
	}
}

// oracleC09Op: every secret created during a public call that is a data key (CreateRandom inside encrypt,
// or the DRK unwrapped by decrypt never becomes a secret) must be closed when the call returns; with
// caching disabled every secret created during the call must be closed.
func (h *hist) oracleC09Op(s *sess, label string, ledFrom, aeadFrom int) {
	for _, sr := range h.w.Led.RecsFrom(ledFrom) {
		if sr.Op != label {
			continue
		}
		h.r.Count("c09_secrets_created_in_ops", 1)
		open := sr.Open()
		isDRK := sr.Creator == "random" && h.isPayloadKey(sr.Hash, aeadFrom)
		if isDRK && open {
			h.violate("c09-drk-open-after-call", "%s: data key %s still open when the call returned", label, sr)
		}
		if !s.fa.cfg.IKCached() && !s.fa.cfg.CacheSK && open && sr.Creator != "new-failed" {
			h.violate("c09-secret-outlives-call-nocache", "%s: caching disabled but %s is still open after the call", label, sr)
		}
	}
}

func (h *hist) isPayloadKey(hash [32]byte, aeadFrom int) bool {
	for _, c := range h.w.AEAD.CallsFrom(aeadFrom) {
		if c.Op == 'E' && c.Key == hash {
			return true
		}
	}
	return false
}
