package hist

import (
	"bytes"
	"context"
	"errors"
	"fmt"
	"io"
	stdlog "log"
	"strconv"
	"strings"
	"sync"
	"testing"
	"testing/synctest"
	"time"

	"google.golang.org/grpc/metadata"

	pb "github.com/godaddy/asherah/server/go/api"
	"github.com/godaddy/asherah/server/go/pkg/server"

	"verif/harness/ev"
	"verif/harness/world"
)

type c03Stream struct {
	reqs []*pb.SessionRequest
	end  error
	i    int
	sent []*pb.SessionResponse
}

func (s *c03Stream) Recv() (*pb.SessionRequest, error) {
	if s.i >= len(s.reqs) {
		return nil, s.end
	}
	s.i++
	return s.reqs[s.i-1], nil
}
func (s *c03Stream) Send(r *pb.SessionResponse) error { s.sent = append(s.sent, r); return nil }
func (s *c03Stream) SetHeader(metadata.MD) error      { return nil }
func (s *c03Stream) SendHeader(metadata.MD) error     { return nil }
func (s *c03Stream) SetTrailer(metadata.MD)           {}
func (s *c03Stream) Context() context.Context         { return context.Background() }
func (s *c03Stream) SendMsg(m any) error              { return nil }
func (s *c03Stream) RecvMsg(m any) error              { return nil }

type lockedBuf struct {
	mu sync.Mutex
	b  bytes.Buffer
}

func (l *lockedBuf) Write(p []byte) (int, error) {
	l.mu.Lock()
	defer l.mu.Unlock()
	return l.b.Write(p)
}
func (l *lockedBuf) take() []byte {
	l.mu.Lock()
	defer l.mu.Unlock()
	out := append([]byte(nil), l.b.Bytes()...)
	l.b.Reset()
	return out
}

// escapedForms: how a logger renders arbitrary bytes - Go %q escapes and the octal escapes of protobuf text output.
func escapedForms(b []byte) [][]byte {
	if len(b) > 16 {
		b = b[:16]
	}
	q := strconv.Quote(string(b))
	q = q[1 : len(q)-1]
	var oct strings.Builder
	for _, c := range b {
		if c >= 0x20 && c < 0x7f && c != '\\' && c != '"' && c != '\'' {
			oct.WriteByte(c)
		} else {
			fmt.Fprintf(&oct, "\\%03o", c)
		}
	}
	return [][]byte{[]byte(q), []byte(oct.String())}
}

// sidecarLogs: the gRPC sidecar writes an always-on standard log. Streams encrypt and decrypt text and binary
// payloads while metastore reads, KMS calls and secure-memory allocations fail every now and then (so that requests
// fail and error paths log); the captured log must contain no payload and no key bytes in any rendering.
func sidecarLogs(t *testing.T, r *ev.Run) {
	var buf lockedBuf
	stdlog.SetOutput(&buf)
	defer stdlog.SetOutput(io.Discard)
	getSession := func(p string) *pb.SessionRequest {
		return &pb.SessionRequest{Request: &pb.SessionRequest_GetSession{GetSession: &pb.GetSession{PartitionId: p}}}
	}
	enc := func(b []byte) *pb.SessionRequest {
		return &pb.SessionRequest{Request: &pb.SessionRequest_Encrypt{Encrypt: &pb.Encrypt{Data: b}}}
	}
	dec := func(d *pb.DataRowRecord) *pb.SessionRequest {
		return &pb.SessionRequest{Request: &pb.SessionRequest_Decrypt{Decrypt: &pb.Decrypt{DataRowRecord: d}}}
	}
	rounds := ev.Pick(24, 300)
	func() {
		defer func() {
			if pv := recover(); pv != nil {
				r.Violation("c03-panic:sidecar", fmt.Sprint(pv), nil)
			}
		}()
		synctest.Test(t, func(t *testing.T) {
			w := world.New("memguard")
			defer w.Close()
			time.Sleep(31 * time.Second)
			cfg := world.Default(time.Hour, time.Second, time.Minute)
			cfg.CacheIK, cfg.CacheSK = false, false // every request goes to the back ends, so faults hit
			f := w.Factory(cfg, "svc", "prod")
			app := server.VerifNewAppEncryptionWithFactory(f)
			var payloads [][]byte
			failedEncrypts := 0
			for round := 0; round < rounds; round++ {
				journal(fmt.Sprintf("C03 sidecar log round %d", round))
				var pl []byte
				if round%2 == 0 {
					pl = []byte(fmt.Sprintf("PAYLOAD-MARKER-%04d customer=4711 card=4111111111111111", round))
				} else {
					pl = make([]byte, 40)
					h.fill(pl, round)
				}
				payloads = append(payloads, pl)
				switch round % 4 {
				case 1:
					w.MS.ReadFaultIn = 1 + round%3
				case 2:
					w.KMS.Faults[w.KMS.N()+round%2] = true
				case 3:
					w.Led.FailAt[w.Led.Calls()+round%3] = true
				}
				st := &c03Stream{end: io.EOF, reqs: []*pb.SessionRequest{getSession(fmt.Sprintf("part%d", round%3)), enc(pl)}}
				if round%5 == 4 {
					st.end = errors.New("rpc error: code = Canceled desc = context canceled")
				}
				_ = app.Session(st)
				var rec *pb.DataRowRecord
				for _, resp := range st.sent {
					if er := resp.GetEncryptResponse(); er != nil {
						rec = er.DataRowRecord
					}
				}
				w.MS.ReadFaultIn = 0
				for k := range w.KMS.Faults {
					delete(w.KMS.Faults, k)
				}
				for k := range w.Led.FailAt {
					delete(w.Led.FailAt, k)
				}
				if rec == nil {
					failedEncrypts++
					continue
				}
				st2 := &c03Stream{end: io.EOF, reqs: []*pb.SessionRequest{getSession(fmt.Sprintf("part%d", round%3)), dec(rec)}}
				_ = app.Session(st2)
			}
			f.Close()
			synctest.Wait()
			logged := buf.take()
			r.Eval(1)
			r.Count("sidecar_log_bytes_scanned", int64(len(logged)))
			r.Count("sidecar_failed_encrypts", int64(failedEncrypts))
			r.Distinct("sidecar-log")
			for i, pl := range payloads {
				for fi, form := range append(forms(pl), escapedForms(pl)...) {
					if len(form) >= 8 && bytes.Contains(logged, form) {
						r.Violation("c03-payload-bytes-in-sidecar-log", fmt.Sprintf("the sidecar's log contains payload #%d (form %d): %q", i, fi, snippet(logged, form)), nil)
						return
					}
				}
			}
			for _, sr := range w.Led.Recs() {
				if sr.Bytes == nil {
					continue
				}
				for fi, form := range append(forms(sr.Bytes), escapedForms(sr.Bytes)...) {
					if len(form) >= 8 && bytes.Contains(logged, form) {
						r.Violation("c03-key-bytes-in-sidecar-log", fmt.Sprintf("the sidecar's log contains key material (form %d)", fi), nil)
						return
					}
				}
			}
		})
	}()
}

func snippet(hay, needle []byte) string {
	i := bytes.Index(hay, needle)
	a, b := i-40, i+len(needle)+10
	if a < 0 {
		a = 0
	}
	if b > len(hay) {
		b = len(hay)
	}
	return string(hay[a:b])
}

type filler struct{}

var h filler

func (filler) fill(b []byte, seed int) {
	x := uint32(seed)*2654435761 + 12345
	for i := range b {
		x = x*1664525 + 1013904223
		b[i] = byte(x >> 24)
		if i%5 == 0 {
			b[i] = byte(0x80 | b[i]&0x1f) // plenty of non-printable bytes
		}
	}
}
