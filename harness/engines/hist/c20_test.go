package hist

import (
	"bytes"
	"context"
	"crypto/sha256"
	"fmt"
	"math"
	"math/rand"
	"strings"
	"sync"
	"sync/atomic"
	"testing"
	"testing/synctest"
	"time"

	"github.com/godaddy/asherah/go/appencryption"

	"verif/harness/ev"
	"verif/harness/probe"
	"verif/harness/sched"
	"verif/harness/world"
)

type c20sess struct {
	part  string
	s     *appencryption.Session
	scope string
}

type c20 struct {
	r      *ev.Run
	name   string
	w      *world.World
	cfg    world.Cfg
	R      time.Duration
	steps  []string
	failed bool

	lastRead map[string]time.Time   // scope|ikid -> time of the last metastore read of that key's record by that cache scope
	done     map[string]bool        // session|kind|rec -> the op already succeeded on that session
	kmsSeen  map[[32]byte]time.Time // wrapped SK -> time of the last KMS unwrap by the factory under test
	scope    string
}

func (c *c20) logf(f string, a ...any) {
	c.steps = append(c.steps, fmt.Sprintf("[+%s] ", time.Since(time.Date(2000, 1, 1, 0, 0, 0, 0, time.UTC)))+fmt.Sprintf(f, a...))
}

func (c *c20) violate(sig, f string, a ...any) {
	c.failed = true
	st := c.steps
	if len(st) > 80 {
		st = st[len(st)-80:]
	}
	c.r.Violation(sig, fmt.Sprintf("scenario %s [%s]: ", c.name, c.cfg)+fmt.Sprintf(f, a...), map[string]any{"engine": "hist/c20", "scenario": c.name, "steps": st})
}

// op performs one encrypt (rec == nil) or decrypt through s and applies the C20 oracle.
func (c *c20) op(s *c20sess, rec *appencryption.DataRowRecord, recName string, payload []byte, ikid string) *appencryption.DataRowRecord {
	kind := "enc"
	if rec != nil {
		kind = "dec:" + recName
	}
	key := fmt.Sprintf("%p|%s|%s", s, kind, s.part)
	repeat := c.done[key]
	now := time.Now()
	msFrom, kmsFrom, ledFrom := c.w.MS.N(), c.w.KMS.N(), c.w.Led.Len()
	c.scope = s.scope
	var (
		out *appencryption.DataRowRecord
		err error
	)
	if rec == nil {
		out, err = s.s.Encrypt(context.Background(), payload)
	} else {
		var pt []byte
		pt, err = s.s.Decrypt(context.Background(), *world.CopyDRR(rec))
		if err == nil && !bytes.Equal(pt, payload) {
			c.violate("c20-wrong-plaintext", "decrypt returned other bytes")
		}
	}
	if err != nil {
		c.violate("c20-op-failed", "%s failed: %v", kind, err)
		return nil
	}
	calls := c.w.MS.CallsFrom(msFrom)
	kms := c.w.KMS.Calls()[kmsFrom:]
	readsOfIK := 0
	for _, mc := range calls {
		if mc.ID == ikid && (mc.Op == "load" || mc.Op == "loadlatest") {
			readsOfIK++
		}
	}
	c.r.Count("ops", 1)
	cached := c.cfg.CacheIK && c.cfg.CacheSK
	lk := s.scope + "|" + ikid
	last, seen := c.lastRead[lk]
	c.logf("%s %q scope=%s repeat=%v ms=%d kms=%d readsIK=%d sinceLastRead=%s", kind, s.part, s.scope, repeat, len(calls), len(kms), readsOfIK, now.Sub(last))
	switch {
	case cached && repeat && seen && !now.After(last.Add(c.R)):
		c.r.Count("repeats_within_interval", 1)
		if len(calls) != 0 || len(kms) != 0 {
			c.violate("c20-external-call-within-interval", "repeat of %s on a session performed %d metastore and %d KMS call(s) %s after the key's record was last read (interval %s): %v", kind, len(calls), len(kms), now.Sub(last), c.R, calls)
		}
	case cached && repeat && seen:
		c.r.Count("repeats_first_after_interval", 1)
		if readsOfIK != 1 {
			c.violate("c20-stale-reload-count", "first %s after the interval (%s since last read, interval %s) read the key's record %d time(s), want exactly 1: %v", kind, now.Sub(last), c.R, readsOfIK, calls)
		}
		for _, mc := range calls {
			if mc.Op == "store" {
				c.violate("c20-store-on-refresh", "refresh after the interval wrote to the metastore: %v", calls)
			}
		}
	case !c.cfg.CacheIK && c.cfg.CacheSK:
		// intermediate keys are not to be retained (whatever the shared-cache option says): every operation has to
		// read the intermediate key's record
		c.r.Count("ik_nocache_ops", 1)
		if readsOfIK == 0 {
			c.violate("c20-nocache-without-load", "intermediate-key caching disabled but %s performed no read of the key's record", kind)
		}
	case !c.cfg.CacheIK && !c.cfg.CacheSK:
		c.r.Count("nocache_ops", 1)
		if rec != nil && c.r != nil {
			// ... and neither does a call that fails: the same record with one bit of its ciphertext flipped
			bad := world.CopyDRR(rec)
			bad.Data[len(bad.Data)/2] ^= 0x10
			from := c.w.Led.Len()
			if _, derr := s.s.Decrypt(context.Background(), *bad); derr == nil {
				c.violate("c20-wrong-plaintext", "a record with a flipped ciphertext bit decrypted without error")
			}
			for _, sr := range c.w.Led.RecsFrom(from) {
				if sr.Open() {
					c.violate("c20-nocache-retains-secret", "caching disabled but %s is still open after a decrypt that failed (damaged record) returned", sr)
				}
			}
			c.r.Count("nocache_failed_decrypts", 1)
		}
		if readsOfIK == 0 {
			c.violate("c20-nocache-without-load", "caching disabled but %s performed no read of the key's record", kind)
		}
		for _, sr := range c.w.Led.RecsFrom(ledFrom) {
			if sr.Open() {
				c.violate("c20-nocache-retains-secret", "caching disabled but %s is still open after %s returned", sr, kind)
			}
		}
	}
	if readsOfIK > 0 {
		c.lastRead[lk] = now
	}
	// KMS clause: one unwrap per system key per factory per interval
	for _, kc := range kms {
		if kc.Op != "decrypt" || kc.Err != "" {
			continue
		}
		h := sha256.Sum256(kc.Wrapped)
		if prev, ok := c.kmsSeen[h]; ok && c.cfg.CacheSK && !now.After(prev.Add(c.R)) {
			c.violate("c20-kms-unwrap-twice-in-interval", "the KMS unwrapped the same system key again %s after the previous unwrap by this factory (interval %s)", now.Sub(prev), c.R)
		}
		c.kmsSeen[h] = now
		c.r.Count("kms_unwraps", 1)
	}
	c.done[key] = true
	return out
}

func TestC20(t *testing.T) {
	r := ev.Start("C20", "exploration")
	r.Rule("scripted+seeded histories in virtual time: a producer process creates keys and records; a cold factory under test opens 1-3 sessions for each of 1-20 partitions and performs a seeded mix of encrypts and decrypts with clock advances placed strictly before, just after and long after loadedAt+RevokeCheckInterval; exact metastore/KMS call counts per operation come from the monitors, attributed to the key-cache scope (session, shared cache or factory). Configurations: per-session simple/lru/tinylfu caches, shared IK cache, session cache, no cache. Distinct+non-trivial: scenarios that observed both a zero-call repeat and a first-use-after-interval reload.")
	r.Assume("keys never expire and nothing is revoked in these scenarios (lifetime 1000h), so every call the SDK makes is attributable to caching", "working set fits every cache")
	base := world.Default(1000*time.Hour, 0, time.Minute)
	var cfgs []namedCfg
	cfgs = append(cfgs, namedCfg{"simple", base})
	c := base
	c.IKPolicy, c.IKCap, c.SKPolicy, c.SKCap = "lru", 100, "lru", 100
	cfgs = append(cfgs, namedCfg{"lru100", c})
	c = base
	c.IKPolicy, c.IKCap, c.SKPolicy, c.SKCap = "tinylfu", 1000, "slru", 10
	cfgs = append(cfgs, namedCfg{"tinylfu1000-slru10", c})
	c = base
	c.SharedIK, c.IKPolicy, c.IKCap = true, "lfu", 64
	cfgs = append(cfgs, namedCfg{"shared-lfu64", c})
	// the two key caches have their own sizes: a working set that fits the intermediate-key cache is cached whatever
	// the (small) system-key cache size is, and vice versa
	c = base
	c.SharedIK, c.IKPolicy, c.IKCap, c.SKPolicy, c.SKCap = true, "lru", 32, "lru", 2
	cfgs = append(cfgs, namedCfg{"shared-lru32/sk-lru2", c})
	c = base
	c.SharedIK, c.IKPolicy, c.IKCap, c.SKPolicy, c.SKCap = true, "slru", 40, "lfu", 1
	cfgs = append(cfgs, namedCfg{"shared-slru40/sk-lfu1", c})
	c = base
	c.SessCache, c.SessCap, c.SessDur = true, 100, 10000*time.Hour
	cfgs = append(cfgs, namedCfg{"session-cache", c})
	c = base
	c.CacheIK, c.CacheSK = false, false
	cfgs = append(cfgs, namedCfg{"no-cache", c})
	// WithNoCache combined with WithSharedIntermediateKeyCache: the policy documents the shared-cache option as
	// ignored when intermediate-key caching is disabled
	c = base
	c.CacheIK, c.CacheSK, c.SharedIK, c.IKCap = false, false, true, 100
	cfgs = append(cfgs, namedCfg{"no-cache+shared-ik-option", c})

	// WithNoCache together with WithSessionCache: sessions are cached, keys are not
	c = base
	c.CacheIK, c.CacheSK = false, false
	c.SessCache, c.SessCap, c.SessDur = true, 100, 10000*time.Hour
	cfgs = append(cfgs, namedCfg{"no-cache+session-cache", c})

	// caching switched off for one key type only
	c = base
	c.CacheIK, c.CacheSK = false, true
	cfgs = append(cfgs, namedCfg{"sk-cache-only", c})
	c = base
	c.CacheIK, c.CacheSK, c.SharedIK, c.IKCap = false, true, true, 100
	cfgs = append(cfgs, namedCfg{"sk-cache-only+shared-ik-option", c})
	c = base
	c.CacheIK, c.CacheSK = true, false
	cfgs = append(cfgs, namedCfg{"ik-cache-only", c})

	// "keys never expire": the largest duration as the key lifetime (and one near the top of the range in which adding it
	// to a Unix time still fits 64-bit nanoseconds)
	c = base
	c.Expire = time.Duration(math.MaxInt64)
	cfgs = append(cfgs, namedCfg{"never-expire(max-duration)", c})
	c = base
	c.Expire = 280 * 365 * 24 * time.Hour
	c.SharedIK, c.IKPolicy, c.IKCap = true, "lru", 64
	cfgs = append(cfgs, namedCfg{"never-expire(280y)+shared-lru64", c})

	nSeeds := ev.Pick(4, 120)
	for _, nc := range cfgs {
		for _, nparts := range []int{1, 3, 20} {
			for sd := 0; sd < nSeeds; sd++ {
				name := fmt.Sprintf("%s/parts=%d/seed=%d", nc.name, nparts, sd)
				seed := ev.Seed()*7907 + int64(sd)*131 + int64(nparts)
				journal("c20 " + name)
				runC20(t, r, name, nc.cfg, nparts, seed)
			}
		}
	}
	concurrentRefresh(t, r)
	concurrentRefreshEncrypt(t, r)
	rotationRepeat(t, r)
	rotationInPlace(t, r)
	r.Finish(t)
}

// rotationRepeat: after a rotation the session reads a record of the previous key generation back (the old keys are
// loaded next to the current ones) and then repeats encrypts and decrypts that already succeeded: inside the
// interval they must stay free of external calls.
func rotationRepeat(t *testing.T, r *ev.Run) {
	for _, nc := range []namedCfg{{"simple", world.Default(0, 0, 0)}, {"lru100", func() world.Cfg {
		c := world.Default(0, 0, 0)
		c.IKPolicy, c.IKCap, c.SKPolicy, c.SKCap = "lru", 100, "slru", 100
		return c
	}()}, {"shared-lfu64", func() world.Cfg {
		c := world.Default(0, 0, 0)
		c.SharedIK, c.IKPolicy, c.IKCap = true, "lfu", 64
		return c
	}()}} {
		name := "rotation-repeat/" + nc.name
		journal("c20 " + name)
		func() {
			defer func() {
				if pv := recover(); pv != nil {
					r.Violation("c20-panic", fmt.Sprintf("scenario %s: %v", name, pv), name)
				}
			}()
			synctest.Test(t, func(t *testing.T) {
				E, R := time.Hour, 10*time.Minute
				cfg := nc.cfg
				cfg.Expire, cfg.Revoke, cfg.Precision = E, R, time.Minute
				c := &c20{r: r, name: name, cfg: cfg, R: R, lastRead: map[string]time.Time{}, done: map[string]bool{}, kmsSeen: map[[32]byte]time.Time{}}
				c.w = world.New("memguard")
				c.w.MS.WhoFn = func() string { return c.scope }
				defer c.w.Close()
				time.Sleep(21 * time.Second)
				ctx := context.Background()
				pf := c.w.Factory(world.Default(E, R, time.Minute), "svc", "prod")
				ps, _ := pf.GetSession("part0")
				oldPl := []byte("old generation payload")
				oldRec, err := ps.Encrypt(ctx, oldPl)
				if err != nil {
					panic(err)
				}
				ps.Close()
				pf.Close()
				time.Sleep(E + 3*time.Minute) // the first key generation has expired

				f := c.w.Factory(cfg, "svc", "prod")
				s, _ := f.GetSession("part0")
				cs := &c20sess{part: "part0", s: s, scope: "session"}
				if cfg.SharedIK {
					cs.scope = "factory"
				}
				ikid := "_IK_part0_svc_prod"
				newRec := c.op(cs, nil, "", []byte("x"), ikid) // rotates: new SK and IK
				c.op(cs, nil, "", []byte("x"), ikid)           // repeat
				c.op(cs, oldRec, "old", oldPl, ikid)           // loads the previous generation next to the current one
				for i := 0; i < 4 && !c.failed; i++ {
					time.Sleep(R / 8)
					c.op(cs, nil, "", []byte("x"), ikid)
					c.op(cs, oldRec, "old", oldPl, ikid)
					if newRec != nil {
						c.op(cs, newRec, "new", []byte("x"), ikid)
					}
				}
				s.Close()
				f.Close()
				synctest.Wait()
				r.Eval(1)
				r.Distinct(name)
			})
		}()
	}
}

// rotationInPlace: the factory under test has cached both keys as "latest" when they expire; its next encrypt
// rotates them in place. Repeats inside the interval must then stay call-free, and further partitions of the same
// factory must find the new system key in the cache: one KMS unwrap per system key per interval, however many
// partitions follow.
func rotationInPlace(t *testing.T, r *ev.Run) {
	// the rotation happens 2 min after the keys' lifetime ran out, or 30 s after it - inside the first
	// CreateDatePrecision unit after expiry
	for _, past := range []time.Duration{2 * time.Minute, 30 * time.Second} {
		rotationInPlaceAt(t, r, past)
	}
	staleAndExpired(t, r)
	staleRefreshFails(t, r)
}

// staleRefreshFails: the interval has elapsed and the key's record cannot be re-read (every read of the intermediate
// key's record, or of the system key's, fails while the operation runs - retries included). "Re-reads the key's record once before using it": the
// operation cannot use the key it could not re-check, so it reports the error; the next operation, with the
// metastore healthy again, re-reads once and succeeds.
func staleRefreshFails(t *testing.T, r *ev.Run) {
	for _, nc := range []namedCfg{{"simple", world.Default(0, 0, 0)}, {"lru100", func() world.Cfg {
		c := world.Default(0, 0, 0)
		c.IKPolicy, c.IKCap, c.SKPolicy, c.SKCap = "lru", 100, "slru", 100
		return c
	}()}, {"shared-lfu64", func() world.Cfg {
		c := world.Default(0, 0, 0)
		c.SharedIK, c.IKPolicy, c.IKCap = true, "lfu", 64
		return c
	}()}} {
		for _, op := range []string{"decrypt", "encrypt"} {
			for _, unreadable := range []string{"_IK_part0_svc_prod", "_SK_svc_prod"} { // whose record cannot be read during the operation
				name := fmt.Sprintf("stale-refresh-fails/%s/%s/%s-unreadable", nc.name, op, unreadable[1:3])
				journal("c20 " + name)
				func() {
					defer func() {
						if pv := recover(); pv != nil {
							r.Violation("c20-panic", fmt.Sprintf("scenario %s: %v", name, pv), name)
						}
					}()
					synctest.Test(t, func(t *testing.T) {
						E, R := 100*time.Hour, 10*time.Minute
						cfg := nc.cfg
						cfg.Expire, cfg.Revoke, cfg.Precision = E, R, time.Minute
						w := world.New("memguard")
						defer w.Close()
						time.Sleep(19 * time.Second)
						ctx := context.Background()
						f := w.Factory(cfg, "svc", "prod")
						s, _ := f.GetSession("part0")
						pl := []byte("x")
						d, err := s.Encrypt(ctx, pl)
						if err != nil {
							r.Violation("c20-op-failed", fmt.Sprintf("%s: %v", name, err), name)
							return
						}
						do := func() error {
							if op == "decrypt" {
								_, e := s.Decrypt(ctx, *world.CopyDRR(d))
								return e
							}
							_, e := s.Encrypt(ctx, pl)
							return e
						}
						if err := do(); err != nil {
							r.Violation("c20-op-failed", fmt.Sprintf("%s: %v", name, err), name)
							return
						}
						time.Sleep(R + time.Second) // every cached key is due for its re-check
						msFrom := w.MS.N()
						w.MS.FailReadsOf = unreadable
						err = do()
						w.MS.FailReadsOf = ""
						fired := false
						for _, mc := range w.MS.CallsFrom(msFrom) {
							if mc.Fault != "" {
								fired = true
							}
						}
						r.Eval(1)
						r.Count("stale_refresh_fault_cases", 1)
						if fired && err == nil {
							r.Violation("c20-key-used-without-reread", fmt.Sprintf("%s: the interval had elapsed and the re-read of a key record failed (%v), yet the %s succeeded: a cached key was used without being re-checked", name, w.MS.CallsFrom(msFrom), op), name)
						}
						if fired {
							r.Distinct(name)
						}
						// healthy again: the next operation succeeds and re-reads what is still due
						if err := do(); err != nil {
							r.Violation("c20-op-failed", fmt.Sprintf("%s: after the fault was gone the %s fails: %v", name, op, err), name)
						}
						msFrom, kmsFrom := w.MS.N(), w.KMS.N()
						if err := do(); err != nil || w.MS.N() != msFrom || w.KMS.N() != kmsFrom {
							r.Violation("c20-external-call-within-interval", fmt.Sprintf("%s: the repeat after the recovery performed %d metastore and %d KMS call(s) (err=%v)", name, w.MS.N()-msFrom, w.KMS.N()-kmsFrom, err), name)
						}
						s.Close()
						f.Close()
						synctest.Wait()
					})
				}()
			}
		}
	}
}

// staleAndExpired: a session is idle for longer than the revoke-check interval and its keys expire meanwhile. The
// next encrypt finds its cache entries stale: it re-reads each key's record once, sees that the keys are expired and
// rotates. "Re-reads the key's record once before using it": the intermediate key's and the system key's record are
// each read exactly once by that encrypt and the KMS unwraps nothing (the old system key is not needed any more).
func staleAndExpired(t *testing.T, r *ev.Run) {
	for _, nc := range []namedCfg{{"simple", world.Default(0, 0, 0)}, {"lru100", func() world.Cfg {
		c := world.Default(0, 0, 0)
		c.IKPolicy, c.IKCap, c.SKPolicy, c.SKCap = "lru", 100, "slru", 100
		return c
	}()}, {"shared-lfu64", func() world.Cfg {
		c := world.Default(0, 0, 0)
		c.SharedIK, c.IKPolicy, c.IKCap = true, "lfu", 64
		return c
	}()}} {
		for _, idle := range []time.Duration{11 * time.Minute, 3 * time.Hour} {
			name := fmt.Sprintf("stale-and-expired/%s/idle=%s", nc.name, idle)
			journal("c20 " + name)
			func() {
				defer func() {
					if pv := recover(); pv != nil {
						r.Violation("c20-panic", fmt.Sprintf("scenario %s: %v", name, pv), name)
					}
				}()
				synctest.Test(t, func(t *testing.T) {
					E, R := time.Hour, 10*time.Minute
					cfg := nc.cfg
					cfg.Expire, cfg.Revoke, cfg.Precision = E, R, time.Minute
					w := world.New("memguard")
					defer w.Close()
					time.Sleep(31 * time.Second)
					ctx := context.Background()
					f := w.Factory(cfg, "svc", "prod")
					s, _ := f.GetSession("part0")
					if _, err := s.Encrypt(ctx, []byte("x")); err != nil {
						r.Violation("c20-op-failed", fmt.Sprintf("%s: %v", name, err), name)
						return
					}
					time.Sleep(E - idle + time.Minute) // used once more, idle minutes before the keys expire
					if _, err := s.Encrypt(ctx, []byte("x")); err != nil {
						r.Violation("c20-op-failed", fmt.Sprintf("%s: %v", name, err), name)
						return
					}
					time.Sleep(idle + 90*time.Second) // stale (idle > R) and expired
					msFrom, kmsFrom := w.MS.N(), w.KMS.N()
					d, err := s.Encrypt(ctx, []byte("x"))
					if err != nil {
						r.Violation("c20-op-failed", fmt.Sprintf("%s: %v", name, err), name)
						return
					}
					reads := map[string]int{}
					for _, mc := range w.MS.CallsFrom(msFrom) {
						if mc.Op == "load" || mc.Op == "loadlatest" {
							reads[mc.ID]++
						}
					}
					unwraps := 0
					for _, kc := range w.KMS.Calls()[kmsFrom:] {
						if kc.Op == "decrypt" {
							unwraps++
						}
					}
					r.Eval(1)
					r.Count("stale_and_expired_cases", 1)
					if reads["_IK_part0_svc_prod"] != 1 || reads["_SK_svc_prod"] != 1 || unwraps != 0 {
						r.Violation("c20-stale-reload-count", fmt.Sprintf("%s: the first encrypt after an idle period longer than the interval, with the keys expired meanwhile, read the intermediate key's record %d time(s) and the system key's %d time(s) (want once each) and made the KMS unwrap %d key(s) (want 0): %v",
							name, reads["_IK_part0_svc_prod"], reads["_SK_svc_prod"], unwraps, w.MS.CallsFrom(msFrom)), name)
					}
					if d.Key.ParentKeyMeta.Created <= time.Now().Add(-E).Unix() {
						r.Violation("c20-op-failed", fmt.Sprintf("%s: the record names an expired key", name), name)
					}
					msFrom, kmsFrom = w.MS.N(), w.KMS.N()
					if _, err := s.Encrypt(ctx, []byte("x")); err != nil || w.MS.N() != msFrom || w.KMS.N() != kmsFrom {
						r.Violation("c20-external-call-within-interval", fmt.Sprintf("%s: the repeat right after the rotation performed %d metastore and %d KMS call(s) (err=%v)", name, w.MS.N()-msFrom, w.KMS.N()-kmsFrom, err), name)
					}
					s.Close()
					f.Close()
					synctest.Wait()
					r.Distinct(name)
				})
			}()
		}
	}
}

func rotationInPlaceAt(t *testing.T, r *ev.Run, past time.Duration) {
	for _, nc := range []namedCfg{{"simple", world.Default(0, 0, 0)}, {"lru100", func() world.Cfg {
		c := world.Default(0, 0, 0)
		c.IKPolicy, c.IKCap, c.SKPolicy, c.SKCap = "lru", 100, "slru", 100
		return c
	}()}, {"shared-lfu64", func() world.Cfg {
		c := world.Default(0, 0, 0)
		c.SharedIK, c.IKPolicy, c.IKCap = true, "lfu", 64
		return c
	}()}, {"session-cache", func() world.Cfg {
		c := world.Default(0, 0, 0)
		c.SessCache, c.SessCap, c.SessDur = true, 100, 10000*time.Hour
		return c
	}()}} {
		name := fmt.Sprintf("rotation-in-place/%s/%s-past-expiry", nc.name, past)
		journal("c20 " + name)
		func() {
			defer func() {
				if pv := recover(); pv != nil {
					r.Violation("c20-panic", fmt.Sprintf("scenario %s: %v", name, pv), name)
				}
			}()
			synctest.Test(t, func(t *testing.T) {
				E, R := time.Hour, 10*time.Minute
				cfg := nc.cfg
				cfg.Expire, cfg.Revoke, cfg.Precision = E, R, time.Minute
				c := &c20{r: r, name: name, cfg: cfg, R: R, lastRead: map[string]time.Time{}, done: map[string]bool{}, kmsSeen: map[[32]byte]time.Time{}}
				c.w = world.New("memguard")
				c.w.MS.WhoFn = func() string { return c.scope }
				defer c.w.Close()
				time.Sleep(27 * time.Second)
				born := time.Now().Truncate(time.Minute) // the creation stamp the first keys will carry
				f := c.w.Factory(cfg, "svc", "prod")
				mk := func(part string) *c20sess {
					s, _ := f.GetSession(part)
					cs := &c20sess{part: part, s: s, scope: "session:" + part}
					if cfg.SharedIK {
						cs.scope = "factory"
					}
					return cs
				}
				cs := mk("part0")
				ikid := "_IK_part0_svc_prod"
				c.op(cs, nil, "", []byte("x"), ikid) // first generation, cached as latest
				// keep the cached keys fresh right up to their expiry, then let them expire while cached
				time.Sleep(E - 2*time.Minute)
				c.op(cs, nil, "", []byte("x"), ikid)
				time.Sleep(time.Until(born.Add(E + past))) // both keys are expired now, their cache entries are still fresh
				c.done = map[string]bool{}                 // what follows is a new generation: nothing is a repeat yet
				c.op(cs, nil, "", []byte("x"), ikid)       // rotates in place
				c.op(cs, nil, "", []byte("x"), ikid)       // repeat: no external call
				var others []*c20sess
				for i := 1; i <= 4 && !c.failed; i++ {
					o := mk(fmt.Sprintf("part%d", i))
					others = append(others, o)
					c.op(o, nil, "", []byte("y"), fmt.Sprintf("_IK_part%d_svc_prod", i)) // new partition: the new SK must come from the cache
					time.Sleep(R / 16)
					c.op(cs, nil, "", []byte("x"), ikid)
				}
				for _, o := range others {
					o.s.Close()
				}
				cs.s.Close()
				f.Close()
				synctest.Wait()
				r.Eval(1)
				r.Distinct(name)
			})
		}()
	}
}

// concurrentRefresh: N sessions of one factory all find the shared system key stale at the same moment (every
// goroutine is held at the lock-free point right after the read-locked lookup until all have arrived) and are
// then released together. The system key may be re-read and unwrapped once, not N times.
func concurrentRefresh(t *testing.T, r *ev.Run) {
	for _, n := range []int{2, 4, 8} {
		n := n
		name := fmt.Sprintf("concurrent-refresh/sessions=%d", n)
		journal("c20 " + name)
		func() {
			defer func() {
				if pv := recover(); pv != nil {
					r.Violation("c20-panic", fmt.Sprintf("scenario %s: %v", name, pv), name)
				}
			}()
			synctest.Test(t, func(t *testing.T) {
				R := 10 * time.Minute
				cfg := world.Default(1000*time.Hour, R, time.Minute)
				w := world.New("memguard")
				defer w.Close()
				time.Sleep(19 * time.Second)
				ctx := context.Background()
				pf := w.Factory(world.Default(1000*time.Hour, time.Hour, time.Minute), "svc", "prod")
				type pr struct {
					d  *appencryption.DataRowRecord
					pl []byte
				}
				recs := make([]pr, n)
				for i := range recs {
					ps, _ := pf.GetSession(fmt.Sprintf("part%d", i))
					pl := []byte(fmt.Sprintf("payload %d", i))
					d, err := ps.Encrypt(ctx, pl)
					if err != nil {
						panic(err)
					}
					recs[i] = pr{d, pl}
					ps.Close()
				}
				pf.Close()
				f := w.Factory(cfg, "svc", "prod")
				sess := make([]*appencryption.Session, n)
				for i := range sess {
					sess[i], _ = f.GetSession(fmt.Sprintf("part%d", i))
					if _, err := sess[i].Decrypt(ctx, *world.CopyDRR(recs[i].d)); err != nil {
						panic(err)
					}
				}
				time.Sleep(R + time.Nanosecond) // every cached key is stale now
				ctrl := sched.NewController()
				calls := map[string]int{}
				var mu sync.Mutex
				probe.SetHookSink(func(point string, arg any) {
					l := sched.Label()
					if l == "" {
						return
					}
					mu.Lock()
					if point == "kc.getorload.enter" {
						calls[l]++
					}
					nested := calls[l] == 2
					mu.Unlock()
					if point == "kc.getorload.after_runlock" && nested {
						ctrl.Park(point) // the system-key lookup saw a stale key and is about to take the write lock
					}
				})
				defer probe.SetHookSink(nil)
				kms0, sk0 := w.KMS.Count("decrypt"), w.MS.Count("load:_SK_svc_prod")
				var wg sync.WaitGroup
				var failed atomic.Int32
				for i := range sess {
					i := i
					wg.Add(1)
					go func() {
						defer wg.Done()
						sched.SetLabel(fmt.Sprintf("g%d", i))
						defer sched.ClearLabel()
						out, err := sess[i].Decrypt(ctx, *world.CopyDRR(recs[i].d))
						if err != nil || !bytes.Equal(out, recs[i].pl) {
							failed.Add(1)
						}
					}()
				}
				synctest.Wait()
				parked := len(ctrl.Parked())
				ctrl.ReleaseAll()
				wg.Wait()
				probe.SetHookSink(nil)
				unwraps := w.KMS.Count("decrypt") - kms0
				skReads := w.MS.Count("load:_SK_svc_prod") - sk0
				r.Eval(1)
				r.Distinct(name)
				r.Count("concurrent_refresh_goroutines_held_at_stale_lookup", int64(parked))
				if failed.Load() > 0 {
					r.Violation("c20-op-failed", fmt.Sprintf("scenario %s: %d decrypt(s) failed", name, failed.Load()), name)
				}
				if parked >= 2 && (unwraps > 1 || skReads > 1) {
					r.Violation("c20-kms-unwrap-twice-in-interval", fmt.Sprintf("scenario %s: %d sessions found the cached system key stale at the same moment; the KMS unwrapped it %d times and its record was read %d times (want once per factory per interval)", name, parked, unwraps, skReads), name)
				}
				for _, s := range sess {
					s.Close()
				}
				f.Close()
			})
		}()
	}
}

// concurrentRefreshEncrypt is the encrypt-path twin of concurrentRefresh: n sessions (per-session IK caches, one
// factory-wide SK cache) encrypt at the same instant after the revoke-check interval has elapsed. The latest-key
// lookup of the pinned code takes the cache's write lock for the whole lookup, so there is nothing to hold open; but
// ./check builds this engine with the auto-generated unlock hooks, and a goroutine that reaches ANY point right
// after an unlock inside the system-key lookup is parked there until all of them have arrived - so a lookup that
// drops a lock between finding the key stale and reloading it lets every goroutine through before the first reload.
func concurrentRefreshEncrypt(t *testing.T, r *ev.Run) {
	for _, mode := range []string{"same-partitions", "new-partitions", "one-partition-shared-ik-cache"} {
		for _, n := range []int{2, 4, 8} {
			concurrentRefreshEncryptCase(t, r, mode, n)
		}
	}
}

func concurrentRefreshEncryptCase(t *testing.T, r *ev.Run, mode string, n int) {
	name := fmt.Sprintf("concurrent-refresh-encrypt/%s/sessions=%d", mode, n)
	journal("c20 " + name)
	defer func() {
		if pv := recover(); pv != nil {
			r.Violation("c20-panic", fmt.Sprintf("scenario %s: %v", name, pv), name)
		}
	}()
	synctest.Test(t, func(t *testing.T) {
		R := 10 * time.Minute
		cfg := world.Default(1000*time.Hour, R, time.Minute)
		level := 2 // park inside the second (system-key) latest-key lookup of the operation
		if mode == "one-partition-shared-ik-cache" {
			cfg.SharedIK, cfg.IKPolicy, cfg.IKCap = true, "lru", 100
			level = 1 // park inside the intermediate-key lookup on the shared cache
		}
		w := world.New("memguard")
		defer w.Close()
		time.Sleep(23 * time.Second)
		ctx := context.Background()
		f := w.Factory(cfg, "svc", "prod")
		part := func(i int) string {
			if mode == "one-partition-shared-ik-cache" {
				return "part0"
			}
			return fmt.Sprintf("part%d", i)
		}
		sess := make([]*appencryption.Session, n)
		for i := range sess {
			sess[i], _ = f.GetSession(part(i))
			if _, err := sess[i].Encrypt(ctx, []byte("warm-up")); err != nil {
				panic(err)
			}
		}
		if mode == "new-partitions" {
			// the system key is cached; the concurrent encrypts come from partitions that have no key yet
			for i := range sess {
				sess[i].Close()
				sess[i], _ = f.GetSession(fmt.Sprintf("newpart%d", i))
			}
		}
		time.Sleep(R + time.Nanosecond) // every cached key is stale now
		ctrl := sched.NewController()
		calls, entered, armedAt := map[string]int{}, map[string]int{}, map[string]int{}
		once := map[string]bool{}
		var mu sync.Mutex
		probe.SetHookSink(func(point string, arg any) {
			l := sched.Label()
			if l == "" {
				return
			}
			mu.Lock()
			if point == "kc.getorloadlatest.enter" || point == "kc.getorload.enter" {
				entered[l]++
			}
			if point == "kc.getorloadlatest.enter" {
				calls[l]++
				if calls[l] == level {
					armedAt[l] = entered[l]
				}
			}
			// only while the goroutine is inside that lookup itself: once it has entered a deeper key-cache call it
			// holds the lookup's write lock, and parking it would only make the others wait for that mutex
			park := calls[l] == level && armedAt[l] == entered[l] && !once[l] && strings.HasPrefix(point, "auto.after_unlock:key_cache.go")
			if park {
				once[l] = true
			}
			mu.Unlock()
			if park {
				ctrl.Park(point)
			}
		})
		defer probe.SetHookSink(nil)
		ikID := "_IK_part0_svc_prod"
		reads := func() (int, int, int) {
			return w.KMS.Count("decrypt"), w.MS.Count("loadlatest:_SK_svc_prod") + w.MS.Count("load:_SK_svc_prod"), w.MS.Count("loadlatest:"+ikID) + w.MS.Count("load:"+ikID)
		}
		kms0, sk0, ik0 := reads()
		var wg sync.WaitGroup
		var failed atomic.Int32
		for i := range sess {
			i := i
			wg.Add(1)
			go func() {
				defer wg.Done()
				sched.SetLabel(fmt.Sprintf("g%d", i))
				defer sched.ClearLabel()
				if _, err := sess[i].Encrypt(ctx, []byte("payload")); err != nil {
					failed.Add(1)
				}
			}()
		}
		synctest.Wait()
		parked := len(ctrl.Parked())
		ctrl.ReleaseAll()
		wg.Wait()
		probe.SetHookSink(nil)
		kms1, sk1, ik1 := reads()
		unwraps, skReads, ikReads := kms1-kms0, sk1-sk0, ik1-ik0
		r.Eval(1)
		r.Distinct(name)
		r.Count("concurrent_refresh_encrypt_goroutines_held_after_an_unlock", int64(parked))
		r.Max("concurrent_refresh_encrypt_sk_reads", int64(skReads))
		if failed.Load() > 0 {
			r.Violation("c20-op-failed", fmt.Sprintf("scenario %s: %d encrypt(s) failed", name, failed.Load()), name)
		}
		if unwraps > 1 || skReads > 1 {
			r.Violation("c20-kms-unwrap-twice-in-interval", fmt.Sprintf("scenario %s: %d sessions encrypted at the same moment after the interval had elapsed (%d were held right after an unlock inside the latest-key lookup); the KMS unwrapped the system key %d times and its record was read %d times (want once per factory per interval)", name, n, parked, unwraps, skReads), name)
		}
		if mode == "one-partition-shared-ik-cache" && ikReads > 1 {
			r.Violation("c20-external-call-within-interval", fmt.Sprintf("scenario %s: %d sessions sharing one intermediate-key cache encrypted at the same moment after the interval had elapsed (%d held right after an unlock inside the lookup); the key's record was read %d times (want one re-read per interval)", name, n, parked, ikReads), name)
		}
		for _, s := range sess {
			s.Close()
		}
		f.Close()
	})
}

func runC20(t *testing.T, r *ev.Run, name string, cfg world.Cfg, nparts int, seed int64) {
	defer func() {
		if pv := recover(); pv != nil {
			r.Violation("c20-panic", fmt.Sprintf("scenario %s: panic %v", name, pv), name)
		}
	}()
	synctest.Test(t, func(t *testing.T) {
		rng := rand.New(rand.NewSource(seed))
		// (a zero interval - the sidecar's setting when --check-interval is not given - means "re-check on every use":
		// a repeat at a later instant re-reads the record exactly once)
		_ = rng.Intn(3)
		R := []time.Duration{time.Minute, 10 * time.Minute, time.Hour, 0}[int(uint64(seed)%4)]
		cfg.Revoke = R
		if R == 0 {
			r.Count("scenarios_with_zero_interval", 1)
		}
		c := &c20{r: r, name: name, cfg: cfg, R: R, lastRead: map[string]time.Time{}, done: map[string]bool{}, kmsSeen: map[[32]byte]time.Time{}}
		c.w = world.New([]string{"memguard", "protectedmemory"}[rng.Intn(2)])
		c.w.MS.WhoFn = func() string { return c.scope }
		defer c.w.Close()
		time.Sleep(time.Duration(rng.Intn(50)+1) * time.Second)

		// producer process: creates SK, IKs and two records per partition
		type prec struct {
			drr     *appencryption.DataRowRecord
			payload []byte
		}
		parts := make([]string, nparts)
		recs := map[string][]prec{}
		pf := c.w.Factory(world.Default(1000*time.Hour, time.Hour, time.Minute), "svc", "prod")
		for i := range parts {
			parts[i] = fmt.Sprintf("part%d", i)
			ps, _ := pf.GetSession(parts[i])
			for k := 0; k < 2; k++ {
				pl := []byte(fmt.Sprintf("payload-%d-%d-%d", seed, i, k))
				d, err := ps.Encrypt(context.Background(), pl)
				if err != nil {
					c.violate("c20-setup", "producer encrypt failed: %v", err)
					return
				}
				recs[parts[i]] = append(recs[parts[i]], prec{d, pl})
			}
			ps.Close()
		}
		pf.Close()
		time.Sleep(time.Duration(rng.Intn(3000)) * time.Second)

		// factory under test
		f := c.w.Factory(cfg, "svc", "prod")
		var sessions []*c20sess
		for _, p := range parts {
			n := 1 + rng.Intn(3)
			for k := 0; k < n; k++ {
				s, err := f.GetSession(p)
				if err != nil {
					c.violate("c20-setup", "GetSession failed: %v", err)
					return
				}
				sc := fmt.Sprintf("session@%p", s)
				if cfg.SharedIK {
					sc = "factory"
				}
				sessions = append(sessions, &c20sess{part: p, s: s, scope: sc})
			}
		}
		nops := 12*len(sessions) + 20
		zero0, stale0 := r.Violations(), 0
		_ = zero0
		for i := 0; i < nops && !c.failed; i++ {
			s := sessions[rng.Intn(len(sessions))]
			ikid := fmt.Sprintf("_IK_%s_svc_prod", s.part)
			switch rng.Intn(10) {
			case 0, 1, 2, 3:
				c.op(s, nil, "", []byte("x"), ikid)
			case 4, 5, 6, 7:
				k := rng.Intn(2)
				pr := recs[s.part][k]
				c.op(s, pr.drr, fmt.Sprint(k), pr.payload, ikid)
			default:
				var d time.Duration
				switch rng.Intn(6) {
				case 0:
					d = R / 3
				case 1:
					d = R - time.Nanosecond
				case 2:
					d = R + time.Nanosecond
				case 3:
					d = 3 * R
				case 4:
					d = time.Second
				default:
					d = R / 2
				}
				time.Sleep(d)
				c.logf("clock += %s", d)
				stale0++
			}
		}
		for _, s := range sessions {
			s.s.Close()
		}
		f.Close()
		synctest.Wait()
		r.Eval(1)
		r.Distinct(name)
		r.SetAdd("configs", cfg.String())
		if r.WantSample() && len(c.steps) > 10 {
			n := len(c.steps)
			if n > 30 {
				n = 30
			}
			r.Sample(map[string]any{"scenario": name, "config": cfg.String(), "first_steps": c.steps[:n]})
		}
	})
}
