package hist

import (
	"fmt"
	"math/rand"
	"os"
	"sort"
	"strings"
	"testing"
	"testing/synctest"
	"time"

	"verif/harness/ev"
	"verif/harness/probe"
	"verif/harness/sched"
	"verif/harness/world"
)

// scriptedBackend is the metastore back end of the scripted scenarios that follow (see world.Backends).
var scriptedBackend = "memory"

// watchedBubble runs f inside a synctest bubble under a generous wall-clock watchdog. A goroutine blocked on a sync
// mutex is not "durably blocked" for synctest, so a lock that is never released would hang the whole run instead of
// producing a verdict. The cases are deterministic and normally take milliseconds to seconds: one that does not
// finish within the watchdog on two attempts in a row is reported as a hang (the panic value says so); the second
// attempt rules out a machine that was merely busy. A panic of the bubble (including synctest's own deadlock panic)
// is passed on to the caller.
func watchedBubble(t *testing.T, limit time.Duration, f func(t *testing.T)) {
	for attempt := 0; attempt < 2; attempt++ {
		done := make(chan any, 1)
		go func() {
			defer func() { done <- recover() }()
			synctest.Test(t, f)
		}()
		select {
		case p := <-done:
			if p != nil {
				panic(p)
			}
			return
		case <-time.After(limit):
		}
	}
	panic(fmt.Sprintf("hang: the case did not finish within %s of wall clock on two attempts (a lock that is never released?)", limit))
}

// scripted runs body as one deterministic scenario inside a bubble, with one world and fixed timing.
func scripted(t *testing.T, r *ev.Run, name string, oracles int, E, R, P time.Duration, body func(h *hist)) {
	defer func() {
		if pv := recover(); pv != nil {
			r.Violation("matrix-panic", fmt.Sprintf("scenario %s: panic: %v", name, pv), name)
		}
	}()
	watchedBubble(t, 90*time.Second, func(t *testing.T) {
		h := &hist{r: r, p: Params{Oracles: oracles, Parts: []string{"P", "seed"}}, rng: rand.New(rand.NewSource(1)), seed: -1, svc: "svc", prod: "prod"}
		h.c3 = newC03()
		h.store = map[int]*drrT{}
		h.w = world.NewOn("memguard", scriptedBackend)
		h.w.MS.WhoFn = func() string { return h.scope }
		h.expire, h.revoke, h.precision = E, R, P
		h.logf("scenario %s E=%s R=%s P=%s", name, E, R, P)
		body(h)
		for _, fa := range h.facts {
			if fa.alive {
				h.closeFact(fa)
			}
		}
		synctest.Wait()
		h.w.Close()
		if dbg := os.Getenv("VERIF_DEBUG_SCENARIO"); dbg != "" && strings.Contains(name, dbg) {
			fmt.Println("DEBUG scenario", name)
			for _, st := range h.steps {
				fmt.Println("   ", st)
			}
		}
		r.Eval(1)
		r.Count("matrix_scenarios", 1)
		if len(h.recs) > 1 {
			r.Distinct("matrix:" + name)
		}
	})
}

func (h *hist) factWith(c world.Cfg) *fact {
	c.Expire, c.Revoke, c.Precision = h.expire, h.revoke, h.precision
	h.p.SameCfg = &c
	fa := h.newFact()
	h.facts = append(h.facts, fa)
	return fa
}

func (h *hist) openSess(fa *fact, part string) *sess {
	s, err := fa.f.GetSession(part)
	if err != nil {
		h.violate("getsession-failed", "GetSession failed: %v", err)
		return nil
	}
	ss := &sess{part: part, s: s, fa: fa}
	fa.sess = append(fa.sess, ss)
	return ss
}

func sleepUntil(tm time.Time) {
	if d := time.Until(tm); d > 0 {
		time.Sleep(d)
	}
}

type namedCfg struct {
	name string
	cfg  world.Cfg
}

func matrixCfgs() []namedCfg {
	base := world.Default(0, 0, 0)
	simple := base
	lru1 := base
	lru1.IKPolicy, lru1.IKCap, lru1.SKPolicy, lru1.SKCap = "lru", 1, "lru", 1
	shared := base
	shared.SharedIK, shared.IKPolicy, shared.IKCap = true, "slru", 10
	sc := base
	sc.SessCache, sc.SessCap, sc.SessDur = true, 10, 100*time.Hour
	nocache := base
	nocache.CacheIK, nocache.CacheSK = false, false
	tl := base
	tl.IKPolicy, tl.IKCap, tl.SKPolicy, tl.SKCap = "tinylfu", 2, "lfu", 2
	return []namedCfg{{"simple", simple}, {"lru-cap1", lru1}, {"shared-ik", shared}, {"session-cache", sc}, {"no-cache", nocache}, {"tinylfu2-lfu2", tl}}
}

// matrixC04 drives one long-lived session (and a cold one) across every expiry boundary of its IK and of the
// parent SK, for several age offsets between SK and IK and every cache configuration.
func matrixC04(t *testing.T, r *ev.Run) {
	matrixC04R(t, r, 5*time.Minute)
	// zero revoke-check interval: every use re-checks, so the IK under an expired SK is dropped at once
	matrixC04R(t, r, 0)
}

func matrixC04R(t *testing.T, r *ev.Run, R time.Duration) {
	E, P := time.Hour, time.Minute
	deltas := []time.Duration{0, R / 2, 2 * R, E / 2, E - R/2}
	if R == 0 {
		deltas = []time.Duration{0, 7 * time.Minute, E / 2, E - 3*time.Minute}
	}
	for _, nc := range matrixCfgs() {
		for _, delta := range deltas {
			for variant := 0; variant < 7; variant++ {
				if R == 0 && variant >= 2 {
					continue
				}
				// variant 5: the long-lived session encrypts at short intervals (gaps well below one revoke-check interval)
				// all the way across the system key's expiry: being used often must not postpone the re-check.
				// variant 6: the same traffic, and exactly one transient read fault at the first encrypt after the system key
				// has expired: the failed refresh must not make the stale entry look fresh.
				dense := variant >= 5
				if dense && (delta == 0 || delta > E/2) {
					continue
				}
				coldToo := variant == 1
				// variants 2 to 4: from the moment the system key has expired every encrypt of the long-lived session
				// meets a transient fault at its first metastore read (2), its first KMS call (3) or its first KMS EncryptKey call (4): the operation may fail, but
				// it must not fall back to the cached intermediate key under the expired system key for longer than
				// the property allows; the last encrypt runs without a fault and has to rotate
				faultKind := 0
				if variant >= 2 && variant <= 4 {
					faultKind = variant - 1
				}
				singleFault := variant == 6
				faultsArmed := 0
				name := fmt.Sprintf("c04/R=%s/%s/delta=%s/cold=%v/fault=%d/dense=%v/single-fault=%v", R, nc.name, delta, coldToo, faultKind, dense, singleFault)
				scripted(t, r, name, OC04|OC01, E, R, P, func(h *hist) {
					time.Sleep(17 * time.Second) // not on a precision boundary
					fa := h.factWith(nc.cfg)
					seed := h.openSess(fa, "seed")
					h.encrypt(seed) // creates SK (and IK of "seed")
					skBorn := time.Now().Truncate(P)
					time.Sleep(delta)
					s := h.openSess(fa, "P")
					h.encrypt(s) // creates IK_P under that SK
					ikBorn := time.Now().Truncate(P)
					// instants of interest
					var pts []time.Time
					for _, b := range []time.Time{ikBorn.Add(E), skBorn.Add(E), skBorn.Add(E).Add(R), ikBorn.Add(E).Add(R), skBorn.Add(2 * E)} {
						for _, eps := range []time.Duration{-time.Second, -time.Nanosecond, time.Nanosecond, time.Second, R / 2} {
							pts = append(pts, b.Add(eps))
						}
					}
					warmStep := 7 * R / 3
					if warmStep == 0 {
						warmStep = 11 * time.Minute
					}
					for d := R / 2; d < E; d += warmStep { // keep the cache warm in between with irregular spacing
						pts = append(pts, time.Now().Add(d))
					}
					if dense {
						for at := skBorn.Add(E - R); at.Before(skBorn.Add(E + 2*R + R/2)); at = at.Add(R / 4) {
							pts = append(pts, at.Add(13*time.Second))
						}
					}
					sort.Slice(pts, func(i, j int) bool { return pts[i].Before(pts[j]) })
					for _, pt := range pts {
						if !pt.After(time.Now()) {
							continue
						}
						sleepUntil(pt)
						if singleFault && faultsArmed == 0 && pt.After(skBorn.Add(E)) {
							h.p.FaultPct = -1
							h.w.MS.ReadFaultIn = 1
							faultsArmed++
							r.Count("matrix_c04_faults_armed", 1)
						}
						if faultKind != 0 && pt.After(skBorn.Add(E)) && pt != pts[len(pts)-1] {
							h.p.FaultPct = -1 // faults are placed by the scenario
							switch faultKind {
							case 1:
								h.w.MS.ReadFaultIn = 1
							case 2:
								h.w.KMS.Faults[h.w.KMS.N()] = true
							default:
								// the KMS cannot wrap new system keys (reads and unwraps keep working)
								h.w.KMS.FailEncrypts = 1
							}
							r.Count("matrix_c04_faults_armed", 1)
						}
						h.encrypt(s)
						if coldToo {
							fb := h.factWith(nc.cfg)
							cs := h.openSess(fb, "P")
							h.encrypt(cs)
							h.closeFact(fb)
						}
						if h.failed {
							return
						}
					}
				})
			}
		}
	}
}

// rotateThenDecryptOld: the SK expires while a younger IK is still valid; the long-lived session rotates on its next
// encrypt; it then decrypts a record written under the old IK and encrypts again right away. The old IK (under
// the expired SK) must not come back for new records.
func rotateThenDecryptOld(t *testing.T, r *ev.Run) {
	E, R, P := time.Hour, 5*time.Minute, time.Minute
	for _, nc := range matrixCfgs() {
		scripted(t, r, "c04/"+nc.name+"/rotate-then-decrypt-old-then-encrypt", OC04|OC01, E, R, P, func(h *hist) {
			time.Sleep(17 * time.Second)
			fa := h.factWith(nc.cfg)
			seed := h.openSess(fa, "seed")
			h.encrypt(seed)
			time.Sleep(E / 2)
			s := h.openSess(fa, "P")
			h.encrypt(s) // IK1 under SK1
			old := h.recs[len(h.recs)-1]
			time.Sleep(E/2 + 2*R) // SK1 expired two intervals ago, IK1 valid
			h.encrypt(s)          // rotates: new SK, new IK
			for i := 0; i < 3; i++ {
				h.decrypt(s, old, "same-factory")
				h.encrypt(s)
				time.Sleep(R / 3)
			}
		})
	}
}

// f11C04 reproduces the recorded finding F11 for C04 deterministically: the SK expires while a younger IK is still
// valid; a cold cache decrypts a record of the partition (which seeds its "latest" alias without validating the
// parent) and then encrypts.
func f11C04(t *testing.T, r *ev.Run) {
	E, R, P := time.Hour, 5*time.Minute, time.Minute
	scripted(t, r, "c04/f11-decrypt-seeds-latest", OC04, E, R, P, func(h *hist) {
		time.Sleep(17 * time.Second)
		fa := h.factWith(matrixCfgs()[0].cfg)
		seed := h.openSess(fa, "seed")
		h.encrypt(seed) // SK born now
		time.Sleep(E / 2)
		s := h.openSess(fa, "P")
		h.encrypt(s) // IK_P born half a lifetime later
		rec := h.recs[len(h.recs)-1]
		time.Sleep(E/2 + 2*R) // SK expired two intervals ago, IK_P still valid
		fb := h.factWith(matrixCfgs()[0].cfg)
		cs := h.openSess(fb, "P")
		h.decrypt(cs, rec, "fresh-factory")
		h.encrypt(cs)
	})
}

// matrixC03Faults: a process that finds the keys already in the metastore performs its first operation while the
// k-th secure-memory allocation or KMS call of that operation fails; whatever the outcome, the records it
// produces afterwards (without faults) must follow the envelope discipline - data keys wrapped under the partition's
// real intermediate key - and decrypt in another process.
func matrixC03Faults(t *testing.T, r *ev.Run) {
	E, R, P := 10*time.Hour, 5*time.Minute, time.Minute
	for _, nc := range matrixCfgs() {
		for _, dom := range []string{"alloc", "kms"} {
			for k := 0; k < 4; k++ {
				for _, firstOp := range []string{"enc", "dec"} {
					name := fmt.Sprintf("c03/first-op-fault/%s/%s#%d/%s", nc.name, dom, k, firstOp)
					scripted(t, r, name, OC03|OC01, E, R, P, func(h *hist) {
						time.Sleep(29 * time.Second)
						fa := h.factWith(nc.cfg)
						sa := h.openSess(fa, "P")
						h.encrypt(sa)
						first := h.recs[0]
						time.Sleep(R + P)
						fb := h.factWith(nc.cfg)
						sb := h.openSess(fb, "P")
						h.p.FaultPct = -1 // faults are placed by the scenario
						switch dom {
						case "alloc":
							h.w.Led.FailAt[h.w.Led.Calls()+k] = true
							h.ledArmBase = h.w.Led.Calls()
						case "kms":
							h.w.KMS.Faults[h.w.KMS.N()+k] = true
						}
						if firstOp == "enc" {
							h.encrypt(sb)
						} else {
							h.decrypt(sb, first, "other-factory")
						}
						n0 := len(h.recs)
						h.encrypt(sb)
						h.encrypt(sb)
						h.decrypt(sb, first, "other-factory")
						fc := h.factWith(nc.cfg)
						sc := h.openSess(fc, "P")
						for _, rec := range h.recs[n0:] {
							h.decrypt(sc, rec, "fresh-factory")
						}
					})
				}
			}
		}
	}
}

// matrixC04Race: the system key has expired; process A (partition P) has read it and is about to insert its
// replacement when process B (partition Q) completes a whole rotation. A's insert is then refused as a duplicate of
// B's (same creation stamp) and A has to adopt B's key: the intermediate key A creates next must sit under a system
// key that is not expired. The metastore monitor's gate holds A exactly in front of its system-key insert.
func matrixC04Race(t *testing.T, r *ev.Run) {
	E, R, P := time.Hour, 5*time.Minute, time.Minute
	for _, nc := range matrixCfgs() {
		for _, warm := range []bool{false, true} {
			name := fmt.Sprintf("c04/sk-rotation-race/%s/sk-freshly-cached=%v", nc.name, warm)
			scripted(t, r, name, OC04|OC01, E, R, P, func(h *hist) {
				time.Sleep(17 * time.Second)
				fa := h.factWith(nc.cfg)
				sa := h.openSess(fa, "P")
				h.encrypt(sa) // SK0 and IK_P
				first := h.recs[0]
				time.Sleep(E + 2*P + 11*time.Second) // both expired
				fb := h.factWith(nc.cfg)
				sb := h.openSess(fb, "Q")
				if warm {
					// A's system-key cache holds the expired key, freshly re-checked
					h.decrypt(sa, first, "same-factory")
				}
				reached, release := make(chan struct{}), make(chan struct{})
				held := false
				h.w.MS.Gate = func(c *probe.MSCall) {
					if !held && c.Op == "store" && strings.HasPrefix(c.ID, "_SK_") && sched.Label() == "A" {
						held = true
						close(reached)
						<-release
					}
				}
				done := make(chan struct{})
				go func() {
					defer close(done)
					sched.SetLabel("A")
					defer sched.ClearLabel()
					h.encrypt(sa)
				}()
				synctest.Wait()
				select {
				case <-reached:
					r.Count("c04_race_a_held_before_sk_insert", 1)
					h.logf("A is held in front of its system-key insert; B rotates")
					h.w.MS.Gate = nil
					h.encrypt(sb)
					close(release)
				default:
					// A did not get as far as inserting a system key (nothing to race with): plain sequential run
					h.w.MS.Gate = nil
				}
				<-done
				h.w.MS.Gate = nil
				h.encrypt(sa)
				h.encrypt(sb)
				h.decrypt(h.openSess(fb, "P"), first, "other-factory")
				// "new keys are created, persisted and used": whatever each process ended up encrypting under is in the
				// store, so a process that has none of these keys cached reads every record
				for _, rc := range append([]*rec(nil), h.recs...) {
					h.decryptFresh(rc)
				}
			})
		}
	}
}

// matrixC05: fill a cache, flip a key in the raw store at a chosen offset, optionally let another process rotate,
// then encrypt through the long-lived session every R/4 for 4R.
func matrixC05(t *testing.T, r *ev.Run) {
	matrixC05R(t, r, 5*time.Minute)
	// a zero revoke-check interval: every use re-checks the key, so a revocation takes effect on the next encrypt
	// after a later creation stamp has become available
	matrixC05R(t, r, 0)
	// the same matrix end to end over the DynamoDB and SQL plug-ins (the revocation is an out-of-band update of the item / row)
	for _, be := range []string{"dynamodb-v1", "dynamodb-v2", "sql"} {
		scriptedBackend = be
		matrixC05R(t, r, 5*time.Minute)
		scriptedBackend = "memory"
	}
	// F11 reproduction: SK revoked long ago, cold cache decrypts then encrypts.
	E, R, P := 10*time.Hour, 5*time.Minute, time.Minute
	scripted(t, r, "c05/f11-decrypt-seeds-latest", OC05, E, R, P, func(h *hist) {
		time.Sleep(23 * time.Second)
		fa := h.factWith(matrixCfgs()[0].cfg)
		s := h.openSess(fa, "P")
		h.encrypt(s)
		cur := h.recs[0]
		row := h.w.Raw(cur.drr.Key.ParentKeyMeta.ID, cur.drr.Key.ParentKeyMeta.Created)
		h.w.Revoke(row.ParentKeyMeta.ID, row.ParentKeyMeta.Created, time.Now())
		h.logf("REVOKE latest-SK (%s,%d)", row.ParentKeyMeta.ID, row.ParentKeyMeta.Created)
		time.Sleep(10 * R)
		fb := h.factWith(matrixCfgs()[0].cfg)
		cs := h.openSess(fb, "P")
		h.decrypt(cs, cur, "fresh-factory")
		h.encrypt(cs)
	})
}

func matrixC05R(t *testing.T, r *ev.Run, R time.Duration) {
	E, P := 10*time.Hour, time.Minute
	offsets := []time.Duration{0, R / 2, R - time.Nanosecond, R + time.Nanosecond, 3 * R}
	step := R / 4
	if R == 0 {
		offsets = []time.Duration{0, 7 * time.Second}
		step = P / 3
	}
	for ci, nc := range matrixCfgs() {
		if scriptedBackend != "memory" && ci != 0 && nc.name != "no-cache" {
			continue
		}
		for _, which := range []string{"latest-IK", "latest-SK", "older-IK", "older-SK"} {
			for _, off := range offsets {
				for _, variant := range []int{0, 1, 2, 3, 4} {
					otherRotates := variant == 1
					faulty := variant == 2 // a transient read error hits the periodic re-check once per interval
					// variant 3: for the whole time after the revocation the KMS cannot wrap new system keys (unwrapping
					// and the metastore work): encrypts may fail, but none may succeed under the revoked key
					cannotWrap := variant == 3
					if cannotWrap && (scriptedBackend != "memory" || (which != "latest-SK" && which != "latest-IK")) {
						continue
					}
					name := fmt.Sprintf("c05/%s/R=%s/%s/%s/offset=%s/other=%v/faulty=%v/kms-cannot-wrap=%v", scriptedBackend, R, nc.name, which, off, otherRotates, faulty, cannotWrap)
					// variant 4: the keys were created by another process two precision units before the long-lived session
					// cached them, so a replacement is creatable from the moment of the flip and the bound is sharp: one
					// interval after the flip (for a key flagged the moment it was cached) the cached copy is stale
					earlier := variant == 4
					if earlier && (scriptedBackend != "memory" || off != 0 || R == 0 || (which != "latest-SK" && which != "latest-IK")) {
						continue
					}
					if earlier {
						name += "/keys-created-earlier"
					}
					scripted(t, r, name, OC05|OC01, E, R, P, func(h *hist) {
						time.Sleep(23 * time.Second)
						if earlier {
							fp := h.factWith(nc.cfg)
							h.encrypt(h.openSess(fp, "P"))
							h.closeFact(fp)
							time.Sleep(2*P + 7*time.Second)
						}
						fa := h.factWith(nc.cfg)
						s := h.openSess(fa, "P")
						if which == "older-IK" || which == "older-SK" {
							// make a first generation that is later superseded by expiry
							h.encrypt(s)
							time.Sleep(E + 2*P)
						}
						h.encrypt(s) // cache filled now
						first := h.recs[0]
						cur := h.recs[len(h.recs)-1]
						time.Sleep(off)
						var id string
						var created int64
						switch which {
						case "latest-IK":
							id, created = cur.drr.Key.ParentKeyMeta.ID, cur.drr.Key.ParentKeyMeta.Created
						case "latest-SK":
							row := h.w.Raw(cur.drr.Key.ParentKeyMeta.ID, cur.drr.Key.ParentKeyMeta.Created)
							id, created = row.ParentKeyMeta.ID, row.ParentKeyMeta.Created
						case "older-IK":
							id, created = first.drr.Key.ParentKeyMeta.ID, first.drr.Key.ParentKeyMeta.Created
						case "older-SK":
							row := h.w.Raw(first.drr.Key.ParentKeyMeta.ID, first.drr.Key.ParentKeyMeta.Created)
							id, created = row.ParentKeyMeta.ID, row.ParentKeyMeta.Created
						}
						if !h.w.Revoke(id, created, time.Now()) {
							h.violate("matrix-setup", "could not revoke (%s,%d)", id, created)
							return
						}
						h.logf("REVOKE %s (%s,%d)", which, id, created)
						r.Count("matrix_revocations_"+which, 1)
						if otherRotates {
							time.Sleep(P) // a later stamp is creatable for the other process
							fb := h.factWith(nc.cfg)
							bs := h.openSess(fb, "P")
							h.encrypt(bs)
						}
						flipped := time.Now()
						for i := 0; i < 16; i++ {
							if i == 4 && R > 0 && !faulty && !cannotWrap {
								// ... and right after one interval has passed since the flip (for a key flagged the moment it
								// was cached that is the first instant at which the cached copy counts as stale): the bound is
								// one interval, not one interval and a bit
								for _, eps := range []time.Duration{time.Microsecond, R / 100, R / 40, R / 15} {
									if at := flipped.Add(R + eps); at.After(time.Now()) {
										time.Sleep(time.Until(at))
										h.encrypt(s)
									}
								}
								if at := flipped.Add(5 * step); at.After(time.Now()) {
									time.Sleep(time.Until(at))
								}
							} else {
								time.Sleep(step)
							}
							// the first re-check of the cached key after the flip meets a transient read error
							// (armed on every encrypt until one read actually happens and fails)
							from := h.w.MS.N()
							if faulty {
								h.w.MS.ReadFaultIn = 1
								h.p.FaultPct = -1 // faults are placed by the scenario
							}
							if cannotWrap {
								h.w.KMS.FailEncrypts = 8
								h.p.FaultPct = -1
							}
							h.encrypt(s)
							h.w.MS.ReadFaultIn = 0
							for _, c := range h.w.MS.CallsFrom(from) {
								if c.Fault != "" {
									faulty = false
									r.Count("matrix_recheck_faults_fired", 1)
								}
							}
							if i%5 == 0 {
								h.decrypt(s, first, "same-factory")
								h.decrypt(s, cur, "same-factory")
							}
							if h.failed {
								return
							}
						}
					})
				}
			}
		}
	}
}
