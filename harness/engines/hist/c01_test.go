package hist

import (
	"bytes"
	"context"
	"fmt"
	"github.com/godaddy/asherah/go/appencryption"
	"os"
	"runtime"
	"sync"
	"sync/atomic"
	"testing"
	"time"
	"verif/harness/probe"
	"verif/harness/world"

	"verif/harness/ev"
)

func journal(s string) {
	if p := os.Getenv("VERIF_JOURNAL"); p != "" {
		f, err := os.OpenFile(p, os.O_APPEND|os.O_WRONLY|os.O_CREATE, 0o644)
		if err == nil {
			fmt.Fprintln(f, s)
			f.Close()
		}
	}
}

func runMany(t *testing.T, r *ev.Run, n int, p Params, salt int64) {
	if hs := os.Getenv("VERIF_HIST_SEED"); hs != "" {
		// replay of one history (use the tier the witness was produced with)
		var seed int64
		fmt.Sscan(hs, &seed)
		runHistory(t, r, seed, p)
		return
	}
	fails := 0
	for i := 0; i < n; i++ {
		seed := ev.Seed()*1_000_003 + salt*7919 + int64(i)
		journal(fmt.Sprintf("history seed=%d salt=%d", seed, salt))
		if runHistory(t, r, seed, p) {
			fails++
			if fails >= 5 {
				break
			}
		}
	}
}

func TestC01(t *testing.T) {
	r := ev.Start("C01", "exploration")
	r.Rule("seeded random histories (encrypt/store, decrypt/load through the same factory, another live factory or a brand-new one, session open/close, factory restart with a new cache policy, clock advances placed around precision / revoke-interval / lifetime boundaries, out-of-band revocation of latest and older IK/SK rows) over one monitored metastore+KMS inside a testing/synctest bubble; every decrypt is compared with the recorded payload and a final sweep decrypts every record through a fresh factory; two histories in five run over a DynamoDB plug-in on the semantic fake. Plus real-goroutine rounds in which 6 cold factories encrypt for the same new partition at once over each back end (their key inserts are held at a barrier so that they overlap) and a cold factory decrypts every record afterwards. A history is distinct+non-trivial when it produced more IK generations than partitions (a rotation happened) or contained a revocation.")
	r.Assume("virtual clock = testing/synctest bubble", "in-memory metastore and static KMS stand in for real ones", "all factories of one world share expire/revoke/precision timing; cache configuration is drawn per factory")
	runMany(t, r, ev.Pick(300, 2500), Params{Oracles: OC01, Steps: ev.Pick(80, 400), MaxFacts: 3, BigPayloads: ev.Thorough(), ClockBias: 15, RevokeBias: 8, LatencyPct: 8, FaultPct: 25}, 1)
	concurrentCreators(t, r)
	r.Finish(t)
}

// concurrentCreators: several cold processes (factories) encrypt for one brand-new partition at the same moment,
// with real goroutines over the real metastore implementation; the monitor's gate holds every key insert at a
// barrier until all processes that are going to insert have arrived (or a short real-time wait is over - the wait
// only tightens the overlap, it decides nothing). Every record returned must decrypt through a cold factory.
func concurrentCreators(t *testing.T, r *ev.Run) {
	rounds := ev.Pick(60, 1200)
	const procs = 6
	for _, be := range world.Backends {
		w := world.NewOn("memguard", be)
		w.MS.Drop, w.AEAD.Drop = true, true
		w.Led.NoHash = true
		var arrived atomic.Int32
		w.MS.PreInner = func(c *probe.MSCall) {
			arrived.Add(1)
			for i := 0; i < 20000 && arrived.Load()%procs != 0; i++ {
				runtime.Gosched()
			}
		}
		ctx := context.Background()
		cfg := world.Default(time.Hour, time.Hour, time.Minute)
		type out struct {
			d  *appencryption.DataRowRecord
			pl []byte
		}
		bad := 0
		for round := 0; round < rounds && bad < 3; round++ {
			part := fmt.Sprintf("newpart-%d", round)
			journal(fmt.Sprintf("C01 concurrent creators backend=%s round=%d", be, round))
			arrived.Store(0)
			outs := make([]out, procs)
			facts := make([]*appencryption.SessionFactory, procs)
			for i := range facts {
				facts[i] = w.Factory(cfg, fmt.Sprintf("svc%d", round%3), "prod")
			}
			var wg sync.WaitGroup
			start := make(chan struct{})
			for i := 0; i < procs; i++ {
				i := i
				wg.Add(1)
				go func() {
					defer wg.Done()
					s, err := facts[i].GetSession(part)
					if err != nil {
						return
					}
					defer s.Close()
					<-start
					pl := []byte(fmt.Sprintf("payload of process %d in round %d", i, round))
					d, err := s.Encrypt(ctx, pl)
					if err == nil {
						outs[i] = out{d, pl}
					} else {
						r.Violation("encrypt-failed-without-fault", fmt.Sprintf("concurrent creators (%s), round %d: process %d: %v", be, round, i, err), nil)
					}
				}()
			}
			close(start)
			wg.Wait()
			for _, f := range facts {
				f.Close()
			}
			cold := w.Factory(cfg, fmt.Sprintf("svc%d", round%3), "prod")
			cs, _ := cold.GetSession(part)
			for i, o := range outs {
				if o.d == nil {
					continue
				}
				got, err := cs.Decrypt(ctx, *world.CopyDRR(o.d))
				r.Eval(1)
				if err != nil || !bytes.Equal(got, o.pl) {
					bad++
					r.Violation("c01-decrypt-error", fmt.Sprintf("concurrent creators (%s), round %d: the record returned to process %d does not decrypt in a cold process: %v", be, round, i, err), map[string]any{"engine": "hist/concurrent-creators", "backend": be, "round": round})
				}
			}
			cs.Close()
			cold.Close()
			r.Count("concurrent_creator_rounds", 1)
		}
		if a := w.Audit(); a != "" {
			r.Violation("store-row-mutated", fmt.Sprintf("concurrent creators (%s): %s", be, a), nil)
		}
		w.Close()
	}
}
