package hist

import (
	"bytes"
	"context"
	"fmt"
	"os"
	"strings"
	"testing"
	"testing/synctest"
	"time"

	"github.com/godaddy/asherah/go/appencryption"

	"verif/harness/creators"
	"verif/harness/ev"
	"verif/harness/world"
)

func journal(s string) {
	if p := os.Getenv("VERIF_JOURNAL"); p != "" {
		f, err := os.OpenFile(p, os.O_APPEND|os.O_WRONLY|os.O_CREATE, 0o644)
		if err == nil {
			fmt.Fprintln(f, s)
			f.Close()
		}
	}
}

func runMany(t *testing.T, r *ev.Run, n int, p Params, salt int64) {
	if hs := os.Getenv("VERIF_HIST_SEED"); hs != "" {
		// replay of one history (use the tier the witness was produced with)
		var seed int64
		fmt.Sscan(hs, &seed)
		runHistory(t, r, seed, p)
		return
	}
	fails := 0
	for i := 0; i < n; i++ {
		seed := ev.Seed()*1_000_003 + salt*7919 + int64(i)
		journal(fmt.Sprintf("history seed=%d salt=%d", seed, salt))
		if runHistory(t, r, seed, p) {
			fails++
			if fails >= 5 {
				break
			}
		}
	}
}

func TestC01(t *testing.T) {
	r := ev.Start("C01", "exploration")
	r.Rule("seeded random histories (encrypt/store, decrypt/load through the same factory, another live factory or a brand-new one, session open/close, factory restart with a new cache policy, clock advances placed around precision / revoke-interval / lifetime boundaries, out-of-band revocation of latest and older IK/SK rows) over one monitored metastore+KMS inside a testing/synctest bubble; every decrypt is compared with the recorded payload and a final sweep decrypts every record through a fresh factory; two histories in five run over a DynamoDB plug-in on the semantic fake. Plus real-goroutine rounds in which 6 cold factories encrypt for the same new partition at once over each back end (their key inserts are held at a barrier so that they overlap) and a cold factory decrypts every record afterwards. A migration scenario writes records without region-suffixed ids, then with the suffix of one and of another region, and reads all of them back in every later configuration. A history is distinct+non-trivial when it produced more IK generations than partitions (a rotation happened) or contained a revocation.")
	r.Assume("virtual clock = testing/synctest bubble", "in-memory metastore and static KMS stand in for real ones", "all factories of one world share expire/revoke/precision timing; cache configuration is drawn per factory")
	runMany(t, r, ev.Pick(300, 2500), Params{Oracles: OC01, Steps: ev.Pick(80, 400), MaxFacts: 3, BigPayloads: ev.Thorough(), ClockBias: 15, RevokeBias: 8, LatencyPct: 8, FaultPct: 25}, 1)
	creators.Run(r, "C01", ev.Pick(60, 1200), journal)
	suffixMigration(t, r)
	regionalKMS(t, r)
	r.Finish(t)
}

// regionalKMS: the factories share the metastore and "the KMS" - here the AWS KMS plug-in (v1 and v2 client) over a
// two-region cloud. Records written while both regions are up must decrypt in a process of the other region, and in
// any process while either one of the two regions is unreachable (that is what the multi-region envelope is for).
func regionalKMS(t *testing.T, r *ev.Run) {
	for _, version := range []int{1, 2} {
		for _, cfgName := range []string{"default", "nocache", "nocache/dynamodb-v1", "nocache/dynamodb-v2", "default/sql", "nocache/partial-envelope"} {
			backend := "memory"
			// partial envelope: while the system key is created the writers' own region can neither generate nor wrap a
			// data key, so the envelope has an entry for the other region only; later readers that prefer the writers'
			// region find no entry for it and use the other one
			partial := strings.HasSuffix(cfgName, "/partial-envelope")
			if partial {
				cfgName = "nocache/memory"
			}
			if i := strings.IndexByte(cfgName, '/'); i > 0 {
				// the plug-in's variable-length envelope stored through a real metastore plug-in
				cfgName, backend = cfgName[:i], cfgName[i+1:]
			}
			name := fmt.Sprintf("regional-kms/v%d/%s/%s", version, cfgName, backend)
			journal("C01 " + name)
			func() {
				defer func() {
					if pv := recover(); pv != nil {
						r.Violation("sdk-panic", fmt.Sprintf("%s: %v", name, pv), nil)
					}
				}()
				synctest.Test(t, func(t *testing.T) {
					w := world.NewOn("memguard", backend)
					w.UseAWSKMS(version)
					defer w.Close()
					time.Sleep(41 * time.Second)
					ctx := context.Background()
					cfg := world.Default(24*time.Hour, time.Hour, time.Minute)
					if cfgName == "nocache" {
						cfg.CacheIK, cfg.CacheSK = false, false
					}
					type item struct {
						part string
						d    *appencryption.DataRowRecord
						pl   []byte
					}
					var items []item
					fw := w.Factory(cfg, "svc", "prod")
					if partial {
						name += "/partial-envelope"
						w.Cloud.Regions[world.AWSRegions[0]].FailGenerate = true
						w.Cloud.Regions[world.AWSRegions[0]].FailEncrypt = true
						s0, _ := fw.GetSession("warm")
						if _, err := s0.Encrypt(ctx, []byte("creates the system key")); err != nil {
							r.Violation("encrypt-failed-without-fault", fmt.Sprintf("%s: with one of two regions unable to wrap, encrypt failed: %v", name, err), nil)
						}
						s0.Close()
						w.Cloud.Regions[world.AWSRegions[0]].FailGenerate = false
						w.Cloud.Regions[world.AWSRegions[0]].FailEncrypt = false
					}
					for i, part := range []string{"P", "Q", "P"} {
						s, _ := fw.GetSession(part)
						pl := []byte(fmt.Sprintf("payload %d of %s", i, part))
						d, err := s.Encrypt(ctx, pl)
						if err != nil {
							r.Violation("encrypt-failed-without-fault", fmt.Sprintf("%s: %v", name, err), nil)
						} else {
							items = append(items, item{part, world.CopyDRR(d), pl})
						}
						s.Close()
					}
					readAll := func(who string, f *appencryption.SessionFactory, down string) {
						for _, it := range items {
							s, _ := f.GetSession(it.part)
							out, err := s.Decrypt(ctx, *world.CopyDRR(it.d))
							r.Eval(1)
							if err != nil || !bytes.Equal(out, it.pl) {
								r.Violation("c01-decrypt-error", fmt.Sprintf("%s: %s cannot decrypt a record of %q while region %q is unreachable: %v", name, who, it.part, down, err),
									map[string]any{"engine": "hist/regional-kms", "reader": who, "down": down})
							}
							s.Close()
						}
					}
					for _, down := range []string{"", world.AWSRegions[0], world.AWSRegions[1]} {
						if partial && down == world.AWSRegions[1] {
							continue // the only region the envelope has an entry for: nothing could unwrap it then
						}
						if down != "" {
							w.Cloud.Regions[down].FailDecrypt = true
						}
						f1 := w.Factory(cfg, "svc", "prod") // a process in the writers' region, nothing cached
						readAll("a new process in the writers' region", f1, down)
						f1.Close()
						f2 := w.FreshFactory(cfg, "svc", "prod") // a process that prefers the other region
						readAll("a new process in the other region", f2, down)
						f2.Close()
						if down != "" {
							w.Cloud.Regions[down].FailDecrypt = false
						}
					}
					fw.Close()
					r.Distinct(name)
					r.Count("regional_kms_scenarios", 1)
				})
			}()
		}
	}
}

// suffixMigration: records written by processes that do not use region-suffixed key ids must still decrypt after
// the deployment has switched the region suffix on (the suffixed partition accepts the legacy ids), in any region,
// and records written with a suffix decrypt in every other region; for several service/product/partition shapes.
func suffixMigration(t *testing.T, r *ev.Run) {
	type shape struct{ svc, prod, part string }
	for _, sh := range []shape{{"svc", "prod", "P"}, {"checkout", "payments", "tenant-7"}, {"a_b", "c", "x_y"}, {"s", "s", "s"}} {
		name := fmt.Sprintf("suffix-migration/%s/%s/%s", sh.svc, sh.prod, sh.part)
		journal("C01 " + name)
		func() {
			defer func() {
				if pv := recover(); pv != nil {
					r.Violation("sdk-panic", fmt.Sprintf("%s: %v", name, pv), nil)
				}
			}()
			synctest.Test(t, func(t *testing.T) {
				w := world.New("memguard")
				defer w.Close()
				time.Sleep(33 * time.Second)
				ctx := context.Background()
				cfg := world.Default(24*time.Hour, time.Hour, time.Minute)
				type item struct {
					d      *appencryption.DataRowRecord
					pl     []byte
					suffix string
				}
				var items []item
				write := func(suffix string) {
					w.Suffix = suffix
					f := w.Factory(cfg, sh.svc, sh.prod)
					s, _ := f.GetSession(sh.part)
					pl := []byte(fmt.Sprintf("written with suffix %q", suffix))
					d, err := s.Encrypt(ctx, pl)
					if err != nil {
						r.Violation("encrypt-failed-without-fault", fmt.Sprintf("%s: encrypt with suffix %q: %v", name, suffix, err), nil)
					} else {
						items = append(items, item{world.CopyDRR(d), pl, suffix})
					}
					s.Close()
					f.Close()
				}
				read := func(suffix string) {
					w.Suffix = suffix
					f := w.Factory(cfg, sh.svc, sh.prod)
					s, _ := f.GetSession(sh.part)
					for _, it := range items {
						if suffix == "" && it.suffix != "" {
							continue // a process without the suffix option does not claim to read suffixed ids
						}
						out, err := s.Decrypt(ctx, *world.CopyDRR(it.d))
						r.Eval(1)
						if err != nil || !bytes.Equal(out, it.pl) {
							r.Violation("c01-decrypt-error", fmt.Sprintf("%s: a record written with region suffix %q does not decrypt in a process with region suffix %q: %v", name, it.suffix, suffix, err), map[string]any{"engine": "hist/suffix-migration", "written": it.suffix, "read": suffix})
						}
					}
					s.Close()
					f.Close()
				}
				write("") // legacy deployment
				read("")
				time.Sleep(2 * time.Minute)
				write("us-west-2") // the suffix is switched on
				read("us-west-2")
				read("eu-west-1") // another region of the global table
				write("eu-west-1")
				read("us-west-2")
				read("eu-west-1")
				w.Suffix = ""
				r.Distinct(name)
			})
		}()
	}
}
