package hist

import (
	"fmt"
	"os"
	"testing"

	"verif/harness/creators"
	"verif/harness/ev"
)

func journal(s string) {
	if p := os.Getenv("VERIF_JOURNAL"); p != "" {
		f, err := os.OpenFile(p, os.O_APPEND|os.O_WRONLY|os.O_CREATE, 0o644)
		if err == nil {
			fmt.Fprintln(f, s)
			f.Close()
		}
	}
}

func runMany(t *testing.T, r *ev.Run, n int, p Params, salt int64) {
	if hs := os.Getenv("VERIF_HIST_SEED"); hs != "" {
		// replay of one history (use the tier the witness was produced with)
		var seed int64
		fmt.Sscan(hs, &seed)
		runHistory(t, r, seed, p)
		return
	}
	fails := 0
	for i := 0; i < n; i++ {
		seed := ev.Seed()*1_000_003 + salt*7919 + int64(i)
		journal(fmt.Sprintf("history seed=%d salt=%d", seed, salt))
		if runHistory(t, r, seed, p) {
			fails++
			if fails >= 5 {
				break
			}
		}
	}
}

func TestC01(t *testing.T) {
	r := ev.Start("C01", "exploration")
	r.Rule("seeded random histories (encrypt/store, decrypt/load through the same factory, another live factory or a brand-new one, session open/close, factory restart with a new cache policy, clock advances placed around precision / revoke-interval / lifetime boundaries, out-of-band revocation of latest and older IK/SK rows) over one monitored metastore+KMS inside a testing/synctest bubble; every decrypt is compared with the recorded payload and a final sweep decrypts every record through a fresh factory; two histories in five run over a DynamoDB plug-in on the semantic fake. Plus real-goroutine rounds in which 6 cold factories encrypt for the same new partition at once over each back end (their key inserts are held at a barrier so that they overlap) and a cold factory decrypts every record afterwards. A history is distinct+non-trivial when it produced more IK generations than partitions (a rotation happened) or contained a revocation.")
	r.Assume("virtual clock = testing/synctest bubble", "in-memory metastore and static KMS stand in for real ones", "all factories of one world share expire/revoke/precision timing; cache configuration is drawn per factory")
	runMany(t, r, ev.Pick(300, 2500), Params{Oracles: OC01, Steps: ev.Pick(80, 400), MaxFacts: 3, BigPayloads: ev.Thorough(), ClockBias: 15, RevokeBias: 8, LatencyPct: 8, FaultPct: 25}, 1)
	creators.Run(r, "C01", ev.Pick(60, 1200), journal)
	r.Finish(t)
}

