package hist

import (
	"context"
	"encoding/hex"
	"encoding/json"
	"fmt"
	"os"
	"os/exec"
	"path/filepath"
	"testing"
	"time"

	"github.com/godaddy/asherah/go/appencryption"

	"verif/harness/ev"
	"verif/harness/world"
)

// restartFile is what one process life leaves behind: the metastore rows (the next life starts from them) and every
// (key fingerprint, nonce) pair its AEAD encryptions used.
type restartFile struct {
	Rows  []restartRow `json:"rows"`
	Pairs [][2]string  `json:"pairs"`
}

type restartRow struct {
	ID      string                           `json:"id"`
	Created int64                            `json:"created"`
	Rec     *appencryption.EnvelopeKeyRecord `json:"rec"`
}

// TestC03Child is one process life of restartNonces (re-executed test binary); it is skipped in normal runs.
func TestC03Child(t *testing.T) {
	dir := os.Getenv("VERIF_C03_CHILD")
	if dir == "" {
		t.Skip("helper process of TestC03")
	}
	var prev restartFile
	if b, err := os.ReadFile(filepath.Join(dir, "state.json")); err == nil {
		if err := json.Unmarshal(b, &prev); err != nil {
			t.Fatal(err)
		}
	}
	w := world.New(os.Getenv("VERIF_C03_IMPL"))
	defer w.Close()
	ctx := context.Background()
	for _, row := range prev.Rows {
		if ok, err := w.Mem.Store(ctx, row.ID, row.Created, row.Rec); !ok || err != nil {
			t.Fatalf("restoring row %s: %v %v", row.ID, ok, err)
		}
	}
	f := w.Factory(world.Default(24*time.Hour, time.Hour, time.Minute), "svc", "prod")
	for _, part := range []string{"p0", "p1", "p2"} {
		s, err := f.GetSession(part)
		if err != nil {
			t.Fatal(err)
		}
		for i := 0; i < 12; i++ {
			if _, err := s.Encrypt(ctx, []byte(fmt.Sprintf("payload %s %d", part, i))); err != nil {
				t.Fatal(err)
			}
		}
		s.Close()
	}
	f.Close()
	out := restartFile{}
	for _, row := range w.Rows() {
		out.Rows = append(out.Rows, restartRow{row.ID, row.Created, row.Rec})
	}
	for _, c := range w.AEAD.CallsFrom(0) {
		if c.Op == 'E' && c.OK {
			out.Pairs = append(out.Pairs, [2]string{hex.EncodeToString(c.Key[:]), hex.EncodeToString(c.Nonce[:])})
		}
	}
	b, _ := json.Marshal(out)
	if err := os.WriteFile(filepath.Join(dir, "state.json"), b, 0o600); err != nil {
		t.Fatal(err)
	}
}

// restartNonces: nonce and data-key freshness across process lives. The test binary is re-executed several times;
// every life starts from the metastore rows the previous one left (so the long-lived intermediate and system keys
// are the same), encrypts a fixed workload and reports the (key, nonce) pairs of its AEAD encryptions. No pair and
// no nonce may occur in two lives (or twice in one): a nonce source that restarts with the process - a counter, a
// deterministically seeded generator - repeats under the persisted keys.
func restartNonces(t *testing.T, r *ev.Run) {
	lives := ev.Pick(3, 6)
	for _, impl := range []string{"memguard", "protectedmemory"} {
		dir, err := os.MkdirTemp(filepath.Join(ev.Root, "logs"), "c03-restart-")
		if err != nil {
			r.Inconclusive("restart scenario: cannot create a scratch directory: " + err.Error())
			return
		}
		seenPair := map[[2]string]int{}
		seenNonce := map[string]int{}
		prevPairs := 0
		for life := 0; life < lives; life++ {
			journal(fmt.Sprintf("C03 restart impl=%s life=%d", impl, life))
			ctx, cancel := context.WithTimeout(context.Background(), 5*time.Minute)
			cmd := exec.CommandContext(ctx, os.Args[0], "-test.run=^TestC03Child$", "-test.count=1")
			cmd.Env = append(os.Environ(), "VERIF_C03_CHILD="+dir, "VERIF_C03_IMPL="+impl)
			outb, err := cmd.CombinedOutput()
			cancel()
			if err != nil {
				r.Inconclusive(fmt.Sprintf("restart scenario: process life %d failed to run: %v: %s", life, err, tail(string(outb), 300)))
				os.RemoveAll(dir)
				return
			}
			var st restartFile
			b, _ := os.ReadFile(filepath.Join(dir, "state.json"))
			if err := json.Unmarshal(b, &st); err != nil || len(st.Pairs) == 0 {
				r.Inconclusive(fmt.Sprintf("restart scenario: process life %d left no usable state: %v", life, err))
				os.RemoveAll(dir)
				return
			}
			r.Eval(1)
			r.Count("restart_process_lives", 1)
			r.Count("restart_aead_encryptions", int64(len(st.Pairs)))
			for _, p := range st.Pairs {
				if prev, ok := seenPair[p]; ok {
					r.Violation("c03-key-nonce-pair-repeated-across-restart", fmt.Sprintf("%s: process life %d used (key %s.., nonce %s) which process life %d had already used", impl, life, p[0][:12], p[1], prev), map[string]any{"engine": "hist/restart", "impl": impl, "life": life})
					break
				}
				seenPair[p] = life
			}
			for _, p := range st.Pairs {
				if prev, ok := seenNonce[p[1]]; ok {
					r.Violation("c03-nonce-repeated", fmt.Sprintf("%s: nonce %s used in process life %d had already been used in life %d", impl, p[1], life, prev), map[string]any{"engine": "hist/restart", "impl": impl, "life": life})
					break
				}
				seenNonce[p[1]] = life
			}
			if life > 0 && len(st.Pairs) >= prevPairs && prevPairs > 0 && life == 1 {
				// the second life must have re-used the persisted keys: it creates no new system/intermediate keys, so
				// it performs fewer key-wrapping encryptions than the first
				r.Count("restart_lives_that_created_keys_again", 1)
			}
			prevPairs = len(st.Pairs)
			r.Distinct(fmt.Sprintf("restart|%s|%d", impl, life))
		}
		os.RemoveAll(dir)
	}
}

func tail(s string, n int) string {
	if len(s) > n {
		return s[len(s)-n:]
	}
	return s
}
