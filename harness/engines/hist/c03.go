package hist

import (
	"bytes"
	"crypto/sha256"
	"encoding/json"
	"fmt"
	"strings"

	"github.com/godaddy/asherah/go/appencryption"

	"verif/harness/probe"
)

// encCtx is the context of the public Encrypt call during which AEAD.Encrypt calls are typed.
type encCtx struct {
	s       *sess
	label   string
	payload []byte
	drr     *appencryption.DataRowRecord
	msFrom  int
	failed  bool // the public call returned an error (after an injected fault): there is no record to compare with
}

type c03state struct {
	aeadDone         int
	kmsDone          int
	ledDone          int
	sk               map[[32]byte]bool
	ik               map[[32]byte]string            // plaintext hash -> "id|created" ("" while the row is not known yet)
	ikCipher         map[[32]byte][32]byte          // ciphertext hash -> IK plaintext hash (wrap output)
	ikCiphers        map[[32]byte]map[[32]byte]bool // IK plaintext hash -> ciphertexts it was wrapped as / unwrapped from
	bytes            map[[32]byte][]byte
	random           map[[32]byte]string // CreateRandom secret hash -> op label it was created in
	drkUsed          map[[32]byte]int
	nonces           map[[12]byte]int
	longKeys         [][]byte // SK / IK plaintexts
	recent           [][]byte // DRK plaintexts of the last few operations
	scanned          int64
	formCache        map[*byte][][]byte
	lastPayload      *byte
	lastPayloadForms [][]byte
	artefacts        int64
}

func newC03() *c03state {
	return &c03state{bytes: map[[32]byte][]byte{}, sk: map[[32]byte]bool{}, ik: map[[32]byte]string{}, ikCipher: map[[32]byte][32]byte{}, ikCiphers: map[[32]byte]map[[32]byte]bool{}, random: map[[32]byte]string{}, drkUsed: map[[32]byte]int{}, nonces: map[[12]byte]int{}}
}

// c03Advance consumes every monitor event since the previous call, maintains the key-role provenance and
// types every AEAD.Encrypt call against the envelope hierarchy. ctx is nil outside a public Encrypt call.
func (h *hist) c03Advance(ctx *encCtx) {
	st := h.c3
	// secrets created since last time
	for _, sr := range h.w.Led.RecsFrom(st.ledDone) {
		if sr.Creator == "random" {
			st.random[sr.Hash] = sr.Op
		}
		if sr.Bytes != nil {
			st.bytes[sr.Hash] = sr.Bytes
		}
	}
	st.ledDone = h.w.Led.Len()
	// KMS calls: everything the KMS wrapped or unwrapped is a system key
	kc := h.w.KMS.Calls()
	for _, c := range kc[st.kmsDone:] {
		if c.Err == "" {
			if !st.sk[c.Full] {
				st.sk[c.Full] = true
				if b := h.bytesOf(c.Full); b != nil {
					st.longKeys = append(st.longKeys, b)
				}
			}
		}
	}
	st.kmsDone = len(kc)

	payloadEncs := 0
	for _, c := range h.w.AEAD.CallsFrom(st.aeadDone) {
		st.aeadDone = c.Idx + 1
		if !c.OK {
			continue
		}
		if c.Op == 'D' {
			if st.sk[c.Key] { // IK unwrapped with an SK
				if st.ikCiphers[c.PlainFull] == nil {
					st.ikCiphers[c.PlainFull] = map[[32]byte]bool{}
				}
				st.ikCiphers[c.PlainFull][c.Cipher] = true
				if _, ok := st.ik[c.PlainFull]; !ok {
					st.ik[c.PlainFull] = h.rowOfCipher(c.Cipher)
					if b := h.bytesOf(c.PlainFull); b != nil {
						st.longKeys = append(st.longKeys, b)
					}
				}
			}
			continue
		}
		h.r.Count("c03_aead_encrypt_events", 1)
		st.nonces[c.Nonce]++
		if st.nonces[c.Nonce] > 1 {
			h.violate("c03-nonce-repeated", "nonce %x was used by %d encryptions", c.Nonce, st.nonces[c.Nonce])
		}
		if c.KeyLen != 32 {
			h.violate("c03-key-size", "AEAD.Encrypt called with a %d-byte key", c.KeyLen)
		}
		if ctx == nil {
			h.violate("c03-encrypt-outside-encrypt", "AEAD.Encrypt was called outside a public Encrypt/Store call")
			continue
		}
		psum := sha256.Sum256(ctx.payload)
		switch {
		case st.sk[c.Key]:
			// only a freshly generated intermediate key may be wrapped by a system key
			if op, ok := st.random[c.PlainFull]; !ok || op != ctx.label {
				h.violate("c03-sk-wraps-non-ik", "%s: a system key encrypted %d bytes that are not an intermediate key generated in this call", ctx.label, c.DataLen)
			} else {
				st.ik[c.PlainFull] = "" // row learned below from the Store call
				st.ikCipher[c.Cipher] = c.PlainFull
				if st.ikCiphers[c.PlainFull] == nil {
					st.ikCiphers[c.PlainFull] = map[[32]byte]bool{}
				}
				st.ikCiphers[c.PlainFull][c.Cipher] = true
				if b := h.bytesOf(c.PlainFull); b != nil {
					st.longKeys = append(st.longKeys, b)
				}
				h.r.Count("c03_ik_wrapped_by_sk", 1)
			}
		case func() bool { _, ok := st.ik[c.Key]; return ok }():
			// an intermediate key may only wrap the data key generated in this call
			if op, ok := st.random[c.PlainFull]; !ok || op != ctx.label || st.sk[c.PlainFull] {
				h.violate("c03-ik-wraps-non-drk", "%s: an intermediate key encrypted %d bytes that are not a data key generated in this call", ctx.label, c.DataLen)
			}
			if ctx.failed {
				continue
			}
			want := fmt.Sprintf("%s|%d", h.ikID(ctx.s.part), ctx.drr.Key.ParentKeyMeta.Created)
			if got := st.ik[c.Key]; got != "" && got != want {
				h.violate("c03-drk-under-foreign-ik", "%s: data key wrapped under IK of row %s but the record names %s", ctx.label, got, want)
			}
			// the record names (IK id, created): that stored row must be a wrapping of the very key that wrapped the DRK
			if row := h.w.Raw(ctx.drr.Key.ParentKeyMeta.ID, ctx.drr.Key.ParentKeyMeta.Created); row != nil {
				if !st.ikCiphers[c.Key][sha256.Sum256(row.EncryptedKey)] {
					h.violate("c03-drk-under-key-that-is-not-the-named-ik", "%s: the data key was wrapped under a key that is not the one stored in the row (%s,%d) the record names", ctx.label, ctx.drr.Key.ParentKeyMeta.ID, ctx.drr.Key.ParentKeyMeta.Created)
				}
			} else {
				h.violate("c03-record-names-missing-ik-row", "%s: the record names IK row (%s,%d) which is not in the metastore", ctx.label, ctx.drr.Key.ParentKeyMeta.ID, ctx.drr.Key.ParentKeyMeta.Created)
			}
			if ctx.drr.Key.ParentKeyMeta.ID != h.ikID(ctx.s.part) {
				h.violate("c03-record-names-foreign-ik", "%s: record for partition %q names IK id %q", ctx.label, ctx.s.part, ctx.drr.Key.ParentKeyMeta.ID)
			}
			if sha256.Sum256(ctx.drr.Key.EncryptedKey) != c.Cipher {
				// the wrapped DRK in the record must be what the IK produced
				h.r.Count("c03_drk_wrap_not_in_record", 1)
			}
			h.r.Count("c03_drk_wrapped_by_ik", 1)
		default:
			op, isRandom := st.random[c.Key]
			if !isRandom || op != ctx.label {
				h.violate("c03-payload-key-not-fresh", "%s: AEAD.Encrypt used a key that is neither SK, IK nor a data key generated by CreateRandom inside this call (key %x)", ctx.label, c.Key[:6])
				continue
			}
			if c.PlainFull != psum || c.DataLen != len(ctx.payload) {
				h.violate("c03-drk-encrypts-non-payload", "%s: the fresh data key encrypted %d bytes that are not the caller's payload", ctx.label, c.DataLen)
			}
			st.drkUsed[c.Key]++
			if st.drkUsed[c.Key] > 1 {
				h.violate("c03-drk-reused", "%s: data key %x used for %d payload encryptions", ctx.label, c.Key[:6], st.drkUsed[c.Key])
			}
			if !ctx.failed && sha256.Sum256(ctx.drr.Data) != c.Cipher {
				h.violate("c03-record-data-not-aead-output", "%s: record Data is not the output of the payload encryption", ctx.label)
			}
			payloadEncs++
			if b := h.bytesOf(c.Key); b != nil {
				st.recent = append(st.recent, b)
				if len(st.recent) > 8 {
					st.recent = st.recent[1:]
				}
			}
		}
	}
	if ctx != nil {
		if payloadEncs != 1 && !(ctx.failed && payloadEncs == 0) {
			h.violate("c03-payload-encryptions", "%s: %d payload encryptions under a fresh data key observed, want exactly 1", ctx.label, payloadEncs)
		}
		// learn which row each wrapped IK went to
		for _, c := range h.w.MS.CallsFrom(ctx.msFrom) {
			if c.Op == "store" && c.In != nil && strings.HasPrefix(c.ID, "_IK_") {
				if ph, ok := st.ikCipher[sha256.Sum256(c.In.EncryptedKey)]; ok && c.OK {
					st.ik[ph] = fmt.Sprintf("%s|%d", c.ID, c.Created)
				}
			}
		}
	}
}

func (h *hist) bytesOf(hash [32]byte) []byte { return h.c3.bytes[hash] }

func (h *hist) rowOfCipher(ch [32]byte) string {
	for _, row := range h.w.Rows() {
		if sha256.Sum256(row.Rec.EncryptedKey) == ch {
			return fmt.Sprintf("%s|%d", row.ID, row.Created)
		}
	}
	return ""
}

// forms returns the encodings of b searched for in artefacts.
func forms(b []byte) [][]byte { return probe.Forms(b) }

func (st *c03state) formsOf(k []byte) [][]byte {
	if st.formCache == nil {
		st.formCache = map[*byte][][]byte{}
	}
	if len(k) == 0 {
		return nil
	}
	if f, ok := st.formCache[&k[0]]; ok {
		return f
	}
	f := forms(k)
	st.formCache[&k[0]] = f
	return f
}

func (h *hist) scanArtefact(kind string, art []byte, payload []byte) {
	st := h.c3
	st.artefacts++
	st.scanned += int64(len(art))
	for _, set := range [][][]byte{st.longKeys, st.recent} {
		for _, k := range set {
			for fi, f := range st.formsOf(k) {
				if bytes.Contains(art, f) {
					h.violate("c03-key-bytes-in-"+kind, "plaintext key material (form %d) found in %s", fi, kind)
					return
				}
			}
		}
	}
	if len(payload) >= 16 {
		needle := payload
		if len(needle) > 48 {
			needle = needle[:48] // if the payload leaked, so did its first 48 bytes
		}
		if st.lastPayload == nil || &needle[0] != st.lastPayload {
			st.lastPayload, st.lastPayloadForms = &needle[0], forms(needle)
		}
		for fi, f := range st.lastPayloadForms {
			if bytes.Contains(art, f) {
				h.violate("c03-payload-bytes-in-"+kind, "plaintext payload (form %d) found in %s", fi, kind)
				return
			}
		}
	}
}

// oracleC03Scan scans what left the SDK during the last operation: log lines, stored rows, KMS requests.
func (h *hist) oracleC03Scan(label string) {
	h.c03Advance(nil)
	h.scanSideChannels(nil, h.msMark, nil)
}

func (h *hist) scanSideChannels(payload []byte, msFrom int, drr *appencryption.DataRowRecord) {
	if h.tap != nil {
		for _, line := range h.tap.Take() {
			h.scanArtefact("debug-log", []byte(line), payload)
			h.r.Count("c03_log_lines_scanned", 1)
		}
	}
	for _, c := range h.w.MS.CallsFrom(msFrom) {
		if c.Op == "store" && c.In != nil {
			j, _ := json.Marshal(c.In)
			h.scanArtefact("metastore-record", append(append([]byte(c.ID+" "), j...), c.In.EncryptedKey...), payload)
		}
	}
	h.msMark = h.w.MS.N()
	if drr != nil {
		j, _ := json.Marshal(drr)
		art := append(append(append([]byte(nil), j...), drr.Data...), drr.Key.EncryptedKey...)
		h.scanArtefact("data-row-record", art, payload)
	}
	// KMS: wrapped outputs must not contain key bytes (the system key itself is only allowed as EncryptKey input)
	kc := h.w.KMS.Calls()
	for _, c := range kc[h.kmsMark:] {
		h.scanArtefact("kms-wrapped-key", c.Wrapped, payload)
	}
	h.kmsMark = len(kc)
}

func (h *hist) oracleC03Encrypt(s *sess, rc *rec, drr *appencryption.DataRowRecord, label string, aeadFrom, ledFrom, msFrom int) {
	h.c03Advance(&encCtx{s: s, label: label, payload: rc.payload, drr: drr, msFrom: msFrom})
	h.scanSideChannels(rc.payload, msFrom, drr)
	_ = probe.ErrInjected
}
