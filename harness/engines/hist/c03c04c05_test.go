package hist

import (
	"context"
	"fmt"
	"strings"
	"sync"
	"sync/atomic"
	"testing"
	"time"

	"github.com/godaddy/asherah/go/appencryption/pkg/crypto/aead"

	"verif/harness/ev"
	"verif/harness/probe"
	"verif/harness/world"
)

func TestC03(t *testing.T) {
	r := ev.Start("C03", "exploration")
	r.Rule("seeded random histories with debug logging on; the AEAD/KMS/metastore/secret-factory monitors feed an online checker that (a) keeps the set of (key,nonce) pairs and of nonces duplicate-free, (b) derives key roles from provenance (SK = seen by the KMS, IK = wrapped/unwrapped under an SK, DRK = CreateRandom secret of the current call) and types every AEAD.Encrypt against payload<DRK<IK(partition)<SK, (c) scans every data row record, stored key record, KMS output and debug log line for every known plaintext key and payload (raw, base64, hex, decimal and Go-syntax renderings); metastore reads, KMS calls and secure-memory allocations fail transiently in the histories, and a scripted matrix fails the k-th allocation / KMS call of the first operation of a process that loads persisted keys, then keeps encrypting; and the test binary is re-executed as several consecutive process lives over the same persisted keys, whose (key, nonce) pairs must be pairwise distinct across lives; the gRPC sidecar's always-on log, captured while requests fail on injected faults, is scanned for payload and key bytes in the same renderings plus %q and protobuf-text escapes. A history is distinct+non-trivial when it rotated a key or saw a revocation.")
	r.Assume("a repeated 96-bit random nonce is treated as a violation (probability < 1e-15 over the events observed)", "StaticKMS's internal use of the AEAD is not part of the SDK's envelope and is not monitored")
	concurrentNonces(t, r)
	runMany(t, r, ev.Pick(40, 120), Params{Oracles: OC03, Steps: ev.Pick(300, 1200), MaxFacts: 3, ClockBias: 6, RevokeBias: 4, Debug: true, Parts: []string{"p0", "p1", "P0", "user_42", "üñí", "ÜÑÍ", strings.Repeat("L", 251) + "-alice", strings.Repeat("L", 251) + "-bob"}, FaultPct: 40}, 3)
	matrixC03Faults(t, r)
	restartNonces(t, r)
	sidecarLogs(t, r)
	shortEntropy(t, r)
	r.Finish(t)
}

func TestC04(t *testing.T) {
	r := ev.Start("C04", "exploration")
	r.Rule("seeded random histories in virtual time biased towards clock advances around the key lifetime, precision and revoke-check boundaries, with long-lived sessions and every cache configuration; per produced record the oracle recomputes from the record, the raw IK row, the metastore insert log and the virtual clock: (1) IK age <= ExpireKeyAfter, (2) no IK row inserted under an SK expired at that time, (3) no record under an IK whose parent SK expired more than one revoke-check interval ago; plus a deterministic state matrix (see matrix counters). Distinct+non-trivial: histories in which at least one key generation expired and was replaced.")
	r.Assume("policies satisfy ExpireKeyAfter >= 2*CreateDatePrecision (a key whose truncated birth stamp is already older than its lifetime is excluded)", "metastore accepts writes (no faults injected here)")
	runMany(t, r, ev.Pick(150, 3000), Params{Oracles: OC04, Steps: ev.Pick(120, 400), MaxFacts: 3, ClockBias: 45, RevokeBias: 3, Parts: []string{"p0", "p1", "p2"}, NoCacheFrac: 10, LatencyPct: 6, FaultPct: 40}, 4)
	matrixC04(t, r)
	matrixC04Race(t, r)
	rotateThenDecryptOld(t, r)
	f11C04(t, r)
	r.Finish(t)
}

func TestC05(t *testing.T) {
	r := ev.Start("C05", "exploration")
	r.Rule("seeded random histories in virtual time biased towards out-of-band revocations (latest/older IK and SK rows flipped in the raw store) and clock advances around the revoke-check interval, with long-lived sessions and every cache configuration; per produced record the oracle decides from the record, the raw rows, the flip log and the virtual clock whether a key flagged revoked more than the allowed number of intervals ago (1 for the IK, 2 for its parent SK, 0 without caching) is still named although a later creation stamp was creatable; C01's round-trip oracle runs alongside (records under revoked keys stay decryptable). Plus a deterministic matrix of (which key, flip offset, configuration, other process rotated). Distinct+non-trivial: histories with at least one revocation followed by a rotation.")
	r.Assume("precondition of the property encoded explicitly: a violation is only raised when now.Truncate(precision) is later than the revoked key's stamp; excused cases are counted")
	runMany(t, r, ev.Pick(150, 3000), Params{Oracles: OC05 | OC01, Steps: ev.Pick(120, 400), MaxFacts: 3, ClockBias: 30, RevokeBias: 25, Parts: []string{"p0", "p1", "p2"}, NoCacheFrac: 10, LatencyPct: 6, FaultPct: 60}, 5)
	matrixC05(t, r)
	r.Finish(t)
}

// concurrentNonces: many goroutines encrypt through sessions of one factory at once (real goroutines, no bubble);
// the AEAD monitor keeps the set of (key, nonce) pairs and of nonces: a nonce source that is not safe for concurrent
// use shows up as repeats.
func concurrentNonces(t *testing.T, r *ev.Run) {
	w := world.New("memguard")
	defer w.Close()
	w.MS.Drop, w.AEAD.Drop = true, true
	w.Led.NoHash = true
	f := w.Factory(world.Default(24*time.Hour, time.Hour, time.Minute), "svc", "prod")
	defer f.Close()
	// (a) the SDK's AEAD driven directly by 16 goroutines with one key (cheap, so many calls)
	{
		a := probe.NewAEAD(aead.NewAES256GCM())
		a.Drop = true
		key := make([]byte, 32)
		n := ev.Pick(25000, 400000)
		var wg sync.WaitGroup
		for g := 0; g < 16; g++ {
			wg.Add(1)
			go func() {
				defer wg.Done()
				pl := []byte("x")
				for i := 0; i < n; i++ {
					if _, err := a.Encrypt(pl, key); err != nil {
						return
					}
				}
			}()
		}
		wg.Wait()
		r.Count("concurrent_aead_level_encrypts", int64(16*n))
		if a.Repeats > 0 {
			r.Violation("c03-key-nonce-pair-repeated-concurrently", fmt.Sprintf("AEAD level: %d of %d concurrent encryptions under one key reused a nonce", a.Repeats, 16*n), nil)
		}
	}
	// (b) through the public API
	per := ev.Pick(800, 40000)
	var wg sync.WaitGroup
	var failed atomic.Int64
	for g := 0; g < 16; g++ {
		g := g
		wg.Add(1)
		go func() {
			defer wg.Done()
			s, err := f.GetSession(fmt.Sprintf("part%d", g%2)) // two partitions: many writers per IK
			if err != nil {
				failed.Add(1)
				return
			}
			defer s.Close()
			pl := []byte("concurrent payload")
			for i := 0; i < per; i++ {
				if _, err := s.Encrypt(context.Background(), pl); err != nil {
					failed.Add(1)
				}
			}
		}()
	}
	wg.Wait()
	r.Eval(1)
	r.Count("concurrent_encrypts", int64(16*per))
	r.Count("concurrent_aead_pairs", int64(w.AEAD.PairCount()))
	if n := failed.Load(); n > 0 {
		r.Violation("c03-concurrent-encrypt-failed", fmt.Sprintf("%d concurrent encrypts failed", n), nil)
	}
	if w.AEAD.Repeats > 0 {
		r.Violation("c03-key-nonce-pair-repeated-concurrently", fmt.Sprintf("%d of %d concurrent AEAD encryptions reused a (key, nonce) pair", w.AEAD.Repeats, 2*16*per), nil)
	}
}
