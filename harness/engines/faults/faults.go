// Package faults enumerates fault positions (metastore, KMS, AEAD, secret allocator) and metastore-call
// schedules of small scenarios executed on the real SDK in virtual time (C02, C09, C10, C14).
package faults

import (
	"bytes"
	"context"
	"fmt"
	"os"
	"sort"
	"strings"
	"testing/synctest"
	"time"
	"unsafe"

	"github.com/godaddy/asherah/go/appencryption"

	"verif/harness/ev"
	"verif/harness/probe"
	"verif/harness/world"
)

const (
	tE = time.Hour
	tR = 5 * time.Minute
	tP = time.Minute
)

type fault struct {
	Dom  string `json:"dom"` // ms | kms | aead | alloc | access | memcall
	Idx  int    `json:"idx"` // call index within the domain, relative to the start of the operation under test
	Kind string `json:"kind"`
}

func (f fault) String() string { return fmt.Sprintf("%s[%d]=%s", f.Dom, f.Idx, f.Kind) }

type ext struct {
	Seq  int64
	Dom  string
	Idx  int
	Op   string
	Note string
}

func (e ext) String() string { return fmt.Sprintf("%s[%d]:%s%s", e.Dom, e.Idx, e.Op, e.Note) }

type prior struct {
	part    string
	payload []byte
	drr     *appencryption.DataRowRecord
}

type env struct {
	w      *world.World
	cfg    world.Cfg
	f      *appencryption.SessionFactory
	s      *appencryption.Session
	part   string
	priors []prior
	steps  []string
}

func (e *env) logf(f string, a ...any) { e.steps = append(e.steps, fmt.Sprintf(f, a...)) }

type scenario struct {
	name string
	prep func(e *env) // builds state and sets e.f / e.s (the factory and session under test)
}

func cfgOf(name string) world.Cfg {
	c := world.Default(tE, tR, tP)
	switch name {
	case "nocache":
		c.CacheIK, c.CacheSK = false, false
	case "lru1-shared":
		c.IKPolicy, c.IKCap, c.SharedIK, c.SKPolicy, c.SKCap = "lru", 1, true, "lru", 1
	case "sesscache":
		c.SessCache, c.SessCap, c.SessDur = true, 2, time.Hour
	case "sesscache+shared":
		// both factory-wide features at once: cached sessions over one shared intermediate-key cache
		c.SessCache, c.SessCap, c.SessDur = true, 2, time.Hour
		c.SharedIK, c.IKPolicy, c.IKCap = true, "lru", 4
	}
	return c
}

func (e *env) producer(part string, n int) {
	pf := e.w.Factory(cfgOf("simple"), "svc", "prod")
	ps, _ := pf.GetSession(part)
	for i := 0; i < n; i++ {
		pl := []byte(fmt.Sprintf("prior-%s-%d-%d", part, len(e.priors), i))
		d, err := ps.Encrypt(context.Background(), pl)
		if err != nil {
			panic("producer encrypt failed: " + err.Error())
		}
		e.priors = append(e.priors, prior{part, pl, d})
	}
	ps.Close()
	pf.Close()
}

func (e *env) under(part string) {
	e.part = part
	e.f = e.w.Factory(e.cfg, "svc", "prod")
	s, err := e.f.GetSession(part)
	if err != nil {
		panic(err)
	}
	e.s = s
}

func (e *env) warm() {
	pl := []byte("warm-up payload 0123456789")
	d, err := e.s.Encrypt(context.Background(), pl)
	if err != nil {
		panic("warm-up encrypt failed: " + err.Error())
	}
	e.priors = append(e.priors, prior{e.part, pl, d})
}

func (e *env) revoke(which string) {
	last := e.priors[len(e.priors)-1]
	id, cr := last.drr.Key.ParentKeyMeta.ID, last.drr.Key.ParentKeyMeta.Created
	if which == "sk" {
		row := e.w.Raw(id, cr)
		id, cr = row.ParentKeyMeta.ID, row.ParentKeyMeta.Created
	}
	if !e.w.Revoke(id, cr, time.Now()) {
		panic("revoke failed")
	}
}

func scenarios() []scenario {
	return []scenario{
		{"cold", func(e *env) { e.under("P") }},
		{"warm-new-factory", func(e *env) { e.producer("P", 1); time.Sleep(2 * tP); e.under("P") }},
		{"warm-cached", func(e *env) { e.under("P"); e.warm(); time.Sleep(time.Second) }},
		{"warm-cached-stale", func(e *env) { e.under("P"); e.warm(); time.Sleep(tR + time.Nanosecond) }},
		{"sk-expired-ik-valid", func(e *env) {
			e.producer("seed", 1)
			time.Sleep(tE / 2)
			e.under("P")
			e.warm()
			time.Sleep(tE/2 + 2*tP)
		}},
		{"both-expired", func(e *env) { e.under("P"); e.warm(); time.Sleep(tE + 2*tP) }},
		{"ik-revoked", func(e *env) { e.under("P"); e.warm(); e.revoke("ik"); time.Sleep(tR + tP) }},
		{"sk-revoked", func(e *env) { e.under("P"); e.warm(); e.revoke("sk"); time.Sleep(2*tR + tP) }},
		{"other-partition-warm", func(e *env) { e.producer("Q", 1); time.Sleep(3 * time.Second); e.under("P") }},
		// the session's cached IK was revoked, another process has already rotated, and the session has just
		// decrypted one of that process's records (its caches now hold both generations)
		{"ik-revoked-other-rotated-then-decrypted", func(e *env) {
			e.under("P")
			e.warm()
			e.revoke("ik")
			time.Sleep(tR + tP)
			e.producer("P", 1)
			last := e.priors[len(e.priors)-1]
			if _, err := e.s.Decrypt(context.Background(), *world.CopyDRR(last.drr)); err != nil {
				panic("prep decrypt failed: " + err.Error())
			}
			time.Sleep(time.Second)
		}},
	}
}

func validKinds(c ext) []string {
	switch c.Dom {
	case "ms":
		if c.Op == "store" {
			return []string{probe.FaultErr, probe.FaultFalse, probe.FaultWriteErr, probe.FaultWriteFalse, "delay"}
		}
		return []string{probe.FaultErr, "delay"}
	case "alloc":
		return []string{"err"}
	case "access":
		return []string{probe.AccessRefuse, probe.AccessRelease}
	case "memcall":
		return []string{"err"}
	case "kms":
		return []string{"err", "delay", "cancel"}
	default:
		return []string{"err", "delay"}
	}
}

type bases struct{ ms, kms, aead, led, acc, mc int }

func (e *env) bases() bases {
	b := bases{e.w.MS.N(), e.w.KMS.N(), e.w.AEAD.N(), e.w.Led.Calls(), e.w.Led.Accesses(), 0}
	if e.w.MC != nil {
		b.mc = e.w.MC.N()
	}
	return b
}

func (e *env) arm(b bases, fs []fault) {
	for _, f := range fs {
		if f.Kind == "delay" {
			// the call takes one creation-date precision unit (plus a bit) of virtual time, then succeeds
			switch f.Dom {
			case "ms":
				e.w.MS.Delays[b.ms+f.Idx] = tP + 3*time.Second
			case "kms":
				e.w.KMS.Delays[b.kms+f.Idx] = tP + 3*time.Second
			case "aead":
				e.w.AEAD.Delays[b.aead+f.Idx] = tP + 3*time.Second
			}
			continue
		}
		switch f.Dom {
		case "ms":
			e.w.MS.Faults[b.ms+f.Idx] = f.Kind
		case "kms":
			if f.Kind == "cancel" {
				e.w.KMS.Cancels[b.kms+f.Idx] = true
				continue
			}
			e.w.KMS.Faults[b.kms+f.Idx] = true
		case "aead":
			e.w.AEAD.Faults[b.aead+f.Idx] = true
		case "alloc":
			e.w.Led.FailAt[b.led+f.Idx] = true
		case "access":
			e.w.Led.AccessFaults[b.acc+f.Idx] = f.Kind
		case "memcall":
			if e.w.MC != nil {
				e.w.MC.FailAt[b.mc+f.Idx] = true
			}
		}
	}
}

func (e *env) disarm() {
	e.w.MS.Faults = map[int]string{}
	e.w.KMS.Faults = map[int]bool{}
	e.w.KMS.Cancels = map[int]bool{}
	e.w.AEAD.Faults = map[int]bool{}
	e.w.MS.Delays = map[int]time.Duration{}
	e.w.KMS.Delays = map[int]time.Duration{}
	e.w.AEAD.Delays = map[int]time.Duration{}
	e.w.Led.FailAt = map[int]bool{}
	e.w.Led.AccessFaults = map[int]string{}
	if e.w.MC != nil {
		e.w.MC.FailAt = map[int]bool{}
	}
}

// trace lists the external calls made since b, in program order.
func (e *env) trace(b bases) []ext {
	var out []ext
	for _, c := range e.w.MS.CallsFrom(b.ms) {
		out = append(out, ext{c.Seq, "ms", c.Idx - b.ms, c.Op, ":" + shortID(c.ID)})
	}
	for _, c := range e.w.KMS.Calls()[b.kms:] {
		out = append(out, ext{c.Seq, "kms", c.Idx - b.kms, c.Op, ""})
	}
	for _, c := range e.w.AEAD.CallsFrom(b.aead) {
		out = append(out, ext{c.Seq, "aead", c.Idx - b.aead, string(c.Op), ""})
	}
	for _, c := range e.w.Led.CallLog(b.led) {
		out = append(out, ext{c.Seq, "alloc", c.Idx - b.led, c.Kind, ""})
	}
	for _, c := range e.w.Led.AccessLog(b.acc) {
		out = append(out, ext{c.Seq, "access", c.Idx - b.acc, c.Kind, ""})
	}
	if e.w.MC != nil {
		for _, c := range e.w.MC.EventsFrom(b.mc) {
			out = append(out, ext{c.Seq, "memcall", c.Idx - b.mc, c.Op, ""})
		}
	}
	sort.Slice(out, func(i, j int) bool { return out[i].Seq < out[j].Seq })
	return out
}

func shortID(id string) string {
	if strings.HasPrefix(id, "_SK_") {
		return "SK"
	}
	if strings.HasPrefix(id, "_IK_") {
		return "IK"
	}
	return id
}

func allZero(b []byte) bool {
	for _, x := range b {
		if x != 0 {
			return false
		}
	}
	return true
}

func sameBacking(a, b []byte) bool {
	if len(a) == 0 || len(b) == 0 {
		return false
	}
	return unsafe.SliceData(a) == unsafe.SliceData(b)
}

// verdicts of one execution, per property
type verdict struct {
	sig, detail string
}

type result struct {
	trace   []ext
	fired   int // error-type faults that fired
	delays  int // latency injections in the plan
	opErr   error
	c02     []verdict
	c09     []verdict
	c10     []verdict
	c14     []verdict
	secrets int
}

// secretImpl selects the secure-memory implementation behind the ledger for the executions that follow.
var secretImpl = "memguard"

// execBackend / execSuffix select the metastore back end (world.Backends) and the region suffix it advertises for
// the executions that follow.
var execBackend, execSuffix = "memory", ""

// execAWSKMS != 0 puts the executions that follow on the AWS KMS plug-in (1 = SDK v1 client, 2 = v2) over a fake
// two-region cloud; the crash-model decrypt then runs as a process that prefers the other region while the first
// region is unreachable.
var execAWSKMS = 0

// execMemcall puts the secure-memory implementation of the executions that follow on a monitored memcall whose
// primitives (alloc, lock, protect, unlock, free) can fail by call index: fault domain "memcall".
var execMemcall = false

var journalPath = os.Getenv("VERIF_JOURNAL")

func journal(s string) {
	if journalPath == "" {
		return
	}
	if f, err := os.OpenFile(journalPath, os.O_APPEND|os.O_WRONLY|os.O_CREATE, 0o644); err == nil {
		fmt.Fprintln(f, s)
		f.Close()
	}
}

// freshDecrypt decrypts drr through a brand-new cache-less factory over the (fault-free) store.
func (e *env) freshDecrypt(part string, drr *appencryption.DataRowRecord) ([]byte, error) {
	if e.w.Cloud != nil {
		// a process started in the other region while the region that generated the data key is down
		e.w.Cloud.Regions[world.AWSRegions[0]].FailDecrypt = true
		defer func() { e.w.Cloud.Regions[world.AWSRegions[0]].FailDecrypt = false }()
	}
	ff := e.w.FreshFactory(cfgOf("nocache"), "svc", "prod")
	defer ff.Close()
	fs, err := ff.GetSession(part)
	if err != nil {
		return nil, err
	}
	defer fs.Close()
	return fs.Decrypt(context.Background(), *world.CopyDRR(drr))
}

// execute runs one (scenario, config, op, fault plan) case on a fresh world. It must be called inside a bubble.
func execute(sc scenario, cfgName, op string, fs []fault) (res result) {
	e := &env{w: world.NewOn(secretImpl, execBackend), cfg: cfgOf(cfgName)}
	e.w.Suffix = execSuffix
	if execAWSKMS != 0 {
		e.w.UseAWSKMS(execAWSKMS)
	}
	if execMemcall {
		e.w.UseMemcall(secretImpl)
	}
	// a system key handed to the KMS from anywhere but a secret that is being read sits in an ordinary heap buffer
	// (set up after the world has its final ledger and KMS monitors)
	e.w.Led.TrackExposure = true
	for _, k := range []*probe.KMS{e.w.KMS, e.w.AltKMS} {
		if k != nil {
			k.InSecret = func(b []byte) bool { return e.w.Led.IsExposed(b) }
		}
	}
	defer e.w.Close()
	// secrets whose reference was taken by the "parent SK re-resolved" step of intermediateKeyFromEKR
	reresolved := map[string]bool{}
	probe.SetHookSink(func(point string, arg any) {
		if point == "ikfromekr.reresolved_sk" {
			if ki, ok := arg.(appencryption.VerifKeyInfo); ok {
				reresolved[ki.Secret] = true
			}
		}
	})
	defer probe.SetHookSink(nil)
	time.Sleep(37 * time.Second)
	sc.prep(e)
	if a := e.w.Audit(); a != "" {
		panic("audit after prep: " + a)
	}
	// the decrypt under test needs a record of the session's own partition
	var decTarget *prior
	for i := range e.priors {
		if e.priors[i].part == e.part {
			decTarget = &e.priors[i]
			break
		}
	}
	if op == "dec" && decTarget == nil {
		e.producer(e.part, 1)
		decTarget = &e.priors[len(e.priors)-1]
	}
	e.w.AEAD.TakeRetained()
	e.w.KMS.TakeRetained()
	ledStart := e.w.Led.Len()
	b := e.bases()
	e.arm(b, fs)
	e.w.Led.SetOp("op")

	payload := []byte("the payload under test: 0123456789abcdef")
	var (
		drr *appencryption.DataRowRecord
		pt  []byte
		err error
	)
	// the operation under test runs with the caller's own cancellable context ("cancel" faults cancel it while an
	// external call is in flight)
	opCtx, opCancel := context.WithCancel(context.Background())
	defer opCancel()
	cancelled0 := e.w.KMS.Cancelled
	e.w.KMS.OnCancel = opCancel
	func() {
		defer func() {
			if p := recover(); p != nil {
				err = fmt.Errorf("PANIC: %v", p)
				res.c02 = append(res.c02, verdict{"panic-in-op", fmt.Sprintf("%s panicked: %v", op, p)})
			}
		}()
		switch op {
		case "enc":
			drr, err = e.s.Encrypt(opCtx, payload)
		case "dec":
			p0 := *decTarget
			pt, err = e.s.Decrypt(opCtx, *world.CopyDRR(p0.drr))
			if err == nil && !bytes.Equal(pt, p0.payload) {
				res.c02 = append(res.c02, verdict{"decrypt-wrong-bytes", "decrypt returned other bytes under faults"})
			}
		}
	}()
	e.w.Led.SetOp("")
	e.w.KMS.OnCancel = nil
	res.opErr = err
	res.trace = e.trace(b)
	e.disarm()
	res.fired += e.w.KMS.Cancelled - cancelled0
	for _, c := range e.w.MS.CallsFrom(b.ms) {
		if c.Fault != "" {
			res.fired++
		}
	}
	for _, f := range fs {
		if f.Kind == "delay" {
			res.delays++
		}
	}
	for _, c := range e.w.KMS.Calls()[b.kms:] {
		if c.Fault {
			res.fired++
		}
	}
	for _, c := range e.w.AEAD.CallsFrom(b.aead) {
		if c.Fault {
			res.fired++
		}
	}
	for _, c := range e.w.Led.CallLog(b.led) {
		if c.Failed {
			res.fired++
		}
	}
	for _, c := range e.w.Led.AccessLog(b.acc) {
		if c.Failed {
			res.fired++
		}
	}
	if e.w.MC != nil {
		for _, c := range e.w.MC.EventsFrom(b.mc) {
			if c.Fault {
				res.fired++
			}
		}
	}

	// ---- C10: every retained heap buffer that held key plaintext is zero at return
	for i, buf := range e.w.AEAD.TakeRetained() {
		if op == "dec" && sameBacking(buf, pt) {
			continue // the payload handed to the caller
		}
		if !allZero(buf) {
			res.c10 = append(res.c10, verdict{"aead-decrypt-output-not-wiped", fmt.Sprintf("AEAD.Decrypt output #%d (%d bytes, key material) still holds non-zero bytes after %s returned (err=%v)", i, len(buf), op, err)})
		}
	}
	for i, buf := range e.w.KMS.TakeRetained() {
		if !allZero(buf) {
			res.c10 = append(res.c10, verdict{"kms-decrypt-output-not-wiped", fmt.Sprintf("retained KMS buffer #%d (%d bytes: a DecryptKey output, or a heap copy of a system key handed to EncryptKey) still holds non-zero bytes after %s returned (err=%v)", i, len(buf), op, err)})
		}
	}
	for _, sr := range e.w.Led.RecsFrom(ledStart) {
		if sr.Src != nil && !allZero(sr.Src) {
			sig := "factory-new-source-not-wiped"
			if sr.Creator == "new-failed" {
				sig = "factory-new-source-not-wiped-after-failed-new"
			}
			res.c10 = append(res.c10, verdict{sig, fmt.Sprintf("the slice handed to SecretFactory.New (%d bytes, %s) still holds key bytes after %s returned (err=%v)", len(sr.Src), sr.Creator, op, err)})
		}
	}

	// ---- C09 at return: data keys closed; without caching everything closed
	aeadCalls := e.w.AEAD.CallsFrom(b.aead)
	for _, sr := range e.w.Led.RecsFrom(ledStart) {
		if sr.Creator == "new-failed" {
			continue
		}
		open := sr.Open()
		isDRK := false
		if sr.Creator == "random" {
			for _, c := range aeadCalls {
				if c.Op == 'E' && c.Key == sr.Hash && c.DataLen == len(payload) {
					isDRK = true
				}
			}
		}
		if isDRK && open {
			res.c09 = append(res.c09, verdict{"drk-open-after-call", fmt.Sprintf("data key %s still open when %s returned (err=%v)", sr, op, err)})
		}
		if !e.cfg.IKCached() && !e.cfg.CacheSK && open {
			if reresolved[sr.Ptr] {
				res.c09 = append(res.c09, verdict{"secret-outlives-call-nocache:reresolved-parent-sk-not-released", fmt.Sprintf("caching disabled: %s obtained by intermediateKeyFromEKR's parent-SK lookup is still open after %s returned", sr, op)})
				continue
			}
			res.c09 = append(res.c09, verdict{"secret-outlives-call-nocache", fmt.Sprintf("caching disabled but %s is still open after %s returned (err=%v)", sr, op, err)})
		}
	}

	// ---- C02 at return
	if op == "enc" {
		if err == nil {
			if drr == nil || drr.Key == nil || drr.Key.ParentKeyMeta == nil {
				res.c02 = append(res.c02, verdict{"nil-record-without-error", "Encrypt returned nil error and an incomplete record"})
			} else {
				ikid, ikc := drr.Key.ParentKeyMeta.ID, drr.Key.ParentKeyMeta.Created
				row := e.w.Raw(ikid, ikc)
				if row == nil {
					res.c02 = append(res.c02, verdict{"record-under-unpersisted-ik", fmt.Sprintf("Encrypt returned a record naming IK (%s,%d) which is not in the metastore", ikid, ikc)})
				} else if row.ParentKeyMeta == nil || e.w.Raw(row.ParentKeyMeta.ID, row.ParentKeyMeta.Created) == nil {
					res.c02 = append(res.c02, verdict{"record-under-ik-with-unpersisted-sk", fmt.Sprintf("IK (%s,%d) names an SK that is not in the metastore", ikid, ikc)})
				}
				// crash now: a fresh process with only the metastore and the KMS must decrypt it
				if out, derr := e.freshDecrypt(e.part, drr); derr != nil || !bytes.Equal(out, payload) {
					res.c02 = append(res.c02, verdict{"fresh-process-cannot-decrypt", fmt.Sprintf("after a crash right after Encrypt a fresh factory cannot decrypt the record: %v", derr)})
				}
			}
		} else if drr != nil {
			res.c02 = append(res.c02, verdict{"record-returned-with-error", "Encrypt returned both a record and an error"})
		}
		if err != nil && res.fired == 0 {
			res.c02 = append(res.c02, verdict{"failure-without-fault", fmt.Sprintf("Encrypt failed although no fault fired: %v", err)})
		}
	} else if err != nil && res.fired == 0 {
		res.c02 = append(res.c02, verdict{"failure-without-fault", fmt.Sprintf("Decrypt failed although no fault fired: %v", err)})
	}

	// ---- faults have stopped: the next operations succeed
	func() {
		defer func() {
			if p := recover(); p != nil {
				res.c02 = append(res.c02, verdict{"panic-after-faults", fmt.Sprintf("operation after the faults stopped panicked: %v", p)})
			}
		}()
		d2, err2 := e.s.Encrypt(context.Background(), payload)
		if err2 != nil {
			res.c02 = append(res.c02, verdict{"next-encrypt-fails-after-faults-stop", fmt.Sprintf("faults stopped but the next Encrypt on the same session failed: %v (faulted op err=%v)", err2, err)})
		} else {
			if e.w.Raw(d2.Key.ParentKeyMeta.ID, d2.Key.ParentKeyMeta.Created) == nil {
				res.c02 = append(res.c02, verdict{"record-under-unpersisted-ik", "follow-up Encrypt returned a record under an IK that is not in the metastore"})
			}
			if out, derr := e.freshDecrypt(e.part, d2); derr != nil || !bytes.Equal(out, payload) {
				res.c02 = append(res.c02, verdict{"fresh-process-cannot-decrypt", fmt.Sprintf("follow-up record not decryptable by a fresh factory: %v", derr)})
			}
		}
		for _, p := range e.priors {
			if p.part != e.part {
				continue
			}
			out, derr := e.s.Decrypt(context.Background(), *world.CopyDRR(p.drr))
			if derr != nil || !bytes.Equal(out, p.payload) {
				res.c02 = append(res.c02, verdict{"next-decrypt-fails-after-faults-stop", fmt.Sprintf("faults stopped but an earlier record no longer decrypts on the same session: %v", derr)})
			}
		}
	}()
	if a := e.w.Audit(); a != "" {
		res.c14 = append(res.c14, verdict{"store-row-mutated", a})
	}

	// ---- close everything, then the ledger must balance
	e.s.Close()
	e.f.Close()
	synctest.Wait() // asynchronous teardown (session cache eviction, async key-cache callbacks) has quiesced
	for _, sr := range e.w.Led.Recs() {
		if sr.Creator == "new-failed" {
			continue
		}
		st := sr.State()
		switch {
		case st.CloseReturned == 0 && reresolved[sr.Ptr]:
			res.c09 = append(res.c09, verdict{"secret-leaked:reresolved-parent-sk-not-released", fmt.Sprintf("after closing session and factory %s is still open: the reference intermediateKeyFromEKR took on the re-resolved parent SK was never released (op=%s err=%v)", sr, op, err)})
		case st.CloseReturned == 0:
			res.c09 = append(res.c09, verdict{"secret-leaked", fmt.Sprintf("after closing session and factory %s was never closed (op=%s err=%v)", sr, op, err)})
		case st.TouchAfterClose > 0:
			res.c09 = append(res.c09, verdict{"touch-after-close", fmt.Sprintf("%s was accessed after Close", sr)})
		case st.CloseCalls > 1:
			res.c09 = append(res.c09, verdict{"secret-closed-twice", fmt.Sprintf("%s was closed %d times (released exactly once is required)", sr, st.CloseCalls)})
		}
	}
	res.secrets = e.w.Led.Len()
	return res
}

func report(r *ev.Run, vs []verdict, sc scenario, cfgName, op string, fs []fault, tr []ext) {
	for _, v := range vs {
		r.Violation(v.sig, fmt.Sprintf("scenario=%s cfg=%s op=%s faults=%v: %s", sc.name, cfgName, op, fs, v.detail),
			map[string]any{"engine": "faults", "scenario": sc.name, "config": cfgName, "op": op, "faults": fs, "trace": fmt.Sprint(tr)})
	}
}
