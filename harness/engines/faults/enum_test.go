package faults

import (
	"bytes"
	"context"
	"fmt"
	"github.com/godaddy/asherah/go/appencryption"
	"math/rand"
	"strings"
	"testing"
	"testing/synctest"
	"time"
	"verif/harness/world"

	"verif/harness/creators"
	"verif/harness/ev"
)

// inBubble runs f inside a synctest bubble under a generous wall-clock watchdog. A goroutine blocked on a sync
// mutex is not "durably blocked" for synctest, so a leaked lock would otherwise hang the run: these cases are
// single-threaded and deterministic and normally take milliseconds, so a case that does not finish within the
// watchdog twice in a row is reported as a deadlock witness.
func inBubble(t *testing.T, f func()) (panicked any) {
	for attempt := 0; attempt < 2; attempt++ {
		done := make(chan any, 1)
		go func() {
			defer func() { done <- recover() }()
			synctest.Test(t, func(t *testing.T) { f() })
		}()
		select {
		case p := <-done:
			return p
		case <-time.After(45 * time.Second):
		}
	}
	return "deadlock: the case did not finish within 45 s of wall clock on two attempts (a lock is never released?)"
}

type cell struct {
	sc  scenario
	cfg string
	op  string
}

func cells(cfgs, ops []string) []cell {
	var out []cell
	for _, sc := range scenarios() {
		for _, c := range cfgs {
			for _, op := range ops {
				if op == "dec" && (sc.name == "cold") {
					continue // nothing to decrypt yet
				}
				out = append(out, cell{sc, c, op})
			}
		}
	}
	return out
}

// explore enumerates every single fault over the given domains and (depth 2) every second fault at a later
// call of the faulted run; pairPct < 100 samples the pairs with the seeded PRNG.
func explore(t *testing.T, r *ev.Run, prop string, cs []cell, domains map[string]bool, pairPct int) {
	triplePct := ev.Pick(0, 35)
	rng := rand.New(rand.NewSource(ev.Seed()))
	deadlocks := 0
	pick := func(res result) []verdict {
		switch prop {
		case "C02":
			return append(append([]verdict{}, res.c02...), res.c14...)
		case "C09":
			return res.c09
		case "C10":
			return res.c10
		}
		return nil
	}
	run := func(c cell, fs []fault) (result, bool) {
		var res result
		journal(fmt.Sprintf("%s scenario=%s cfg=%s op=%s faults=%v", prop, c.sc.name, c.cfg, c.op, fs))
		if deadlocks >= 2 {
			return res, false // the tree under test leaks locks: do not spend 90 s on every further case
		}
		if p := inBubble(t, func() { res = execute(c.sc, c.cfg, c.op, fs) }); p != nil {
			if s, ok := p.(string); ok && strings.HasPrefix(s, "deadlock") {
				deadlocks++
			}
			r.Violation("panic:"+c.sc.name, fmt.Sprintf("scenario=%s cfg=%s op=%s faults=%v: panic/deadlock: %v", c.sc.name, c.cfg, c.op, fs, p),
				map[string]any{"scenario": c.sc.name, "config": c.cfg, "op": c.op, "faults": fs})
			return res, false
		}
		r.Eval(1)
		r.Count("external_calls_observed", int64(len(res.trace)))
		r.Count("secrets_accounted", int64(res.secrets))
		if res.fired > 0 || res.delays > 0 {
			r.Distinct(fmt.Sprintf("%s|%s|%s|%v", c.sc.name, c.cfg, c.op, fs))
			r.Count("executions_with_fault_fired", 1)
			if res.opErr != nil {
				r.Count("faulted_ops_returning_error", 1)
			} else {
				r.Count("faulted_ops_succeeding", 1)
			}
		}
		report(r, pick(res), c.sc, c.cfg, c.op, fs, res.trace)
		return res, true
	}
	positions := func(tr []ext, afterSeq int64) []ext {
		var out []ext
		for _, e := range tr {
			if domains[e.Dom] && e.Seq > afterSeq {
				out = append(out, e)
			}
		}
		return out
	}
	for _, c := range cs {
		clean, ok := run(c, nil)
		if !ok {
			continue
		}
		if r.WantSample() {
			r.Sample(map[string]any{"scenario": c.sc.name, "config": c.cfg, "op": c.op, "clean_trace": fmt.Sprint(clean.trace)})
		}
		r.SetAdd("cells", c.sc.name+"|"+c.cfg+"|"+c.op)
		for _, p1 := range positions(clean.trace, 0) {
			for _, k1 := range validKinds(p1) {
				f1 := fault{p1.Dom, p1.Idx, k1}
				res1, ok := run(c, []fault{f1})
				if !ok {
					continue
				}
				r.Count("single_faults", 1)
				// position of the fired fault in the faulted run
				var at int64 = -1
				for _, e := range res1.trace {
					if e.Dom == f1.Dom && e.Idx == f1.Idx {
						at = e.Seq
					}
				}
				if at < 0 {
					continue
				}
				for _, p2 := range positions(res1.trace, at) {
					for _, k2 := range validKinds(p2) {
						if pairPct < 100 && rng.Intn(100) >= pairPct {
							r.Count("pairs_skipped_by_sampling", 1)
							continue
						}
						f2 := fault{p2.Dom, p2.Idx, k2}
						res2, ok := run(c, []fault{f1, f2})
						r.Count("fault_pairs", 1)
						if !ok || triplePct <= 0 {
							continue
						}
						// third fault at a later call of the doubly faulted run (thorough tier, sampled)
						var at2 int64 = -1
						for _, e := range res2.trace {
							if e.Dom == f2.Dom && e.Idx == f2.Idx {
								at2 = e.Seq
							}
						}
						if at2 < 0 {
							continue
						}
						for _, p3 := range positions(res2.trace, at2) {
							for _, k3 := range validKinds(p3) {
								if rng.Intn(100) >= triplePct {
									continue
								}
								run(c, []fault{f1, f2, {p3.Dom, p3.Idx, k3}})
								r.Count("fault_triples", 1)
							}
						}
					}
				}
			}
		}
	}
	r.Exhaustive(pairPct >= 100)
}

func TestC02(t *testing.T) {
	r := ev.Start("C02", "fault_enumeration")
	r.Rule("for each cell (10 key states x {simple cache, no cache, lru cap-1 shared} x {encrypt, decrypt}) a clean run records the trace of metastore and KMS calls of the operation under test; then EVERY call index gets every fault kind valid for it (Load/LoadLatest: error; Store: error-without-write, false-without-write, write-then-error, write-then-false; KMS: error) and, depth-first, every second fault at every later call of the faulted run (and, thorough tier, a seeded 35% sample of third faults). After each execution: record/err shape, IK row and SK row present in the raw store, a brand-new cache-less factory (crash model) decrypts the record, and once faults stop the next encrypt and the earlier records work on the same session. The enumeration is repeated (single faults, sampled pairs) over region-suffixed key ids, over the DynamoDB and SQL plug-ins on their fakes, and with both AWS KMS plug-ins over a fake two-region cloud (the crash-model process then prefers the other region and finds the first one unreachable). Distinct+non-trivial: (cell, fault plan) pairs in which a fault actually fired.")
	r.Assume("virtual clock (testing/synctest) fixes creation stamps", "a crash is modelled by discarding the factory and reading only the metastore and the KMS", "partial writes inside a real database are out of reach")
	cs := cells(ev.Pick([]string{"simple", "nocache", "lru1-shared"}, []string{"simple", "nocache", "lru1-shared", "sesscache"}), []string{"enc", "dec"})
	explore(t, r, "C02", cs, map[string]bool{"ms": true, "kms": true, "aead": true}, ev.Pick(30, 100))
	// the same enumeration end to end over region-suffixed key ids and over the DynamoDB plug-ins (single faults and
	// a sample of pairs)
	for _, v := range [][2]string{{"memory", "us-west-2"}, {"dynamodb-v1", ""}, {"dynamodb-v2", "eu-west-1"}, {"sql", ""}} {
		execBackend, execSuffix = v[0], v[1]
		explore(t, r, "C02", cells([]string{"simple", "nocache"}, []string{"enc"}), map[string]bool{"ms": true, "kms": true}, ev.Pick(4, 40))
		r.Count("passes_over_"+v[0]+"_suffix_"+v[1], 1)
	}
	execBackend, execSuffix = "memory", ""
	// ... and with the AWS KMS plug-ins (two regions) as the KMS: the crash-model process prefers the other region
	// and finds the first one unreachable
	for _, v := range []int{1, 2} {
		execAWSKMS = v
		explore(t, r, "C02", cells([]string{"simple", "nocache"}, []string{"enc"}), map[string]bool{"ms": true, "kms": true}, ev.Pick(4, 40))
		r.Count(fmt.Sprintf("passes_over_aws_kms_v%d", v), 1)
	}
	execAWSKMS = 0
	// ... and both together: the AWS KMS plug-in's variable-length envelope stored through the DynamoDB plug-in of the
	// same SDK generation (what a deployment on AWS runs)
	for _, v := range []int{1, 2} {
		execAWSKMS, execBackend = v, fmt.Sprintf("dynamodb-v%d", v)
		explore(t, r, "C02", cells([]string{"nocache"}, []string{"enc"}), map[string]bool{"ms": true, "kms": true}, ev.Pick(2, 20))
		r.Count(fmt.Sprintf("passes_over_aws_kms_and_dynamodb_v%d", v), 1)
	}
	execAWSKMS, execBackend = 0, "memory"
	firstCallOutage(t, r)
	// "returned 'already exists'": key inserts of several cold processes that really overlap inside the metastore
	creators.Run(r, "C02", ev.Pick(30, 600), journal)
	r.Finish(t)
}

func TestC09(t *testing.T) {
	r := ev.Start("C09", "fault_enumeration")
	r.Rule("leak ledger over fault enumeration: same cells as C02 plus decrypt operations and a session-cache configuration; fault domains = metastore, KMS, AEAD call k fails, secret allocation k fails, secret access k refused / its release fails after the callback ran (every single position; pairs sampled in quick, all in thorough). The tracking SecretFactory accounts for every secret: the data key of an encrypt must be closed when the call returns; with caching disabled every secret created by the call must be closed at return; after session and factory Close every secret must have been closed (no leak) and never touched afterwards. Seeded histories (hist engine, OC09), the C14 duplicate-key schedules and the gRPC sidecar's stream handler (streams ending normally or aborted after get-session / after traffic, with and without session caching) run the same ledger. Distinct+non-trivial: (cell, fault plan) pairs in which a fault fired.")
	r.Assume("the ledger wraps the real memguard/protectedmemory factories through WithSecretFactory, so it sees every secret the SDK allocates")
	cs := cells([]string{"simple", "nocache", "lru1-shared", "sesscache", "sesscache+shared"}, []string{"enc", "dec"})
	explore(t, r, "C09", cs, map[string]bool{"ms": true, "kms": true, "aead": true, "alloc": true, "access": true}, ev.Pick(12, 100))
	// the same cells with the real secure-memory implementations on a monitored memcall: every single memory
	// primitive (alloc, lock, protect, unlock, free) of the operation fails in turn - a real failure inside the
	// implementation, not one modelled at its interface
	for _, impl := range []string{"protectedmemory", "memguard"} {
		secretImpl, execMemcall = impl, true
		explore(t, r, "C09", cells([]string{"simple", "nocache"}, []string{"enc", "dec"}), map[string]bool{"memcall": true}, ev.Pick(0, 30))
		r.Count("passes_with_memcall_faults_"+impl, 1)
	}
	secretImpl, execMemcall = "memguard", false
	schedulesForC09(t, r)
	sessionCacheLedger(t, r)
	sidecarLedger(t, r)
	capacityScenarios(t, r)
	largeCacheLedger(t, r)
	r.Finish(t)
}

func TestC10(t *testing.T) {
	r := ev.Start("C10", "fault_enumeration")
	r.Rule("retained-buffer scan over fault enumeration: same cells and fault domains as C09. The monitors keep the very slices that held key plaintext (the slice passed to SecretFactory.New, every AEAD.Decrypt output except the payload handed to the caller, every KMS.DecryptKey output) and read them when the public call returns, success or failure: every byte must be zero. The AWS KMS plug-ins are checked with fake regional clients that retain the Plaintext buffers they hand out. Distinct+non-trivial: (cell, fault plan) pairs in which a fault fired.")
	r.Assume("holding a reference keeps the buffer from being recycled, so reading it after the call is sound")
	cs := cells([]string{"simple", "nocache", "lru1-shared"}, []string{"enc", "dec"})
	explore(t, r, "C10", cs, map[string]bool{"ms": true, "kms": true, "aead": true, "alloc": true, "access": true}, ev.Pick(12, 100))
	// the same sweep over the other secure-memory implementation (its New must wipe the source slice too)
	secretImpl = "protectedmemory"
	cs2 := cells([]string{"simple", "nocache"}, []string{"enc", "dec"})
	if !ev.Thorough() {
		cs2 = cs2[:len(cs2)/2]
	}
	explore(t, r, "C10", cs2, map[string]bool{"ms": true, "kms": true, "aead": true, "alloc": true, "access": true}, ev.Pick(0, 40))
	secretImpl = "memguard"
	// the same cells with the real secure-memory implementations on a monitored memcall: every single memory
	// primitive (alloc, lock, protect, unlock, free) of the operation fails in turn - a real failure inside the
	// implementation, not one modelled at its interface
	for _, impl := range []string{"protectedmemory", "memguard"} {
		secretImpl, execMemcall = impl, true
		explore(t, r, "C10", cells([]string{"simple", "nocache"}, []string{"enc", "dec"}), map[string]bool{"memcall": true}, ev.Pick(0, 30))
		r.Count("passes_with_memcall_faults_"+impl, 1)
	}
	secretImpl, execMemcall = "memguard", false
	awsPlaintexts(t, r)
	r.Finish(t)
}

// firstCallOutage: the back end itself (database connection, DynamoDB service) is unavailable when a process makes
// its very first metastore calls, underneath the real plug-ins: operations may fail while the outage lasts; "once the
// faults stop the next operation succeeds", and what it returns is decryptable by a fresh process.
func firstCallOutage(t *testing.T, r *ev.Run) {
	for _, be := range []string{"sql", "dynamodb-v1", "dynamodb-v2"} {
		for _, firstOp := range []string{"enc", "dec"} {
			for _, cfgName := range []string{"simple", "nocache"} {
				name := fmt.Sprintf("first-call-outage/%s/%s/%s", be, firstOp, cfgName)
				journal("C02 " + name)
				p := inBubble(t, func() {
					w := world.NewOn("memguard", be)
					defer w.Close()
					time.Sleep(21 * time.Second)
					ctx := context.Background()
					outage := func(on bool) {
						n := 0
						if on {
							n = 1000
						}
						if db := w.SQL(); db != nil {
							db.SetFailPrepares(n)
							db.SetFailReads(n)
							db.SetFailWrites(n)
						}
						if tb := w.DDB(); tb != nil {
							tb.SetFail(n, n)
						}
					}
					var prior *appencryption.DataRowRecord
					priorPl := []byte("written before the restart")
					if firstOp == "dec" {
						// another process wrote a record earlier; the process under test starts with the outage
						pf := w.Factory(cfgOf("simple"), "svc", "prod")
						ps, _ := pf.GetSession("P")
						prior, _ = ps.Encrypt(ctx, priorPl)
						ps.Close()
						pf.Close()
						if prior == nil {
							r.Violation("encrypt-failed-without-fault", name+": producer encrypt failed", nil)
							return
						}
					}
					f := w.Factory(cfgOf(cfgName), "svc", "prod")
					s, err := f.GetSession("P")
					if err != nil {
						r.Violation("getsession-failed", name+": "+err.Error(), nil)
						return
					}
					outage(true)
					for i := 0; i < 2; i++ {
						if firstOp == "enc" {
							if d, err := s.Encrypt(ctx, []byte("during the outage")); err == nil {
								r.Violation("record-returned-during-outage", fmt.Sprintf("%s: the back end rejects every call and Encrypt returned a record naming (%s,%d)", name, d.Key.ParentKeyMeta.ID, d.Key.ParentKeyMeta.Created), nil)
							}
						} else if _, err := s.Decrypt(ctx, *world.CopyDRR(prior)); err == nil {
							r.Violation("decrypt-succeeded-without-backend", name+": decrypt of a record whose keys were never loaded succeeded while the back end rejects every call", nil)
						}
					}
					outage(false)
					r.Eval(1)
					r.Count("first_call_outage_cases", 1)
					r.Distinct(name)
					pl := []byte("after the outage")
					d, err := s.Encrypt(ctx, pl)
					if err != nil {
						r.Violation("next-encrypt-fails-after-faults-stop", fmt.Sprintf("%s: the outage is over and Encrypt on the same session still fails: %v", name, err), nil)
					} else {
						ff := w.Factory(cfgOf("nocache"), "svc", "prod")
						fs, _ := ff.GetSession("P")
						if out, err := fs.Decrypt(ctx, *world.CopyDRR(d)); err != nil || !bytes.Equal(out, pl) {
							r.Violation("fresh-process-cannot-decrypt", fmt.Sprintf("%s: the record written after the outage does not decrypt in a fresh process: %v", name, err), nil)
						}
						fs.Close()
						ff.Close()
					}
					if prior != nil {
						if out, err := s.Decrypt(ctx, *world.CopyDRR(prior)); err != nil || !bytes.Equal(out, priorPl) {
							r.Violation("next-decrypt-fails-after-faults-stop", fmt.Sprintf("%s: the outage is over and the earlier record still does not decrypt: %v", name, err), nil)
						}
					}
					s.Close()
					f.Close()
				})
				if p != nil {
					r.Violation("panic:first-call-outage", fmt.Sprintf("%s: %v", name, p), nil)
				}
			}
		}
	}
}
