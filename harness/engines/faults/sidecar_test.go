package faults

import (
	"context"
	"errors"
	"fmt"
	"io"
	"testing"
	"testing/synctest"
	"time"

	"google.golang.org/grpc/metadata"

	pb "github.com/godaddy/asherah/server/go/api"
	"github.com/godaddy/asherah/server/go/pkg/server"

	"verif/harness/ev"
	"verif/harness/world"
)

// scriptedStream plays a fixed list of requests and then ends the stream with the given error (io.EOF = the client
// closed its side normally; anything else = the client went away: cancelled context, dropped connection).
type scriptedStream struct {
	reqs []*pb.SessionRequest
	end  error
	i    int
	sent []*pb.SessionResponse
}

func (s *scriptedStream) Recv() (*pb.SessionRequest, error) {
	if s.i >= len(s.reqs) {
		return nil, s.end
	}
	s.i++
	return s.reqs[s.i-1], nil
}
func (s *scriptedStream) Send(r *pb.SessionResponse) error { s.sent = append(s.sent, r); return nil }
func (s *scriptedStream) SetHeader(metadata.MD) error      { return nil }
func (s *scriptedStream) SendHeader(metadata.MD) error     { return nil }
func (s *scriptedStream) SetTrailer(metadata.MD)           {}
func (s *scriptedStream) Context() context.Context         { return context.Background() }
func (s *scriptedStream) SendMsg(m any) error              { return nil }
func (s *scriptedStream) RecvMsg(m any) error              { return nil }

// sidecarLedger: the gRPC sidecar's stream handler over a ledger-monitored factory. Streams end normally, are
// aborted right after get-session, or are aborted after some traffic; once every stream has returned and the
// factory is closed every secret must have been released (asynchronous session-cache teardown quiesced by the
// bubble), with and without the shared session cache.
func sidecarLedger(t *testing.T, r *ev.Run) {
	getSession := func(p string) *pb.SessionRequest {
		return &pb.SessionRequest{Request: &pb.SessionRequest_GetSession{GetSession: &pb.GetSession{PartitionId: p}}}
	}
	enc := func(b string) *pb.SessionRequest {
		return &pb.SessionRequest{Request: &pb.SessionRequest_Encrypt{Encrypt: &pb.Encrypt{Data: []byte(b)}}}
	}
	aborted := errors.New("rpc error: code = Canceled desc = context canceled")
	for _, cfgName := range []string{"simple", "sesscache", "sesscache+shared", "nocache"} {
		for _, ending := range []string{"eof", "abort-after-get-session", "abort-after-traffic", "mixed"} {
			name := fmt.Sprintf("sidecar/%s/%s", cfgName, ending)
			journal("C09 " + name)
			if p := inBubble(t, func() {
				w := world.New("memguard")
				defer w.Close()
				time.Sleep(19 * time.Second)
				f := w.Factory(cfgOf(cfgName), "svc", "prod")
				app := server.VerifNewAppEncryptionWithFactory(f)
				for k := 0; k < 6; k++ {
					part := fmt.Sprintf("part%d", k%2)
					st := &scriptedStream{end: io.EOF}
					switch e := ending; {
					case e == "eof" || (e == "mixed" && k%3 == 0):
						st.reqs = []*pb.SessionRequest{getSession(part), enc("a"), enc("b")}
					case e == "abort-after-get-session" || (e == "mixed" && k%3 == 1):
						st.reqs, st.end = []*pb.SessionRequest{getSession(part)}, aborted
					default:
						st.reqs, st.end = []*pb.SessionRequest{getSession(part), enc("a"), enc("b")}, aborted
					}
					func() {
						defer func() {
							if pv := recover(); pv != nil {
								r.Violation("panic:sidecar-stream", fmt.Sprintf("%s stream %d: %v", name, k, pv), nil)
							}
						}()
						_ = app.Session(st)
					}()
					if len(st.sent) != len(st.reqs) {
						r.Violation("sidecar-response-count", fmt.Sprintf("%s stream %d: %d requests, %d responses", name, k, len(st.reqs), len(st.sent)), nil)
					}
				}
				f.Close()
				synctest.Wait()
				r.Eval(1)
				r.Count("sidecar_ledger_scenarios", 1)
				r.Distinct(name)
				for _, sr := range w.Led.Recs() {
					st := sr.State()
					switch {
					case st.CloseReturned == 0:
						r.Violation("secret-leaked:sidecar", fmt.Sprintf("%s: %s still open after every stream returned and the factory was closed", name, sr), map[string]any{"scenario": name})
					case st.TouchAfterClose > 0:
						r.Violation("touch-after-close:sidecar", fmt.Sprintf("%s: %s accessed after Close", name, sr), nil)
					}
				}
			}); p != nil {
				r.Violation("panic:sidecar-ledger", fmt.Sprintf("%s: %v", name, p), nil)
			}
		}
	}
}
