package faults

import (
	"testing"

	"verif/harness/ev"
)

func schedulesForC09(t *testing.T, r *ev.Run) {}
func awsPlaintexts(t *testing.T, r *ev.Run)   {}
