package faults

import (
	"testing"

	"verif/harness/awsx"
	"verif/harness/ev"
)

// schedulesForC09 runs the leak ledger over a sample of the duplicate-key schedules.
func schedulesForC09(t *testing.T, r *ev.Run) {
	exploreSchedules(t, r, "C09", func(c schedCell) bool { return c.nproc == 2 }, ev.Pick(60, 3000), false)
}

// awsPlaintexts checks that data-key plaintexts obtained from the (fake) cloud KMS are wiped by both plug-ins.
func awsPlaintexts(t *testing.T, r *ev.Run) {
	awsx.Sweep(r, "C10", ev.Pick(2, 3), 1)
}
