package faults

import (
	"fmt"
	"strings"
	"testing"
	"time"

	"verif/harness/awsx"
	"verif/harness/ev"
	"verif/harness/sessprog"
	"verif/harness/world"
)

// schedulesForC09 runs the leak ledger over a sample of the duplicate-key schedules.
func schedulesForC09(t *testing.T, r *ev.Run) {
	exploreSchedules(t, r, "C09", func(c schedCell) bool { return c.nproc == 2 && c.sample == 0 }, ev.Pick(60, 3000), false)
}

// sessionCacheLedger runs the session-cache programs (get/use/close/advance/factory close with several holders of
// one cached session) and audits the secret ledger afterwards: evicted or expired sessions must release their
// keys exactly once, only after the last holder closed, and nothing may touch them afterwards.
func sessionCacheLedger(t *testing.T, r *ev.Run) {
	L := ev.Pick(4, 5)
	for _, pol := range []string{"", "lru"} {
		for _, size := range []int{1, 2} {
			journal(fmt.Sprintf("C09 session-cache programs policy=%q size=%d", pol, size))
			if p := inBubble(t, func() {
				w := world.New("memguard")
				defer w.Close()
				time.Sleep(17 * time.Second)
				sessprog.EnumeratePrograms(L, func(prog []sessprog.Op) {
					_, _, st := sessprog.RunProgram(w, pol, size, prog, time.Hour)
					r.Eval(1)
					r.Count("session_cache_programs", 1)
					if st[2] >= 2 {
						r.Distinct("sessprog|" + pol + fmt.Sprint(size) + sessprog.ProgString(prog))
					}
					for _, f := range sessprog.LastLedger {
						kind, msg, _ := strings.Cut(f, "|")
						r.Violation("session-cache-"+kind, fmt.Sprintf("session cache %q size %d program [%s]: %s", pol, size, sessprog.ProgString(prog), msg), map[string]any{"program": sessprog.ProgString(prog)})
					}
				})
			}); p != nil {
				r.Violation("panic:session-cache-programs", fmt.Sprint(p), nil)
			}
		}
	}
}

// awsPlaintexts checks that data-key plaintexts obtained from the (fake) cloud KMS are wiped by both plug-ins.
func awsPlaintexts(t *testing.T, r *ev.Run) {
	awsx.Sweep(r, "C10", ev.Pick(2, 3), 1)
}
