package faults

import (
	"bytes"
	"context"
	"fmt"
	"math/rand"
	"strings"
	"testing"
	"testing/synctest"
	"time"

	"github.com/godaddy/asherah/go/appencryption"

	"verif/harness/awsx"
	"verif/harness/ev"
	"verif/harness/sessprog"
	"verif/harness/world"
)

// schedulesForC09 runs the leak ledger over a sample of the duplicate-key schedules.
func schedulesForC09(t *testing.T, r *ev.Run) {
	exploreSchedules(t, r, "C09", func(c schedCell) bool { return c.nproc == 2 && c.sample == 0 }, ev.Pick(60, 3000), false)
}

// sessionCacheLedger runs the session-cache programs (get/use/close/advance/factory close with several holders of
// one cached session) and audits the secret ledger afterwards: evicted or expired sessions must release their
// keys exactly once, only after the last holder closed, and nothing may touch them afterwards.
func sessionCacheLedger(t *testing.T, r *ev.Run) {
	L := ev.Pick(4, 5)
	for _, pol := range []string{"", "lru"} {
		for _, size := range []int{1, 2} {
			journal(fmt.Sprintf("C09 session-cache programs policy=%q size=%d", pol, size))
			if p := inBubble(t, func() {
				w := world.New("memguard")
				defer w.Close()
				time.Sleep(17 * time.Second)
				sessprog.EnumeratePrograms(L, func(prog []sessprog.Op) {
					_, _, st := sessprog.RunProgram(w, pol, size, prog, time.Hour)
					r.Eval(1)
					r.Count("session_cache_programs", 1)
					if st[2] >= 2 {
						r.Distinct("sessprog|" + pol + fmt.Sprint(size) + sessprog.ProgString(prog))
					}
					for _, f := range sessprog.LastLedger {
						kind, msg, _ := strings.Cut(f, "|")
						r.Violation("session-cache-"+kind, fmt.Sprintf("session cache %q size %d program [%s]: %s", pol, size, sessprog.ProgString(prog), msg), map[string]any{"program": sessprog.ProgString(prog)})
					}
				})
			}); p != nil {
				r.Violation("panic:session-cache-programs", fmt.Sprint(p), nil)
			}
		}
	}
}

// capacityScenarios: with evicting key caches the number of live secrets at quiescent moments never exceeds what the
// open caches are entitled to hold (their configured capacities), whatever is rotated, revoked or read back.
func capacityScenarios(t *testing.T, r *ev.Run) {
	type shape struct {
		name         string
		skPol        string
		skCap        int
		ikPol        string
		ikCap        int
		shared       bool
		openSessions int
	}
	shapes := []shape{
		{"sk-lru-1/ik-shared-lru-2", "lru", 1, "lru", 2, true, 3},
		{"sk-slru-2/ik-shared-lfu-1", "slru", 2, "lfu", 1, true, 3},
		{"sk-lfu-1/ik-per-session-lru-1", "lfu", 1, "lru", 1, false, 2},
		{"sk-tinylfu-1/ik-shared-tinylfu-2", "tinylfu", 1, "tinylfu", 2, true, 3},
		{"sk-lru-1/ik-shared-lru-10", "lru", 1, "lru", 10, true, 3},
	}
	for _, sh := range shapes {
		sh := sh
		journal("C09 capacity " + sh.name)
		if p := inBubble(t, func() {
			w := world.New("memguard")
			defer w.Close()
			time.Sleep(11 * time.Second)
			c := world.Default(tE, tR, tP)
			c.SKPolicy, c.SKCap, c.IKPolicy, c.IKCap, c.SharedIK = sh.skPol, sh.skCap, sh.ikPol, sh.ikCap, sh.shared
			f := w.Factory(c, "svc", "prod")
			ctx := context.Background()
			parts := []string{"P0", "P1", "P2"}[:sh.openSessions]
			sess := map[string]*appencryption.Session{}
			for _, p := range parts {
				sess[p], _ = f.GetSession(p)
			}
			bound := sh.skCap + sh.ikCap
			if !sh.shared {
				bound = sh.skCap + sh.ikCap*len(parts)
			}
			var recs []prior
			check := func(when string) {
				synctest.Wait()
				live := w.Led.Live()
				r.Count("capacity_checks", 1)
				if len(live) > bound {
					r.Violation("live-secrets-exceed-cache-capacities", fmt.Sprintf("shape %s, %s: %d secrets are live at a quiescent moment, the open caches may hold at most %d (SK cache %s/%d, IK cache %s/%d shared=%v, %d sessions)",
						sh.name, when, len(live), bound, sh.skPol, sh.skCap, sh.ikPol, sh.ikCap, sh.shared, len(parts)), map[string]any{"shape": sh.name, "when": when})
				}
			}
			for gen := 0; gen < 4; gen++ {
				for _, p := range parts {
					pl := []byte(fmt.Sprintf("gen%d-%s", gen, p))
					d, err := sess[p].Encrypt(ctx, pl)
					if err != nil {
						r.Violation("capacity-scenario-op-failed", fmt.Sprintf("shape %s: encrypt failed: %v", sh.name, err), nil)
						return
					}
					recs = append(recs, prior{p, pl, d})
					check(fmt.Sprintf("after encrypt gen %d %s", gen, p))
				}
				// read records of every earlier generation back: old SKs and IKs are loaded again
				for _, rc := range recs {
					if out, err := sess[rc.part].Decrypt(ctx, *world.CopyDRR(rc.drr)); err != nil || !bytes.Equal(out, rc.payload) {
						r.Violation("capacity-scenario-op-failed", fmt.Sprintf("shape %s: decrypt of an old record failed: %v", sh.name, err), nil)
						return
					}
					check("after decrypt of an older record")
				}
				time.Sleep(tE + 2*tP) // next generation
			}
			for _, s := range sess {
				s.Close()
			}
			f.Close()
			r.Eval(1)
			r.Distinct("capacity|" + sh.name)
		}); p != nil {
			r.Violation("panic:capacity-scenario", fmt.Sprint(p), nil)
		}
	}
}

// largeCacheLedger: key caches at the sizes where the eviction policies change shape (TinyLFU's admission window and
// the SLRU's protected segment exist from capacity 100 on) with a working set somewhat larger than the cache and a
// skewed revisit pattern, through the leak ledger: at quiescent moments the live secrets stay within the caches'
// capacities, and after the sessions and the factory are closed every secret has been released.
func largeCacheLedger(t *testing.T, r *ev.Run) {
	for _, pol := range []string{"tinylfu", "slru", "lfu", "lru"} {
		for _, cp := range []int{100, 101} {
			name := fmt.Sprintf("shared-ik-%s-%d", pol, cp)
			journal("C09 large cache " + name)
			if p := inBubble(t, func() {
				w := world.New("memguard")
				defer w.Close()
				w.Led.NoHash = true
				time.Sleep(11 * time.Second)
				c := world.Default(tE, tR, tP)
				c.SKPolicy, c.SKCap, c.IKPolicy, c.IKCap, c.SharedIK = "lru", 4, pol, cp, true
				f := w.Factory(c, "svc", "prod")
				ctx := context.Background()
				nparts := cp + 25
				use := func(i int) bool {
					s, err := f.GetSession(fmt.Sprintf("part-%d", i))
					if err != nil {
						return false
					}
					defer s.Close()
					d, err := s.Encrypt(ctx, []byte("x"))
					if err == nil {
						_, err = s.Decrypt(ctx, *d)
					}
					if err != nil {
						r.Violation("capacity-scenario-op-failed", fmt.Sprintf("%s: partition %d: %v", name, i, err), nil)
						return false
					}
					return true
				}
				rng := rand.New(rand.NewSource(int64(cp)*7 + int64(len(pol))))
				for round := 0; round < 3; round++ {
					for i := 0; i < nparts; i++ {
						if !use(i) {
							return
						}
						// a few hot partitions come back again and again (they get promoted), others once in a while
						if !use(rng.Intn(8)) || (i%5 == 0 && !use(rng.Intn(nparts))) {
							return
						}
					}
					synctest.Wait()
					if live := len(w.Led.Live()); live > cp+4 {
						r.Violation("live-secrets-exceed-cache-capacities", fmt.Sprintf("%s: after round %d %d secrets are live at a quiescent moment, the caches may hold at most %d", name, round, live, cp+4), nil)
					}
				}
				f.Close()
				synctest.Wait()
				if live := w.Led.Live(); len(live) > 0 {
					r.Violation("secret-leaked", fmt.Sprintf("%s: %d of %d secrets are still open after every session and the factory were closed", name, len(live), w.Led.Len()), map[string]any{"shape": name})
				}
				for _, sr := range w.Led.Recs() {
					if sr.State().TouchAfterClose > 0 {
						r.Violation("touch-after-close", fmt.Sprintf("%s: %s was used after it had been released", name, sr), nil)
						break
					}
				}
				r.Eval(1)
				r.Count("large_cache_ledger_cases", 1)
				r.Distinct("large-cache|" + name)
			}); p != nil {
				r.Violation("panic:capacity-scenario", fmt.Sprintf("%s: %v", name, p), nil)
			}
		}
	}
}

// awsPlaintexts checks that data-key plaintexts obtained from the (fake) cloud KMS are wiped by both plug-ins.
func awsPlaintexts(t *testing.T, r *ev.Run) {
	awsx.Sweep(r, "C10", ev.Pick(2, 3), 1)
}
