package faults

import (
	"bytes"
	"context"
	"crypto/sha256"
	"encoding/hex"
	"fmt"
	"math/rand"
	"strings"
	"sync/atomic"
	"testing"
	"testing/synctest"
	"time"

	"github.com/godaddy/asherah/go/appencryption"

	"verif/harness/creators"
	"verif/harness/ev"
	"verif/harness/probe"
	"verif/harness/sched"
	"verif/harness/world"
)

type proc struct {
	label    string
	f        *appencryption.SessionFactory
	s        *appencryption.Session
	recs     []*appencryption.DataRowRecord
	pays     [][]byte
	errs     []error
	encs     int
	panicked any
}

type schedCell struct {
	name   string
	nproc  int
	encs   int // encrypts per process
	sample int // > 0: this many seeded random schedules instead of the full enumeration (space too large)
	prep   func(e *env, ps []*proc)
}

func schedCells() []schedCell {
	newProcs := func(e *env, ps []*proc, from int) {
		for i := from; i < len(ps); i++ {
			ps[i].f = e.w.Factory(cfgOf("simple"), "svc", "prod")
			ps[i].s, _ = ps[i].f.GetSession("P")
		}
	}
	cold := func(e *env, ps []*proc) { newProcs(e, ps, 0) }
	return []schedCell{
		{"cold", 2, 1, 0, cold},
		{"cold-2enc", 2, 2, 0, cold},
		{"both-expired", 2, 1, 0, func(e *env, ps []*proc) { e.producer("P", 1); time.Sleep(tE + 2*tP); newProcs(e, ps, 0) }},
		{"sk-expired-ik-valid", 2, 1, 0, func(e *env, ps []*proc) {
			e.producer("seed", 1)
			time.Sleep(tE / 2)
			e.producer("P", 1)
			time.Sleep(tE/2 + 2*tP)
			newProcs(e, ps, 0)
		}},
		{"ik-revoked", 2, 1, 0, func(e *env, ps []*proc) { e.producer("P", 1); e.revoke("ik"); time.Sleep(2 * tP); newProcs(e, ps, 0) }},
		// revoked inside the creation-stamp window the keys were created in: a replacement gets the same stamp, its
		// insert is refused and the stored (revoked) key is what everybody adopts
		{"sk-revoked-in-window", 2, 1, 0, func(e *env, ps []*proc) { e.producer("P", 1); e.revoke("sk"); newProcs(e, ps, 0) }},
		{"ik-revoked-in-window", 2, 1, 0, func(e *env, ps []*proc) { e.producer("P", 1); e.revoke("ik"); newProcs(e, ps, 0) }},
		{"ik+sk-revoked-in-window", 2, 1, 0, func(e *env, ps []*proc) {
			e.producer("P", 1)
			e.revoke("sk")
			e.revoke("ik")
			newProcs(e, ps, 0)
		}},
		{"sk-revoked", 2, 1, 0, func(e *env, ps []*proc) { e.producer("P", 1); e.revoke("sk"); time.Sleep(2 * tP); newProcs(e, ps, 0) }},
		{"warm-stale-p0", 2, 1, 0, func(e *env, ps []*proc) {
			// process 0 is long-lived with warm caches that have gone stale and whose keys expired meanwhile
			ps[0].f = e.w.Factory(cfgOf("simple"), "svc", "prod")
			ps[0].s, _ = ps[0].f.GetSession("P")
			pl := []byte("warm-up")
			d, err := ps[0].s.Encrypt(context.Background(), pl)
			if err != nil {
				panic(err)
			}
			e.priors = append(e.priors, prior{"P", pl, d})
			time.Sleep(tE + 2*tP)
			newProcs(e, ps, 1)
		}},
		{"ik+sk-revoked-warm-p0", 2, 1, 0, func(e *env, ps []*proc) {
			// process 0 is long-lived and still holds the (now revoked) SK and IK in its caches; process 1 is cold
			ps[0].f = e.w.Factory(cfgOf("simple"), "svc", "prod")
			ps[0].s, _ = ps[0].f.GetSession("P")
			pl := []byte("warm-up")
			d, err := ps[0].s.Encrypt(context.Background(), pl)
			if err != nil {
				panic(err)
			}
			e.priors = append(e.priors, prior{"P", pl, d})
			e.revoke("ik")
			e.revoke("sk")
			time.Sleep(tR/2 + 2*tP) // a later stamp is creatable; process 0's caches are still fresh
			newProcs(e, ps, 1)
		}},
		{"ik+sk-revoked-stale-p0", 2, 1, 0, func(e *env, ps []*proc) {
			ps[0].f = e.w.Factory(cfgOf("simple"), "svc", "prod")
			ps[0].s, _ = ps[0].f.GetSession("P")
			pl := []byte("warm-up")
			d, err := ps[0].s.Encrypt(context.Background(), pl)
			if err != nil {
				panic(err)
			}
			e.priors = append(e.priors, prior{"P", pl, d})
			e.revoke("ik")
			e.revoke("sk")
			time.Sleep(2*tR + 2*tP)
			newProcs(e, ps, 1)
		}},
		{"ik+sk-revoked-p0-sk-fresh-ik-stale", 2, 1, 0, func(e *env, ps []*proc) {
			// process 0 re-read the SK shortly before it was revoked (through another partition), so its SK cache
			// entry is still fresh and looks valid while its IK entry for P is stale: it rotates P's IK under the
			// revoked SK while the cold process 1 rotates the SK as well
			ps[0].f = e.w.Factory(cfgOf("simple"), "svc", "prod")
			ps[0].s, _ = ps[0].f.GetSession("P")
			pl := []byte("warm-up")
			d, err := ps[0].s.Encrypt(context.Background(), pl)
			if err != nil {
				panic(err)
			}
			time.Sleep(tR + time.Second)
			q, _ := ps[0].f.GetSession("Q")
			if _, err := q.Encrypt(context.Background(), pl); err != nil { // reloads the stale SK entry
				panic(err)
			}
			q.Close()
			e.priors = append(e.priors, prior{"P", pl, d})
			e.revoke("ik")
			e.revoke("sk")
			time.Sleep(tR / 2) // P's IK entry (loaded at the start) is stale, the SK entry is not
			newProcs(e, ps, 1)
		}},
		{"both-warm-keys-expire-2enc", 2, 2, 0, func(e *env, ps []*proc) {
			// both processes are long-lived: they (re-)checked their cached keys shortly before the keys expire, so
			// at the race the cache entries are still fresh while the keys are no longer valid; each process
			// encrypts twice (the second encrypt meets whatever the first one left in the cache)
			e.producer("P", 1)
			time.Sleep(tE - tR/4)
			newProcs(e, ps, 0)
			for _, p := range ps {
				pl := []byte("warm-up " + p.label)
				d, err := p.s.Encrypt(context.Background(), pl)
				if err != nil {
					panic(err)
				}
				e.priors = append(e.priors, prior{"P", pl, d})
			}
			time.Sleep(tR/4 + 2*tP) // expired now; entries loaded tR/4+2tP ago are fresh
		}},
		{"cold-slow-kms-and-aead", 2, 1, 0, func(e *env, ps []*proc) {
			// key creation is slow: wrapping a new key takes longer than one creation-date precision unit
			e.w.KMS.Latency = func(op string) time.Duration {
				if op == "encrypt" {
					return tP + 7*time.Second
				}
				return 0
			}
			n := 0
			e.w.AEAD.Latency = func(string) time.Duration {
				n++
				if n <= 2 {
					return tP + 3*time.Second
				}
				return 0
			}
			time.Sleep(tP - 20*time.Second) // close to a precision boundary
			newProcs(e, ps, 0)
		}},
		{"cold-3proc", 3, 1, 0, cold},
		{"both-expired-3proc", 3, 1, 0, func(e *env, ps []*proc) { e.producer("P", 1); time.Sleep(tE + 2*tP); newProcs(e, ps, 0) }},
		{"cold-3proc-2enc(sampled)", 3, 2, 6000, cold},
		{"cold-4proc(sampled)", 4, 1, 6000, cold},
		{"sk-revoked-3proc-2enc(sampled)", 3, 2, 4000, func(e *env, ps []*proc) { e.producer("P", 1); e.revoke("sk"); time.Sleep(2 * tP); newProcs(e, ps, 0) }},
	}
}

type schedResult struct {
	verdicts14  []verdict
	verdicts09  []verdict
	trace       []string
	refused     int
	unsavedKeys int
	stateHash   string
	winners     string
}

// runSchedule executes one schedule of cell c chosen by d. Must run inside a bubble.
// schedBackend is the metastore back end of the schedules that follow (see world.Backends).
var schedBackend = "memory"

func runSchedule(c schedCell, d *sched.DFS) (res schedResult) {
	e := &env{w: world.NewOn("memguard", schedBackend), cfg: cfgOf("simple")}
	defer e.w.Close()
	reresolved := map[string]bool{}
	probe.SetHookSink(func(point string, arg any) {
		if point == "ikfromekr.reresolved_sk" {
			if ki, ok := arg.(appencryption.VerifKeyInfo); ok {
				reresolved[ki.Secret] = true
			}
		}
	})
	defer probe.SetHookSink(nil)
	time.Sleep(41 * time.Second)
	ps := make([]*proc, c.nproc)
	for i := range ps {
		ps[i] = &proc{label: fmt.Sprintf("p%d", i), encs: c.encs}
	}
	c.prep(e, ps)
	if a := e.w.Audit(); a != "" {
		panic("audit after prep: " + a)
	}
	ctrl := sched.NewController()
	e.w.MS.WhoFn = sched.Label
	e.w.MS.Gate = func(mc *probe.MSCall) { ctrl.Park(mc.Op + ":" + shortID(mc.ID)) }
	msFrom := e.w.MS.N()
	var live atomic.Int32
	live.Store(int32(len(ps)))
	for _, p := range ps {
		p := p
		go func() {
			defer live.Add(-1)
			sched.SetLabel(p.label)
			defer sched.ClearLabel()
			defer func() {
				if pv := recover(); pv != nil {
					p.panicked = pv
				}
			}()
			for k := 0; k < p.encs; k++ {
				pl := []byte(fmt.Sprintf("payload of %s #%d 0123456789", p.label, k))
				r, err := p.s.Encrypt(context.Background(), pl)
				p.recs = append(p.recs, r)
				p.pays = append(p.pays, pl)
				p.errs = append(p.errs, err)
			}
		}()
	}
	for steps := 0; steps < 10000; steps++ {
		synctest.Wait()
		parked := ctrl.Parked()
		if len(parked) == 0 {
			if live.Load() == 0 {
				break
			}
			// nobody is parked but somebody is still running: it sleeps inside a slow external call
			time.Sleep(time.Second)
			continue
		}
		k := d.Choose(len(parked))
		ctrl.Release(parked[k].Label)
	}
	e.w.MS.Gate = nil
	res.trace = ctrl.Trace
	add := func(sig, f string, a ...any) {
		res.verdicts14 = append(res.verdicts14, verdict{sig, fmt.Sprintf(f, a...)})
	}

	var winners []string
	for _, mc := range e.w.MS.CallsFrom(msFrom) {
		if mc.Op == "store" {
			if mc.OK {
				winners = append(winners, mc.Who+":"+shortID(mc.ID))
			} else {
				res.refused++
			}
		}
	}
	res.winners = strings.Join(winners, ",")

	for _, p := range ps {
		if p.panicked != nil {
			add("panic-in-process", "%s panicked: %v", p.label, p.panicked)
			continue
		}
		for k, err := range p.errs {
			if err != nil {
				add("encrypt-failed-without-fault", "%s encrypt #%d failed although nothing was injected: %v", p.label, k, err)
				continue
			}
			r := p.recs[k]
			ikid, ikc := r.Key.ParentKeyMeta.ID, r.Key.ParentKeyMeta.Created
			row := e.w.Raw(ikid, ikc)
			if row == nil {
				add("record-under-unpersisted-ik", "%s's record names IK (%s,%d) which is not in the metastore", p.label, ikid, ikc)
				continue
			}
			if row.ParentKeyMeta == nil || e.w.Raw(row.ParentKeyMeta.ID, row.ParentKeyMeta.Created) == nil {
				add("ik-names-unpersisted-sk", "IK (%s,%d) names an SK that is not in the metastore", ikid, ikc)
			}
			// every other process and a fresh one must be able to decrypt it
			for _, q := range ps {
				if q.panicked != nil {
					continue
				}
				out, derr := q.s.Decrypt(context.Background(), *world.CopyDRR(r))
				if derr != nil || !bytes.Equal(out, p.pays[k]) {
					add("other-process-cannot-decrypt", "%s cannot decrypt %s's record #%d: %v", q.label, p.label, k, derr)
				}
			}
			if out, derr := e.freshDecrypt("P", r); derr != nil || !bytes.Equal(out, p.pays[k]) {
				add("fresh-process-cannot-decrypt", "a fresh factory cannot decrypt %s's record #%d: %v", p.label, k, derr)
			}
		}
	}
	for _, pr := range e.priors {
		if out, derr := e.freshDecrypt(pr.part, pr.drr); derr != nil || !bytes.Equal(out, pr.payload) {
			add("earlier-record-lost", "a record written before the race no longer decrypts: %v", derr)
		}
	}
	if a := e.w.Audit(); a != "" {
		add("store-row-mutated", "%s", a)
	}
	h := sha256.New()
	for _, row := range e.w.Rows() {
		fmt.Fprintf(h, "%s|%d|%v;", row.ID, row.Created, row.Rec.ParentKeyMeta)
	}
	res.stateHash = hex.EncodeToString(h.Sum(nil)[:8])

	for _, p := range ps {
		if p.s != nil {
			p.s.Close()
		}
		if p.f != nil {
			p.f.Close()
		}
	}
	synctest.Wait()
	// C14, "a process whose insert is refused discards its unsaved key": the generated keys whose wrapped form was
	// refused by the metastore are identified through the AEAD/KMS monitors; their secrets must be closed by now
	refused := map[[32]byte]bool{} // hash of the wrapped key in a refused insert
	for _, mc := range e.w.MS.CallsFrom(msFrom) {
		if mc.Op == "store" && !mc.OK && mc.Fault == "" && mc.In != nil {
			refused[sha256.Sum256(mc.In.EncryptedKey)] = true
		}
	}
	unsaved := map[[32]byte]bool{} // hash of the plaintext of such a key
	for _, ac := range e.w.AEAD.CallsFrom(0) {
		if ac.Op == 'E' && ac.OK && refused[ac.Cipher] {
			unsaved[ac.PlainFull] = true
		}
	}
	for _, kc := range e.w.KMS.Calls() {
		if kc.Op == "encrypt" && kc.Err == "" && refused[sha256.Sum256(kc.Wrapped)] {
			unsaved[kc.Full] = true
		}
	}
	for _, sr := range e.w.Led.Recs() {
		if sr.Creator == "random" && unsaved[sr.Hash] {
			res.unsavedKeys++
			if sr.State().CloseReturned == 0 {
				add("unsaved-key-not-discarded", "%s is a key this cell generated whose insert was refused; it is still open after every process closed", sr)
			}
		}
	}
	for _, sr := range e.w.Led.Recs() {
		st := sr.State()
		switch {
		case st.CloseReturned == 0 && reresolved[sr.Ptr]:
			res.verdicts09 = append(res.verdicts09, verdict{"secret-leaked:reresolved-parent-sk-not-released", fmt.Sprintf("%s still open after every process closed: reference taken on the re-resolved parent SK never released", sr)})
		case st.CloseReturned == 0:
			res.verdicts09 = append(res.verdicts09, verdict{"secret-leaked", fmt.Sprintf("%s still open after every process closed", sr)})
		case st.TouchAfterClose > 0:
			res.verdicts09 = append(res.verdicts09, verdict{"touch-after-close", fmt.Sprintf("%s accessed after Close", sr)})
		case st.CloseCalls > 1:
			res.verdicts09 = append(res.verdicts09, verdict{"secret-closed-twice", fmt.Sprintf("%s was closed %d times", sr, st.CloseCalls)})
		}
	}
	return res
}

// exploreSchedules enumerates (or samples) the schedules of every cell.
func exploreSchedules(t *testing.T, r *ev.Run, prop string, cellFilter func(schedCell) bool, maxPerCell int, randomBeyond bool) {
	exhaustive := true
	for _, c := range schedCells() {
		if cellFilter != nil && !cellFilter(c) {
			continue
		}
		d := &sched.DFS{}
		if c.sample > 0 {
			rs := rand.New(rand.NewSource(ev.Seed()*7 + int64(len(c.name))))
			d.Random = rs.Intn
		}
		n := 0
		states := map[string]bool{}
		for {
			if c.sample > 0 {
				d.SetPath(nil) // a fresh random schedule each time
			}
			d.Reset()
			var res schedResult
			journal(fmt.Sprintf("%s schedule cell=%s path=%v", prop, c.name, d.Path()))
			if p := inBubble(t, func() { res = runSchedule(c, d) }); p != nil {
				r.Violation("panic:schedule:"+c.name, fmt.Sprintf("cell=%s schedule=%v: panic/deadlock: %v", c.name, d.Path(), p), map[string]any{"cell": c.name, "path": d.Path()})
			}
			n++
			r.Eval(1)
			states[res.stateHash] = true
			r.SetAdd("insert_winner_patterns", c.name+"|"+res.winners)
			r.Count("unsaved_keys_of_refused_inserts_checked", int64(res.unsavedKeys))
			if res.refused > 0 {
				r.Distinct(c.name + "|" + strings.Join(res.trace, ","))
				r.Count("schedules_with_refused_insert", 1)
			}
			vs := res.verdicts14
			if prop == "C09" {
				vs = res.verdicts09
			}
			for _, v := range vs {
				r.Violation(v.sig, fmt.Sprintf("cell=%s schedule=%v: %s", c.name, res.trace, v.detail), map[string]any{"engine": "faults/schedules", "cell": c.name, "path": d.Path(), "trace": res.trace})
			}
			if n == 1 || (res.refused > 0 && r.WantSample()) {
				r.Sample(map[string]any{"cell": c.name, "schedule": res.trace, "winners": res.winners, "refused_inserts": res.refused})
			}
			if c.sample > 0 {
				exhaustive = false
				if n >= c.sample || n >= maxPerCell {
					break
				}
				continue
			}
			if !d.Next() {
				break
			}
			if n >= maxPerCell {
				exhaustive = false
				r.Count("cells_truncated", 1)
				break
			}
		}
		r.Count("schedules:"+schedBackend+":"+c.name, int64(n))
		r.Count("distinct_final_store_states:"+schedBackend+":"+c.name, int64(len(states)))
	}
	r.Exhaustive(exhaustive)
	_ = rand.Int
}

func TestC14(t *testing.T) {
	r := ev.Start("C14", "exploration")
	r.Rule("every interleaving, at the granularity of individual metastore calls, of 2 (and 3) processes - each its own factory and session over one gated, monitored metastore, same virtual time so truncated creation stamps collide - enumerated depth-first with replay from the starting states cold, both keys expired, SK expired/IK valid, IK revoked, SK revoked, one long-lived process with stale caches; the controller releases exactly one parked call per step (synctest.Wait = everybody parked). After each schedule: every encrypt succeeded, every record's IK row and its SK row exist, every process and a fresh factory decrypt every record, rows never changed. Plus real-goroutine rounds over every back end in which six cold processes encrypt for one new partition with their key inserts overlapping inside the metastore implementation. Distinct+non-trivial: schedules in which at least one insert was refused.")
	r.Assume("processes are modelled as separate factories sharing the metastore and KMS; one virtual clock for all", "quick tier truncates each cell (exhaustive=false then); thorough enumerates the 2-process cells completely and caps 3-process cells")
	max := ev.Pick(350, 40000)
	exploreSchedules(t, r, "C14", func(c schedCell) bool {
		return ev.Thorough() || (c.sample == 0 && (c.nproc == 2 || c.name == "cold-3proc"))
	}, max, false)
	// the racing-creator cells once more end to end over the DynamoDB plug-ins: "whichever of them wins each insert"
	// is then decided by the plug-in's conditional put
	for _, be := range []string{"dynamodb-v1", "dynamodb-v2", "sql"} {
		schedBackend = be
		exploreSchedules(t, r, "C14", func(c schedCell) bool {
			return c.sample == 0 && c.nproc == 2 && (c.name == "cold" || c.name == "both-expired" || c.name == "ik-revoked" || ev.Thorough())
		}, ev.Pick(120, 4000), false)
		schedBackend = "memory"
	}
	// real goroutines: the gated schedules above execute one metastore call at a time; here the inserts of six cold
	// processes overlap inside the metastore implementation itself
	creators.Run(r, "C14", ev.Pick(40, 800), journal)
	r.Finish(t)
}
