package grpcsrv

import (
	"bytes"
	"context"
	"fmt"
	"strings"
	"testing"
	"testing/synctest"
	"time"

	pb "github.com/godaddy/asherah/server/go/api"
	"github.com/godaddy/asherah/server/go/pkg/server"

	"verif/harness/ev"
)

// agedSidecar: a sidecar process that outlives --expire-after, in virtual time (the stream handler is synchronous
// code, so a whole stream runs inside a testing/synctest bubble). One long-lived stream encrypts, the keys expire
// while they are cached, the next encrypt rotates them, and then the stream - and new streams of the same and of
// another partition - ask for records from before and after the rotation. Every request gets the right answer.
func agedSidecar(t *testing.T, r *ev.Run) {
	type variant struct {
		name string
		opt  func(o *server.Options)
	}
	variants := []variant{
		{"plain", func(o *server.Options) {}},
		{"session-caching", func(o *server.Options) {
			o.EnableSessionCaching = true
			o.SessionCacheMaxSize = 2
			o.SessionCacheDuration = 3 * time.Hour
		}},
	}
	for _, v := range variants {
		for _, gap := range []time.Duration{61 * time.Minute, 25 * time.Hour} {
			name := fmt.Sprintf("aged-sidecar/%s/idle=%s", v.name, gap)
			journal("C19 " + name)
			var viol [][2]string
			bad := func(sig, f string, a ...any) {
				viol = append(viol, [2]string{sig, name + ": " + fmt.Sprintf(f, a...)})
			}
			finished := false
			pv := func() (pv any) {
				defer func() { pv = recover() }()
				synctest.Test(t, func(t *testing.T) {
					time.Sleep(29 * time.Second)
					o := &server.Options{ServiceName: "svc", ProductID: "prod", Metastore: "memory", KMS: "static",
						ExpireAfter: time.Hour, CheckInterval: 10 * time.Minute}
					v.opt(o)
					app := server.NewAppEncryption(o)
					type step struct {
						what string // session | encrypt | decrypt | sleep
						part string
						rec  int // decrypt: index into recs
						d    time.Duration
					}
					type stored struct {
						d  *pb.DataRowRecord
						pl []byte
					}
					var recs []stored
					play := func(stream string, steps []step) {
						i, responses := 0, 0
						var cur step
						var curPl []byte
						fs := &fakeStream{ctx: context.Background()}
						fs.next = func() *pb.SessionRequest {
							for i < len(steps) && steps[i].what == "sleep" {
								time.Sleep(steps[i].d)
								i++
							}
							if i >= len(steps) {
								return nil
							}
							cur = steps[i]
							i++
							switch cur.what {
							case "session":
								return getSession(cur.part)
							case "encrypt":
								curPl = []byte(fmt.Sprintf("%s payload %d of stream %s", cur.part, len(recs), stream))
								return encryptReq(curPl)
							default:
								return decryptReq(cloneDRR(recs[cur.rec].d))
							}
						}
						fs.onSend = func(resp *pb.SessionResponse) {
							responses++
							r.Eval(1)
							switch cur.what {
							case "session":
								if isErr(resp) {
									bad("c19-protocol:get-session(valid)", "stream %s: get-session(%s) answered %v", stream, cur.part, resp)
								}
							case "encrypt":
								er := resp.GetEncryptResponse()
								if er == nil || er.GetDataRowRecord() == nil {
									bad("c19-protocol:encrypt", "stream %s, request #%d at %s: encrypt answered %v", stream, i, time.Now().UTC().Format("15:04:05"), resp)
									recs = append(recs, stored{&pb.DataRowRecord{}, nil})
								} else {
									recs = append(recs, stored{cloneDRR(er.GetDataRowRecord()), curPl})
									// "behaves exactly like the SDK": with --expire-after of one hour no record is written
									// under an intermediate key older than that
									if pk := er.GetDataRowRecord().GetKey().GetParentKeyMeta(); pk != nil {
										if age := time.Since(time.Unix(pk.GetCreated(), 0)); age > o.ExpireAfter {
											bad("c19-protocol:encrypt", "stream %s, request #%d: the record names an intermediate key that is %s old; the sidecar runs with --expire-after %s", stream, i, age, o.ExpireAfter)
										}
									}
								}
							case "decrypt":
								want := recs[cur.rec]
								if want.pl == nil {
									return
								}
								dr := resp.GetDecryptResponse()
								if dr == nil || !bytes.Equal(dr.GetData(), want.pl) {
									bad("c19-protocol:decrypt(genuine)", "stream %s, request #%d: decrypt of record #%d (written before/after the rotation) answered %v", stream, i, cur.rec, resp)
								}
							}
						}
						if err := app.Session(fs); err != nil {
							bad("c19-stream-error", "stream %s: Session returned %v", stream, err)
						}
						n := 0
						for _, s := range steps {
							if s.what != "sleep" {
								n++
							}
						}
						if responses != n {
							bad("c19-response-count", "stream %s: %d requests, %d responses", stream, n, responses)
						}
					}
					// stream 1 lives through the expiry
					play("1", []step{
						{what: "session", part: "partP"},
						{what: "encrypt"}, // rec 0: first generation
						{what: "decrypt", rec: 0},
						{what: "sleep", d: gap}, // the keys expire while cached
						{what: "decrypt", rec: 0},
						{what: "encrypt"},         // rec 1: rotation
						{what: "decrypt", rec: 0}, // the old key is needed again through the same caches
						{what: "decrypt", rec: 1},
						{what: "sleep", d: 11 * time.Minute},
						{what: "encrypt"}, // rec 2
						{what: "decrypt", rec: 0},
						{what: "decrypt", rec: 1},
						{what: "decrypt", rec: 2},
					})
					// new streams after the rotation: same partition, another partition (its key sits under the new system key)
					play("2", []step{{what: "session", part: "partP"}, {what: "decrypt", rec: 0}, {what: "decrypt", rec: 2}, {what: "encrypt"}, {what: "decrypt", rec: 3}})
					play("3", []step{{what: "session", part: "partQ"}, {what: "encrypt"}, {what: "decrypt", rec: 4}, {what: "sleep", d: gap}, {what: "encrypt"}, {what: "decrypt", rec: 4}, {what: "decrypt", rec: 5}})
					play("4", []step{{what: "session", part: "partP"}, {what: "decrypt", rec: 0}, {what: "decrypt", rec: 3}, {what: "encrypt"}, {what: "decrypt", rec: 6}, {what: "decrypt", rec: 1}})
					synctest.Wait()
					finished = true
				})
				return nil
			}()
			r.Count("aged_sidecar_scenarios", 1)
			r.Distinct(name)
			if pv != nil && finished && strings.Contains(fmt.Sprint(pv), "main bubble goroutine has exited") {
				// the sidecar never closes its session factory: the session cache's idle event goroutine is still there
				pv = nil
			}
			if pv != nil {
				viol = append(viol, [2]string{"c19-handler-panic", fmt.Sprintf("%s: %v", name, pv)})
			}
			for _, x := range viol {
				r.Violation(x[0], x[1], map[string]any{"engine": "grpcsrv/aged-sidecar", "variant": v.name})
			}
		}
	}
}
