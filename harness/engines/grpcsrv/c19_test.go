// Package grpcsrv drives the gRPC sidecar's stream handler with exhaustive short request sequences (in-process
// fake stream) and with concurrent streams over real gRPC (bufconn) (C19).
package grpcsrv

import (
	"bytes"
	"context"
	"errors"
	"fmt"
	"io"
	"math/rand"
	"net"
	"os"
	"strings"
	"sync"
	"sync/atomic"
	"testing"
	"time"

	"google.golang.org/grpc"
	"google.golang.org/grpc/credentials/insecure"
	"google.golang.org/grpc/metadata"
	"google.golang.org/grpc/test/bufconn"

	"github.com/godaddy/asherah/go/appencryption"
	"github.com/godaddy/asherah/go/appencryption/pkg/crypto/aead"
	"github.com/godaddy/asherah/go/appencryption/pkg/kms"
	sdklog "github.com/godaddy/asherah/go/appencryption/pkg/log"
	"github.com/godaddy/asherah/go/appencryption/pkg/persistence"
	pb "github.com/godaddy/asherah/server/go/api"
	"github.com/godaddy/asherah/server/go/pkg/server"

	"verif/harness/ev"
)

func journal(s string) {
	if p := os.Getenv("VERIF_JOURNAL"); p != "" {
		if f, err := os.OpenFile(p, os.O_APPEND|os.O_WRONLY|os.O_CREATE, 0o644); err == nil {
			fmt.Fprintln(f, s)
			f.Close()
		}
	}
}

// request kinds
const (
	kGetValid = iota
	kGetEmpty
	kEncrypt
	kDecGenuine
	kDecForeign
	kDecCorrupt
	kDecEmpty
	kEmptyReq
	nKinds
)

var kindNames = []string{"get-session(valid)", "get-session(empty)", "encrypt", "decrypt(genuine)", "decrypt(foreign)", "decrypt(corrupt)", "decrypt(empty)", "empty-request"}

// material shared by all sequences: records of partition "partA" and of a foreign partition
type material struct {
	genuine *pb.DataRowRecord
	payload []byte
	foreign *pb.DataRowRecord
}

func getSession(id string) *pb.SessionRequest {
	return &pb.SessionRequest{Request: &pb.SessionRequest_GetSession{GetSession: &pb.GetSession{PartitionId: id}}}
}
func encryptReq(data []byte) *pb.SessionRequest {
	return &pb.SessionRequest{Request: &pb.SessionRequest_Encrypt{Encrypt: &pb.Encrypt{Data: data}}}
}
func decryptReq(d *pb.DataRowRecord) *pb.SessionRequest {
	return &pb.SessionRequest{Request: &pb.SessionRequest_Decrypt{Decrypt: &pb.Decrypt{DataRowRecord: d}}}
}

func cloneDRR(d *pb.DataRowRecord) *pb.DataRowRecord {
	if d == nil {
		return nil
	}
	c := &pb.DataRowRecord{Data: append([]byte(nil), d.Data...)}
	if d.Key != nil {
		c.Key = &pb.EnvelopeKeyRecord{Created: d.Key.Created, Key: append([]byte(nil), d.Key.Key...)}
		if d.Key.ParentKeyMeta != nil {
			c.Key.ParentKeyMeta = &pb.KeyMeta{KeyId: d.Key.ParentKeyMeta.KeyId, Created: d.Key.ParentKeyMeta.Created}
		}
	}
	return c
}

// a client-side view of one stream: builds requests (some depend on earlier responses) and checks responses
type convo struct {
	part    string
	mat     *material
	state   string // uninit | init | rejected
	lastRec *pb.DataRowRecord
	lastPay []byte
	n       int
	variant int
}

func (c *convo) build(kind int) (*pb.SessionRequest, []byte) {
	c.n++
	switch kind {
	case kGetValid:
		return getSession(c.part), nil
	case kGetEmpty:
		return getSession(""), nil
	case kEncrypt:
		pl := []byte(fmt.Sprintf("payload-%s-%d", c.part, c.n))
		if c.n%3 == 0 {
			pl = []byte{} // an empty payload is a payload
		}
		return encryptReq(pl), pl
	case kDecGenuine:
		if c.lastRec != nil {
			return decryptReq(cloneDRR(c.lastRec)), c.lastPay
		}
		return decryptReq(cloneDRR(c.mat.genuine)), c.mat.payload
	case kDecForeign:
		return decryptReq(cloneDRR(c.mat.foreign)), nil
	case kDecCorrupt:
		d := cloneDRR(c.mat.genuine)
		if c.lastRec != nil {
			d = cloneDRR(c.lastRec)
		}
		d.Data[len(d.Data)/2] ^= 0x40
		return decryptReq(d), nil
	case kDecEmpty:
		switch c.variant % 7 {
		case 4, 5, 6:
			// a genuine record whose ciphertext (or encrypted key) is cut down to little more than a nonce
			d := cloneDRR(c.mat.genuine)
			n := []int{12, 20, 27}[c.variant%7-4]
			if c.variant%2 == 0 {
				if len(d.Data) > n {
					d.Data = d.Data[:n]
				}
			} else if len(d.Key.Key) > n {
				d.Key.Key = d.Key.Key[:n]
			}
			return decryptReq(d), nil
		case 0:
			return decryptReq(nil), nil
		case 1:
			return decryptReq(&pb.DataRowRecord{}), nil
		case 2:
			return decryptReq(&pb.DataRowRecord{Key: &pb.EnvelopeKeyRecord{}}), nil
		default:
			return decryptReq(&pb.DataRowRecord{Data: []byte{1, 2, 3}, Key: &pb.EnvelopeKeyRecord{Key: []byte{4}, ParentKeyMeta: &pb.KeyMeta{}}}), nil
		}
	default:
		return &pb.SessionRequest{}, nil
	}
}

func isErr(r *pb.SessionResponse) bool { return r != nil && r.GetErrorResponse() != nil }

// check applies the protocol automaton to one (request kind, response) pair and returns a problem or "".
func (c *convo) check(kind int, want []byte, resp *pb.SessionResponse) string {
	switch kind {
	case kGetValid, kGetEmpty:
		switch c.state {
		case "uninit":
			if kind == kGetValid {
				if isErr(resp) || resp == nil {
					return fmt.Sprintf("get-session for a valid partition was answered with %v", resp)
				}
				c.state = "init"
			} else {
				if !isErr(resp) {
					return "get-session with an empty partition id was not answered with an error response"
				}
				c.state = "rejected"
			}
		case "init":
			if !isErr(resp) {
				return "a second get-session on an initialised stream was not answered with an error response"
			}
		case "rejected":
			// a retry may be accepted or refused
			if kind == kGetValid && !isErr(resp) && resp != nil {
				c.state = "init"
			}
		}
	case kEncrypt:
		if c.state != "init" {
			if !isErr(resp) {
				return "encrypt before a successful get-session was not answered with an error response"
			}
			return ""
		}
		er := resp.GetEncryptResponse()
		if er == nil || er.DataRowRecord == nil || er.DataRowRecord.Key == nil || er.DataRowRecord.Key.ParentKeyMeta == nil {
			return fmt.Sprintf("encrypt on an initialised stream did not return a record: %v", resp)
		}
		wantID := "_IK_" + c.part + "_svc_prod"
		if er.DataRowRecord.Key.ParentKeyMeta.KeyId != wantID {
			return fmt.Sprintf("record names key id %q, want %q", er.DataRowRecord.Key.ParentKeyMeta.KeyId, wantID)
		}
		c.lastRec, c.lastPay = cloneDRR(er.DataRowRecord), want
	case kDecGenuine:
		if c.state != "init" {
			if !isErr(resp) {
				return "decrypt before a successful get-session was not answered with an error response"
			}
			return ""
		}
		dr := resp.GetDecryptResponse()
		if dr == nil || !bytes.Equal(dr.Data, want) {
			return fmt.Sprintf("decrypt of a genuine record did not return the original payload: %v", resp)
		}
	case kDecForeign, kDecCorrupt, kDecEmpty:
		if !isErr(resp) {
			return fmt.Sprintf("%s was not answered with an error response (state %s): %v", kindNames[kind], c.state, resp)
		}
	}
	return ""
}

// ---- in-process stream

type fakeStream struct {
	ctx    context.Context
	next   func() *pb.SessionRequest // nil = end of stream
	onSend func(*pb.SessionResponse)
}

func (f *fakeStream) Recv() (*pb.SessionRequest, error) {
	r := f.next()
	if r == nil {
		return nil, io.EOF
	}
	return r, nil
}
func (f *fakeStream) Send(r *pb.SessionResponse) error { f.onSend(r); return nil }
func (f *fakeStream) SetHeader(metadata.MD) error      { return nil }
func (f *fakeStream) SendHeader(metadata.MD) error     { return nil }
func (f *fakeStream) SetTrailer(metadata.MD)           {}
func (f *fakeStream) Context() context.Context         { return f.ctx }
func (f *fakeStream) SendMsg(m any) error              { return nil }
func (f *fakeStream) RecvMsg(m any) error              { return nil }

// verboseLogger formats every debug statement of the SDK (and throws the text away), as a real logger would.
type verboseLogger struct{}

func (verboseLogger) Debugf(f string, a ...interface{}) { _ = fmt.Sprintf(f, a...) }

type quietLogger struct{}

func (quietLogger) Debugf(string, ...interface{}) {}

// verboseHung is set when the verbose variant was given up because requests stay unanswered.
var verboseHung bool

func newApp() *server.AppEncryption { return newAppOpt(false) }

// newAppOpt builds the service exactly as the sidecar's main does, from an Options value; with sess the shared
// session cache is on and small (2 sessions), so that streams of three partitions evict each other's sessions while
// those are in use.
func newAppOpt(sess bool) *server.AppEncryption {
	o := &server.Options{ServiceName: "svc", ProductID: "prod", Metastore: "memory", KMS: "static",
		ExpireAfter: 24 * time.Hour, CheckInterval: time.Hour}
	if sess {
		o.EnableSessionCaching = true
		o.SessionCacheMaxSize = 2
		o.SessionCacheDuration = time.Hour
	}
	return server.NewAppEncryption(o)
}

// newAppUnsetDurations builds the service the way the sidecar runs when it is started without --expire-after and
// --check-interval (both are optional and have no default): the policy then carries zero durations, every key counts
// as expired as soon as it exists and every use re-checks it.
func newAppUnsetDurations() *server.AppEncryption {
	return server.NewAppEncryption(&server.Options{ServiceName: "svc", ProductID: "prod", Metastore: "memory", KMS: "static"})
}

// materialsFor makes one material per partition: its own genuine record plus the next partition's as the foreign one.
func materialsFor(app *server.AppEncryption, parts []string) map[string]*material {
	recs := map[string]*material{}
	for _, p := range parts {
		m := makeMaterialPart(app, p)
		recs[p] = m
	}
	for i, p := range parts {
		recs[p].foreign = recs[parts[(i+1)%len(parts)]].genuine
	}
	return recs
}

// runSeq plays one request sequence on a fresh stream; returns (signature, detail).
func runSeq(app *server.AppEncryption, mat *material, seq []int, variant int) (sig, detail string) {
	c := &convo{part: "partA", mat: mat, state: "uninit", variant: variant}
	i := 0
	var pendingKind int
	var pendingWant []byte
	responses := 0
	names := make([]string, len(seq))
	for k, s := range seq {
		names[k] = kindNames[s]
	}
	desc := "[" + strings.Join(names, ", ") + ", end-of-stream]"
	fs := &fakeStream{ctx: context.Background()}
	fs.next = func() *pb.SessionRequest {
		if i != responses && sig == "" {
			sig, detail = "c19-response-count", fmt.Sprintf("sequence %s: request #%d was read although request #%d has %d response(s)", desc, i, i-1, responses-(i-1))
		}
		if i >= len(seq) {
			return nil
		}
		pendingKind = seq[i]
		var req *pb.SessionRequest
		req, pendingWant = c.build(pendingKind)
		i++
		return req
	}
	fs.onSend = func(r *pb.SessionResponse) {
		responses++
		if p := c.check(pendingKind, pendingWant, r); p != "" && sig == "" {
			sig, detail = "c19-protocol:"+kindNames[pendingKind], fmt.Sprintf("sequence %s, request #%d: %s", desc, i, p)
		}
	}
	func() {
		defer func() {
			if p := recover(); p != nil {
				sig, detail = "c19-handler-panic", fmt.Sprintf("sequence %s: handler panicked at request #%d (%s): %v", desc, i, kindNames[pendingKind], p)
			}
		}()
		if err := app.Session(fs); err != nil && sig == "" {
			sig, detail = "c19-stream-error", fmt.Sprintf("sequence %s: Session returned %v", desc, err)
		}
	}()
	if sig == "" && responses != len(seq) {
		sig, detail = "c19-response-count", fmt.Sprintf("sequence %s: %d requests, %d responses", desc, len(seq), responses)
	}
	return
}

func makeMaterial(app *server.AppEncryption) *material {
	m := makeMaterialPart(app, "partA")
	// the foreign record belongs to a partition whose id continues the own key id ("partA" + "_" + service + "_" + product)
	m.foreign = makeMaterialPart(app, "partA_svc_prod").genuine
	return m
}

func makeMaterialPart(app *server.AppEncryption, own string) *material {
	m := &material{}
	grab := func(part string) (*pb.DataRowRecord, []byte) {
		var rec *pb.DataRowRecord
		pl := []byte("material for " + part)
		step := 0
		fs := &fakeStream{ctx: context.Background()}
		fs.next = func() *pb.SessionRequest {
			step++
			switch step {
			case 1:
				return getSession(part)
			case 2:
				return encryptReq(pl)
			}
			return nil
		}
		fs.onSend = func(r *pb.SessionResponse) {
			if er := r.GetEncryptResponse(); er != nil {
				rec = cloneDRR(er.DataRowRecord)
			}
		}
		if err := app.Session(fs); err != nil || rec == nil {
			panic(fmt.Sprintf("material stream failed: %v", err))
		}
		return rec, pl
	}
	m.genuine, m.payload = grab(own)
	return m
}

func TestC19(t *testing.T) {
	r := ev.Start("C19", "exploration")
	r.Rule("(1) every request sequence up to length L over {get-session valid / empty id, encrypt, decrypt genuine / foreign-partition / bit-flipped / structurally empty record (4 shapes), empty request}, each followed by end-of-stream, is played through AppEncryption.Session (built by NewAppEncryption from an Options value: memory metastore + static KMS, once without and once with the shared session cache of 2 sessions, once with neither --expire-after nor --check-interval given, and once with the SDK's debug logging switched on as --verbose does) on an in-process stream; a reference protocol automaton {uninitialised, initialised, rejected-get-session} gives the expected response class per request, responses are counted per request, panics are recovered per sequence. (2) seeded sequences of length 40 on 8 concurrent streams per round, spread over three partitions (so that cached sessions are shared between streams and evicted while in use), over real gRPC (bufconn) under the race detector, for both server variants, same automaton per stream. (3) 8 lock-step streams per round against a server whose SDK caches nothing while the metastore alternates between healthy and failing (all reads / only system-key reads / only intermediate-key reads, per round) with a different error text every time: each request gets exactly one response (the right answer or an error response). (4) a stream whose k-th Send fails while another stream of the same partition is open, followed by evictions: the healthy stream keeps working. (5) a sidecar that outlives --expire-after, in virtual time: a long-lived stream encrypts, idles past the key lifetime, rotates, and old and new records are requested through the same stream and through new streams of the same and another partition. Distinct+non-trivial: distinct sequences that reached an initialised session.")
	r.Assume("the server binary's main() is not exercised, only pkg/server; a handler panic under a real grpc.Server kills the process (detected by the check script as a crash)")
	n := 0
	Ls := []int{ev.Pick(4, 5), ev.Pick(3, 4), ev.Pick(3, 4), ev.Pick(2, 3)}
	for vi, sess := range []bool{false, true, false, false} {
		app := newAppOpt(sess)
		if vi == 2 {
			app = newAppUnsetDurations()
		}
		if vi == 3 {
			// the sidecar's --verbose: the SDK's debug logging is on and every debug statement is formatted
			sdklog.SetLogger(verboseLogger{})
		}
		var mat *material
		if pv := func() (pv any) {
			defer func() {
				if p := recover(); p != nil {
					pv = p
				}
			}()
			if vi != 3 {
				mat = makeMaterial(app)
				return nil
			}
			// (see below: with debug formatting on a request may never be answered)
			for attempt := 0; attempt < 2 && mat == nil; attempt++ {
				a := app
				if attempt == 1 {
					a = newAppOpt(false)
				}
				ch := make(chan any, 1)
				go func() {
					defer func() {
						if p := recover(); p != nil {
							ch <- p
						}
					}()
					ch <- makeMaterial(a)
				}()
				select {
				case x := <-ch:
					if m, ok := x.(*material); ok {
						mat, app = m, a
					} else {
						return x
					}
				case <-time.After(30 * time.Second):
				}
			}
			if mat == nil {
				verboseHung = true
				return "debug logging on: get-session + encrypt on a fresh sidecar never received a response (no answer within 30 s on two services; the handler is stuck)"
			}
			return nil
		}(); pv != nil {
			r.Violation("c19-protocol:encrypt", fmt.Sprintf("server variant %d (0 plain, 1 session cache, 2 durations unset): a fresh sidecar did not answer get-session + encrypt with a record: %v", vi, pv), map[string]any{"engine": "grpcsrv/in-process", "variant": vi})
			continue
		}
		L := Ls[vi]
		seq := make([]int, 0, L)
		var rec func()
		rec = func() {
			if len(seq) > 0 {
				n++
				journal(fmt.Sprintf("C19 sess=%v seq %v", sess, seq))
				var sig, detail string
				if vi == 3 {
					// with formatting on, a debug statement that needs a lock its caller holds never returns: the request
					// gets no response. A sequence takes milliseconds; one that is not through after 30 s is tried once
					// more on a fresh service, and a second silence is the verdict for the whole variant.
					for attempt := 0; attempt < 2 && !verboseHung; attempt++ {
						a, m := app, mat
						if attempt == 1 {
							a = newAppOpt(false)
							ok := make(chan *material, 1)
							go func() { defer func() { _ = recover() }(); ok <- makeMaterial(a) }()
							select {
							case m = <-ok:
							case <-time.After(30 * time.Second):
								verboseHung = true
								sig, detail = "c19-response-count", fmt.Sprintf("debug logging on: a fresh sidecar never answered get-session + encrypt (sequence %v was silent before)", seq)
								continue
							}
						}
						type res struct{ sig, detail string }
						ch := make(chan res, 1)
						go func() { s, d := runSeq(a, m, seq, n); ch <- res{s, d} }()
						select {
						case x := <-ch:
							sig, detail = x.sig, x.detail
							attempt = 2
						case <-time.After(30 * time.Second):
							if attempt == 1 {
								verboseHung = true
								sig, detail = "c19-response-count", fmt.Sprintf("debug logging on: sequence %v: a request never received its response (no answer within 30 s on two services; the handler is stuck)", seq)
							}
						}
					}
				} else {
					sig, detail = runSeq(app, mat, seq, n)
				}
				r.Eval(1)
				for _, k := range seq {
					if k == kGetValid {
						r.Distinct(fmt.Sprint(sess, seq))
						break
					}
				}
				if sig != "" {
					r.Violation(sig, detail, map[string]any{"engine": "grpcsrv/in-process", "session_caching": sess, "sequence": fmt.Sprint(seq)})
				}
				if n%977 == 0 {
					names := make([]string, len(seq))
					for k, s := range seq {
						names[k] = kindNames[s]
					}
					r.Sample(map[string]any{"session_caching": sess, "sequence": names})
				}
			}
			if len(seq) == L || verboseHung {
				return
			}
			for k := 0; k < nKinds; k++ {
				seq = append(seq, k)
				rec()
				seq = seq[:len(seq)-1]
			}
		}
		rec()
		if vi == 3 {
			sdklog.SetLogger(quietLogger{})
		}
	}
	r.Count("in_process_sequences", int64(n))
	r.Exhaustive(true)
	r.Extra("max_length", Ls)
	if r.Violations() == 0 {
		// (a handler that already answers sequential streams wrongly would only make lock-step clients wait)
		concurrentStreams(t, r, false)
		concurrentStreams(t, r, true)
		faultyBackendStreams(t, r)
		brokenPeerScenario(r)
		agedSidecar(t, r)
	}
	r.Finish(t)
}

func concurrentStreams(t *testing.T, r *ev.Run, sess bool) {
	app := newAppOpt(sess)
	parts := []string{"partA", "partB", "partC"}
	mats := materialsFor(app, parts)
	lis := bufconn.Listen(1 << 20)
	srv := grpc.NewServer()
	pb.RegisterAppEncryptionServer(srv, app)
	go srv.Serve(lis)
	defer srv.Stop()
	conn, err := grpc.NewClient("passthrough:///bufnet", grpc.WithContextDialer(func(ctx context.Context, _ string) (net.Conn, error) { return lis.DialContext(ctx) }),
		grpc.WithTransportCredentials(insecure.NewCredentials()))
	if err != nil {
		t.Fatal(err)
	}
	defer conn.Close()
	client := pb.NewAppEncryptionClient(conn)
	rounds := ev.Pick(8, 150)
	for round := 0; round < rounds && r.Violations() == 0; round++ {
		journal(fmt.Sprintf("C19 concurrent sess=%v round %d", sess, round))
		var wg sync.WaitGroup
		for s := 0; s < 8; s++ {
			s := s
			wg.Add(1)
			go func() {
				defer wg.Done()
				rng := rand.New(rand.NewSource(ev.Seed()*4099 + int64(round*8+s)))
				ctx, cancel := context.WithTimeout(context.Background(), 60*time.Second)
				defer cancel()
				st, err := client.Session(ctx)
				if err != nil {
					r.Violation("c19-grpc-open-failed", err.Error(), nil)
					return
				}
				part := parts[(round+s)%len(parts)]
				c := &convo{part: part, mat: mats[part], state: "uninit", variant: s}
				var kinds []string
				for i := 0; i < 40; i++ {
					kind := rng.Intn(nKinds)
					if i < 3 && rng.Intn(2) == 0 {
						kind = []int{kEncrypt, kDecGenuine, kGetValid}[rng.Intn(3)]
					}
					kinds = append(kinds, kindNames[kind])
					req, want := c.build(kind)
					if err := st.Send(req); err != nil {
						r.Violation("c19-grpc-stream-broken", fmt.Sprintf("send failed after %v: %v", kinds, err), nil)
						return
					}
					resp, err := st.Recv()
					if err != nil {
						r.Violation("c19-grpc-no-response", fmt.Sprintf("no response to request #%d of %v: %v", i+1, kinds, err), map[string]any{"sequence": kinds})
						return
					}
					if kind == kEmptyReq {
						continue
					}
					if p := c.check(kind, want, resp); p != "" {
						r.Violation("c19-protocol-concurrent:"+kindNames[kind], fmt.Sprintf("session_caching=%v partition %s stream %d round %d, request #%d of %v: %s", sess, part, s, round, i+1, kinds, p), map[string]any{"sequence": kinds, "session_caching": sess})
						return
					}
				}
				st.CloseSend()
				if _, err := st.Recv(); err != io.EOF {
					r.Violation("c19-grpc-extra-response", fmt.Sprintf("expected end of stream after %d requests, got %v", len(kinds), err), nil)
				}
				r.Eval(1)
				r.Count("grpc_streams", 1)
				r.Count("grpc_requests", int64(len(kinds)))
			}()
		}
		wg.Wait()
	}
}

// ---- concurrent streams over a back end that fails with ever-changing error texts

// flakyStore is a memory metastore whose reads fail, while failing is set, with an error text that is different
// every time (as real driver errors are: ports, request ids, timestamps).
type flakyStore struct {
	appencryption.Metastore
	failing atomic.Bool
	only    string // when non-empty only reads of ids with this prefix fail ("_SK_", "_IK_")
	n       atomic.Int64
}

func (f *flakyStore) fails(id string) bool {
	return f.failing.Load() && strings.HasPrefix(id, f.only)
}

func (f *flakyStore) errNow() error {
	k := f.n.Add(1)
	return fmt.Errorf("dial tcp 10.0.%d.%d:%d: i/o timeout (request id %016x)", k%250, (k/250)%250, 30000+k%20000, uint64(k)*0x9e3779b97f4a7c15)
}

func (f *flakyStore) Load(ctx context.Context, id string, created int64) (*appencryption.EnvelopeKeyRecord, error) {
	if f.fails(id) {
		return nil, f.errNow()
	}
	return f.Metastore.Load(ctx, id, created)
}

func (f *flakyStore) LoadLatest(ctx context.Context, id string) (*appencryption.EnvelopeKeyRecord, error) {
	if f.fails(id) {
		return nil, f.errNow()
	}
	return f.Metastore.LoadLatest(ctx, id)
}

// faultyBackendStreams: 8 lock-step streams per round over real gRPC against a server whose SDK caches nothing, while
// the metastore alternates between healthy and failing. Every request must get exactly one response: the right
// answer, or an error response; the process must survive.
func faultyBackendStreams(t *testing.T, r *ev.Run) {
	// every round is a cold start: a new session factory (fresh zero-value secret factory, empty caches), a new server
	// and eight streams whose first operations arrive together
	rounds := ev.Pick(10, 80)
	for round := 0; round < rounds && r.Violations() == 0; round++ {
		faultyBackendRound(t, r, round)
	}
}

func faultyBackendRound(t *testing.T, r *ev.Run, round int) {
	crypto := aead.NewAES256GCM()
	static, err := kms.NewStatic("thisIsAStaticMasterKeyForTesting", crypto)
	if err != nil {
		t.Fatal(err)
	}
	defer static.Close()
	ms := &flakyStore{Metastore: persistence.NewMemoryMetastore(), only: []string{"", "_SK_", "_IK_"}[round%3]}
	pol := appencryption.NewCryptoPolicy(appencryption.WithNoCache(), appencryption.WithExpireAfterDuration(24*time.Hour), appencryption.WithRevokeCheckInterval(time.Hour))
	sf := appencryption.NewSessionFactory(&appencryption.Config{Service: "svc", Product: "prod", Policy: pol}, ms, static, crypto)
	defer sf.Close()
	app := server.VerifNewAppEncryptionWithFactory(sf)
	lis := bufconn.Listen(1 << 20)
	srv := grpc.NewServer()
	pb.RegisterAppEncryptionServer(srv, app)
	go srv.Serve(lis)
	defer srv.Stop()
	conn, err := grpc.NewClient("passthrough:///bufnet", grpc.WithContextDialer(func(ctx context.Context, _ string) (net.Conn, error) { return lis.DialContext(ctx) }),
		grpc.WithTransportCredentials(insecure.NewCredentials()))
	if err != nil {
		t.Fatal(err)
	}
	defer conn.Close()
	client := pb.NewAppEncryptionClient(conn)
	{
		journal(fmt.Sprintf("C19 faulty-backend round %d", round))
		ms.failing.Store(false)
		var wg sync.WaitGroup
		var started sync.WaitGroup
		started.Add(8)
		for s := 0; s < 8; s++ {
			s := s
			wg.Add(1)
			go func() {
				defer wg.Done()
				ctx, cancel := context.WithTimeout(context.Background(), 60*time.Second)
				defer cancel()
				part := fmt.Sprintf("part%d", s%3)
				st, err := client.Session(ctx)
				if err != nil {
					started.Done()
					r.Violation("c19-grpc-open-failed", err.Error(), nil)
					return
				}
				ask := func(req *pb.SessionRequest, what string) *pb.SessionResponse {
					if err := st.Send(req); err != nil {
						r.Violation("c19-grpc-stream-broken", fmt.Sprintf("faulty back end, stream %d round %d: send of %s failed: %v", s, round, what, err), nil)
						return nil
					}
					resp, err := st.Recv()
					if err != nil {
						r.Violation("c19-grpc-no-response", fmt.Sprintf("faulty back end, stream %d round %d: no response to %s: %v", s, round, what, err), nil)
						return nil
					}
					r.Count("grpc_requests_faulty_backend", 1)
					return resp
				}
				resp := ask(getSession(part), "get-session")
				var rec *pb.DataRowRecord
				pl := []byte(fmt.Sprintf("payload %d/%d", round, s))
				if resp != nil && !isErr(resp) {
					if er := ask(encryptReq(pl), "encrypt").GetEncryptResponse(); er != nil {
						rec = cloneDRR(er.DataRowRecord)
					}
				}
				started.Done()
				started.Wait() // everybody holds a record written while the back end was healthy
				if s == 0 {
					ms.failing.Store(true)
				}
				for i := 0; i < 20 && rec != nil; i++ {
					if s == 0 && i == 12 {
						ms.failing.Store(false)
					}
					var resp *pb.SessionResponse
					what := "decrypt"
					if i%3 == 2 {
						what = "encrypt"
						resp = ask(encryptReq(pl), what)
					} else {
						resp = ask(decryptReq(cloneDRR(rec)), what)
					}
					if resp == nil {
						return
					}
					switch {
					case isErr(resp):
						r.Count("grpc_error_responses_faulty_backend", 1)
					case what == "decrypt":
						if dr := resp.GetDecryptResponse(); dr == nil || !bytes.Equal(dr.Data, pl) {
							r.Violation("c19-protocol-faulty-backend", fmt.Sprintf("stream %d round %d: decrypt answered with neither the payload nor an error: %v", s, round, resp), nil)
						}
					default:
						if resp.GetEncryptResponse() == nil {
							r.Violation("c19-protocol-faulty-backend", fmt.Sprintf("stream %d round %d: encrypt answered with neither a record nor an error: %v", s, round, resp), nil)
						}
					}
				}
				st.CloseSend()
				if _, err := st.Recv(); err != io.EOF && rec != nil {
					r.Violation("c19-grpc-extra-response", fmt.Sprintf("faulty back end: expected end of stream, got %v", err), nil)
				}
				r.Eval(1)
			}()
		}
		wg.Wait()
	}
}

// ---- a stream whose transport breaks while another stream of the same partition is open

type ctlStream struct {
	reqs       chan *pb.SessionRequest
	resps      chan *pb.SessionResponse
	failSendAt int // 1-based index of the Send that fails (0 = never)
	sends      int
}

func newCtlStream(failSendAt int) *ctlStream {
	return &ctlStream{reqs: make(chan *pb.SessionRequest), resps: make(chan *pb.SessionResponse, 16), failSendAt: failSendAt}
}

func (c *ctlStream) Recv() (*pb.SessionRequest, error) {
	r, ok := <-c.reqs
	if !ok {
		return nil, io.EOF
	}
	return r, nil
}
func (c *ctlStream) Send(r *pb.SessionResponse) error {
	c.sends++
	if c.sends == c.failSendAt {
		return errors.New("rpc error: code = Unavailable desc = transport is closing")
	}
	c.resps <- r
	return nil
}
func (c *ctlStream) SetHeader(metadata.MD) error  { return nil }
func (c *ctlStream) SendHeader(metadata.MD) error { return nil }
func (c *ctlStream) SetTrailer(metadata.MD)       {}
func (c *ctlStream) Context() context.Context     { return context.Background() }
func (c *ctlStream) SendMsg(m any) error          { return nil }
func (c *ctlStream) RecvMsg(m any) error          { return nil }

// brokenPeerScenario: stream A of partition P stays open; stream B of the same partition loses its transport (its
// k-th Send fails) and ends; streams of other partitions then push P out of the session cache; A must go on
// encrypting and decrypting. Also without session caching and with B ending by a Recv error instead.
func brokenPeerScenario(r *ev.Run) {
	rounds := ev.Pick(6, 60)
	for _, sess := range []bool{true, false} {
		for _, how := range []string{"send-fails-1", "send-fails-2", "send-fails-3"} {
			for round := 0; round < rounds && r.Violations() == 0; round++ {
				name := fmt.Sprintf("broken-peer/session_caching=%v/%s", sess, how)
				journal(fmt.Sprintf("C19 %s round %d", name, round))
				app := newAppOpt(sess)
				ask := func(c *ctlStream, req *pb.SessionRequest) *pb.SessionResponse {
					c.reqs <- req
					select {
					case resp := <-c.resps:
						return resp
					case <-time.After(60 * time.Second):
						return nil
					}
				}
				a := newCtlStream(0)
				aDone := make(chan error, 1)
				go func() {
					defer func() {
						if p := recover(); p != nil {
							aDone <- fmt.Errorf("PANIC: %v", p)
						}
					}()
					aDone <- app.Session(a)
				}()
				if resp := ask(a, getSession("partP")); resp == nil || isErr(resp) {
					r.Violation("c19-protocol:get-session(valid)", fmt.Sprintf("%s: stream A: get-session answered %v", name, resp), nil)
					return
				}
				first := ask(a, encryptReq([]byte("first"))).GetEncryptResponse()
				// stream B: same partition, its transport breaks at the k-th response
				k := int(how[len(how)-1] - '0')
				b := newCtlStream(k)
				bDone := make(chan error, 1)
				go func() {
					defer func() {
						if p := recover(); p != nil {
							bDone <- fmt.Errorf("PANIC: %v", p)
						}
					}()
					bDone <- app.Session(b)
				}()
				for i, req := range []*pb.SessionRequest{getSession("partP"), encryptReq([]byte("b1")), encryptReq([]byte("b2"))} {
					if i+1 == k {
						b.reqs <- req // no response will arrive: the Send fails and the handler ends the stream
						break
					}
					ask(b, req)
				}
				select {
				case err := <-bDone:
					if err != nil && strings.HasPrefix(err.Error(), "PANIC") {
						r.Violation("c19-handler-panic", fmt.Sprintf("%s: stream B: %v", name, err), nil)
					}
				case <-time.After(60 * time.Second):
					r.Inconclusive(name + ": stream B did not end within 60 s after its Send failed")
					return
				}
				// other partitions push P out of a session cache of 2
				// (each of them is requested twice, so that whatever the eviction policy protects, P ends up the victim)
				for _, p := range []string{"partQ", "partQ", "partR", "partR", "partS", "partS", "partQ", "partR"} {
					c := newCtlStream(0)
					done := make(chan error, 1)
					go func() { done <- app.Session(c) }()
					ask(c, getSession(p))
					ask(c, encryptReq([]byte("x")))
					close(c.reqs)
					<-done
				}
				time.Sleep(20 * time.Millisecond) // lets asynchronous teardown run; decides nothing
				r.Eval(1)
				r.Count("broken_peer_rounds", 1)
				r.Distinct(name)
				resp := ask(a, encryptReq([]byte("second")))
				if resp == nil || resp.GetEncryptResponse() == nil {
					r.Violation("c19-protocol:encrypt", fmt.Sprintf("%s round %d: after another stream of the same partition lost its transport and the partition left the session cache, encrypt on the healthy stream answered %v", name, round, resp), map[string]any{"scenario": name})
				}
				if first != nil {
					dr := ask(a, decryptReq(cloneDRR(first.DataRowRecord)))
					if dr == nil || dr.GetDecryptResponse() == nil || string(dr.GetDecryptResponse().Data) != "first" {
						r.Violation("c19-protocol:decrypt(genuine)", fmt.Sprintf("%s round %d: decrypt of the stream's own record on the healthy stream answered %v", name, round, dr), map[string]any{"scenario": name})
					}
				}
				close(a.reqs)
				if err := <-aDone; err != nil {
					r.Violation("c19-stream-error", fmt.Sprintf("%s: stream A ended with %v", name, err), nil)
				}
			}
		}
	}
}
