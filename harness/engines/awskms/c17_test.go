package awskms

import (
	"bytes"
	"context"
	"fmt"
	"testing"
	"testing/synctest"
	"time"

	"verif/harness/fakes/awskms"

	"verif/harness/awsx"
	"verif/harness/ev"
)

func TestC17(t *testing.T) {
	r := ev.Start("C17", "fault_enumeration")
	r.Rule("fake regional KMS clients (own master key per region, call log, retained plaintexts) behind the v1 KMS interface (NewAWS, then Clients[i].KMS swapped) and the v2 AWSClient interface (Builder.WithKMSFactory). For n = 1..N regions: every preferred region x every subset failing GenerateDataKey x every subset failing Encrypt (plus, in virtual time, regions that hang for 1 s .. 10 min before they time out, with and without a caller deadline); for each successful wrap every non-empty subset of regions configured at unwrap x every preferred region among them x every subset failing Decrypt, for v1->v1, v2->v2, v1->v2, v2->v1, repeated over several builds (map iteration orders). Oracle: unwrap succeeds exactly when a configured region with an envelope entry can decrypt and yields the identical bytes; first Decrypt goes to the preferred region when it has an entry; wrap succeeds iff some region can generate; first GenerateDataKey goes to the preferred region; envelope entries = regions that succeeded; GenerateDataKey plaintext wiped; system key bytes never in a request. Distinct+non-trivial: distinct successful wrap configurations.")
	r.Assume("real AWS KMS is not reachable offline; the fakes are written from the API semantics and are trusted")
	awsx.Sweep(r, "C17", ev.Pick(3, 4), ev.Pick(2, 3))
	slowRegions(t, r)
	oddFailures(t, r)
	r.Exhaustive(true)
	r.Finish(t)
}

// slowRegions: regions that do not fail at once but hang for a while before they time out (virtual time inside a
// bubble; the fakes honour the request context like the AWS SDKs do). Wrapping must still succeed as long as one
// region can generate a data key, however long the regions tried before it took to fail, with or without a
// deadline on the caller's context; the result must unwrap to the identical bytes.
func slowRegions(t *testing.T, r *ev.Run) {
	regions := []string{"us-west-2", "eu-west-1", "ap-south-1"}
	for _, version := range []int{1, 2} {
		for _, hang := range []time.Duration{time.Second, 6500 * time.Millisecond, 45 * time.Second, 10 * time.Minute} {
			for _, slow := range []int{1, 2} { // how many regions (in preferred-first order) hang before failing
				for _, deadline := range []time.Duration{0, 24 * time.Hour} {
					name := fmt.Sprintf("v%d/hang=%s/slow-regions=%d/caller-deadline=%s", version, hang, slow, deadline)
					func() {
						defer func() {
							if pv := recover(); pv != nil {
								r.Violation("panic:slow-regions", fmt.Sprintf("%s: %v", name, pv), nil)
							}
						}()
						synctest.Test(t, func(t *testing.T) {
							cloud := awskms.NewCloud(regions...)
							k, _, err := awsx.Build(version, cloud, regions, regions[0])
							if err != nil {
								r.Violation("build-failed", fmt.Sprintf("%s: %v", name, err), nil)
								return
							}
							// the preferred region is tried first, the others in an order the plug-in chooses: make the
							// preferred one slow and, for slow=2, every other region but the last configured one too
							cloud.Regions[regions[0]].SlowFailGenerate = hang
							if slow == 2 {
								cloud.Regions[regions[1]].SlowFailGenerate = hang
							}
							ctx := context.Background()
							if deadline > 0 {
								var cancel context.CancelFunc
								ctx, cancel = context.WithTimeout(ctx, deadline)
								defer cancel()
							}
							sk := bytes.Repeat([]byte{0x42}, 32)
							env, err := k.EncryptKey(ctx, append([]byte(nil), sk...))
							r.Eval(1)
							r.Count("slow_region_wraps", 1)
							r.Distinct("slow|" + name)
							if err != nil {
								r.Violation(fmt.Sprintf("wrap-success-mismatch:v%d:slow-region", version), fmt.Sprintf("%s: a healthy region could generate a data key but EncryptKey failed after the slow region(s) timed out: %v", name, err), nil)
								return
							}
							cloud.Reset()
							out, err := k.DecryptKey(context.Background(), env)
							if err != nil || !bytes.Equal(out, sk) {
								r.Violation(fmt.Sprintf("unwrap-wrong-bytes:v%d:slow-region", version), fmt.Sprintf("%s: the envelope produced after slow regions does not unwrap to the system key: %v", name, err), nil)
							}
						})
					}()
				}
			}
		}
	}
}

// oddFailures: (a) one region's Encrypt fails at once while another region's Encrypt is still in flight (slow but
// healthy): the healthy region keeps its envelope entry; (b) the preferred region's Decrypt fails with an error that
// wraps context.DeadlineExceeded (a client-side HTTP timeout) while the caller's context is alive: the other regions
// are still tried.
func oddFailures(t *testing.T, r *ev.Run) {
	regions := []string{"us-west-2", "eu-west-1", "ap-south-1"}
	for _, version := range []int{1, 2} {
		for _, alias := range []bool{false, true} {
			name := fmt.Sprintf("v%d/alias=%v", version, alias)
			func() {
				defer func() {
					if pv := recover(); pv != nil {
						r.Violation("panic:odd-failures", fmt.Sprintf("%s: %v", name, pv), nil)
					}
				}()
				synctest.Test(t, func(t *testing.T) {
					cloud := awskms.NewCloud(regions...)
					if alias {
						cloud.UseAliases()
					}
					k, _, err := awsx.Build(version, cloud, regions, regions[0])
					if err != nil {
						r.Violation("build-failed", fmt.Sprintf("%s: %v", name, err), nil)
						return
					}
					sk := bytes.Repeat([]byte{0x17}, 32)
					// (a)
					cloud.Regions[regions[1]].FailEncrypt = true
					cloud.Regions[regions[2]].SlowEncrypt = 2 * time.Second
					env, err := k.EncryptKey(context.Background(), append([]byte(nil), sk...))
					r.Eval(1)
					r.Count("odd_failure_wraps", 1)
					r.Distinct("odd|" + name)
					if err != nil {
						r.Violation(fmt.Sprintf("wrap-success-mismatch:v%d:odd", version), fmt.Sprintf("%s: EncryptKey failed although the preferred region generated the data key: %v", name, err), nil)
						return
					}
					if !bytes.Contains(env, []byte(regions[2])) {
						r.Violation(fmt.Sprintf("envelope-entries-mismatch:v%d:odd", version), fmt.Sprintf("%s: %s wrapped the data key successfully (slowly) while %s failed at once, but the envelope has no entry for it: %s", name, regions[2], regions[1], env), nil)
					}
					// (b)
					cloud.Reset()
					cloud.Regions[regions[0]].TimeoutDecrypt = true
					out, err := k.DecryptKey(context.Background(), env)
					r.Eval(1)
					if err != nil || !bytes.Equal(out, sk) {
						r.Violation(fmt.Sprintf("unwrap-success-mismatch:v%d:odd", version), fmt.Sprintf("%s: the preferred region's Decrypt hit a client-side timeout; a healthy region with an entry was available but DecryptKey returned %v", name, err), nil)
					}
				})
			}()
		}
	}
}
