package awskms

import (
	"testing"

	"verif/harness/awsx"
	"verif/harness/ev"
)

func TestC17(t *testing.T) {
	r := ev.Start("C17", "fault_enumeration")
	r.Rule("fake regional KMS clients (own master key per region, call log, retained plaintexts) behind the v1 KMS interface (NewAWS, then Clients[i].KMS swapped) and the v2 AWSClient interface (Builder.WithKMSFactory). For n = 1..N regions: every preferred region x every subset failing GenerateDataKey x every subset failing Encrypt; for each successful wrap every non-empty subset of regions configured at unwrap x every preferred region among them x every subset failing Decrypt, for v1->v1, v2->v2, v1->v2, v2->v1, repeated over several builds (map iteration orders). Oracle: unwrap succeeds exactly when a configured region with an envelope entry can decrypt and yields the identical bytes; first Decrypt goes to the preferred region when it has an entry; wrap succeeds iff some region can generate; first GenerateDataKey goes to the preferred region; envelope entries = regions that succeeded; GenerateDataKey plaintext wiped; system key bytes never in a request. Distinct+non-trivial: distinct successful wrap configurations.")
	r.Assume("real AWS KMS is not reachable offline; the fakes are written from the API semantics and are trusted")
	awsx.Sweep(r, "C17", ev.Pick(3, 4), ev.Pick(2, 3))
	r.Exhaustive(true)
	r.Finish(t)
}
