// Package mstore checks every Metastore implementation against a reference insert-only table (C13).
package mstore

import (
	"bytes"
	"context"
	"database/sql"
	"fmt"
	"math/rand"
	"os"
	"sort"
	"strings"
	"sync"
	"sync/atomic"
	"testing"
	"time"

	"github.com/anishathalye/porcupine"
	"github.com/aws/aws-sdk-go/aws"
	awssession "github.com/aws/aws-sdk-go/aws/session"
	"github.com/godaddy/asherah/go/appencryption"
	"github.com/godaddy/asherah/go/appencryption/pkg/persistence"
	v1p "github.com/godaddy/asherah/go/appencryption/plugins/aws-v1/persistence"
	v2m "github.com/godaddy/asherah/go/appencryption/plugins/aws-v2/dynamodb/metastore"

	"verif/harness/ev"
	"verif/harness/fakes/ddb"
	"verif/harness/fakes/sqlmini"
	"verif/harness/probe"
	"verif/harness/world"
)

type backend struct {
	name string
	ms   appencryption.Metastore
	// probe returns a backend-specific problem observed by the fake (e.g. eventually consistent reads), or ""
	probe func() string
	close func()
	// fail arms the back end's own fault injection (reads, writes); nil when the back end cannot fail
	fail func(reads, writes int)
	// failFetch makes the next n accepted reads fail while their first row is fetched (SQL back ends)
	failFetch func(n int)
	// failPrepares makes the next n statement preparations fail (SQL back ends)
	failPrepares func(n int)
	// writeFault selects how injected write failures look (see ddb.Table.WriteFault) and what happens meanwhile
	writeFault func(kind string, meanwhile func())
}

var v1sess = awssession.Must(awssession.NewSession(aws.NewConfig().WithRegion("us-west-2")))

func backends() []func() backend {
	mk := func(d sqlmini.Dialect) func() backend {
		return func() backend {
			db, h := sqlmini.Open(d)
			var ms *persistence.SQLMetastore
			switch d {
			case sqlmini.MySQL:
				ms = persistence.NewSQLMetastore(h)
			case sqlmini.Postgres:
				ms = persistence.NewSQLMetastore(h, persistence.WithSQLMetastoreDBType(persistence.Postgres))
			case sqlmini.Oracle:
				ms = persistence.NewSQLMetastore(h, persistence.WithSQLMetastoreDBType(persistence.Oracle))
			}
			return backend{name: "sql-" + string(d), ms: ms, probe: func() string { return "" }, close: func() { h.Close(); db.Drop() },
				fail: func(rd, wr int) { db.SetFailReads(rd); db.SetFailWrites(wr) }, failFetch: db.SetFailFetch, failPrepares: db.SetFailPrepares}
		}
	}
	ddbv1 := func(table string, suffix bool) func() backend {
		return func() backend {
			name := table
			if name == "" {
				name = "EncryptionKey"
			}
			t := ddb.NewTable(name)
			opts := []v1p.DynamoDBMetastoreOption{v1p.WithClient(ddb.V1{T: t}), v1p.WithDynamoDBRegionSuffix(suffix)}
			if table != "" {
				opts = append(opts, v1p.WithTableName(table))
			}
			ms := v1p.NewDynamoDBMetastore(v1sess, opts...)
			return backend{name: fmt.Sprintf("dynamodb-v1/table=%s/suffix=%v", name, suffix), ms: ms, close: func() {}, fail: t.SetFail,
				writeFault: t.SetWriteFault,
				probe: func() string {
					if t.Inconsistent > 0 {
						return fmt.Sprintf("%d read(s) were issued without ConsistentRead", t.Inconsistent)
					}
					return ""
				}}
		}
	}
	ddbv2 := func(table string, suffix bool) func() backend {
		return func() backend {
			name := table
			if name == "" {
				name = "EncryptionKey"
			}
			t := ddb.NewTable(name)
			opts := []v2m.Option{v2m.WithDynamoDBClient(ddb.V2{T: t}), v2m.WithRegionSuffix(suffix)}
			if table != "" {
				opts = append(opts, v2m.WithTableName(table))
			}
			ms, err := v2m.NewDynamoDB(opts...)
			if err != nil {
				panic(err)
			}
			return backend{name: fmt.Sprintf("dynamodb-v2/table=%s/suffix=%v", name, suffix), ms: ms, close: func() {}, fail: t.SetFail,
				writeFault: t.SetWriteFault,
				probe: func() string {
					if t.Inconsistent > 0 {
						return fmt.Sprintf("%d read(s) were issued without ConsistentRead", t.Inconsistent)
					}
					return ""
				}}
		}
	}
	return []func() backend{
		func() backend {
			return backend{name: "memory", ms: persistence.NewMemoryMetastore(), probe: func() string { return "" }, close: func() {}}
		},
		mk(sqlmini.MySQL), mk(sqlmini.Postgres), mk(sqlmini.Oracle),
		ddbv1("", false), ddbv1("CustomKeys", true),
		ddbv2("", false), ddbv2("CustomKeys", true),
	}
}

// ---- reference table

type refTable map[string]map[int64]*appencryption.EnvelopeKeyRecord

func (r refTable) latest(id string) *appencryption.EnvelopeKeyRecord {
	var best *appencryption.EnvelopeKeyRecord
	var bc int64
	for c, e := range r[id] {
		if best == nil || c > bc {
			best, bc = e, c
		}
	}
	return best
}

type mop struct {
	Kind    byte // S store, L load, T load-latest
	ID      string
	Created int64
	Rec     *appencryption.EnvelopeKeyRecord
}

func (o mop) String() string {
	switch o.Kind {
	case 'S':
		return fmt.Sprintf("Store(%s,%d)", o.ID, o.Created)
	case 'L':
		return fmt.Sprintf("Load(%s,%d)", o.ID, o.Created)
	}
	return fmt.Sprintf("LoadLatest(%s)", o.ID)
}

func opsString(ops []mop) string {
	s := make([]string, len(ops))
	for i, o := range ops {
		s[i] = o.String()
	}
	return strings.Join(s, " ")
}

// runSeq executes ops on b (ids are prefixed with ns so that one backend instance serves many sequences)
// and compares every result with the reference table.
func runSeq(b backend, ns string, ops []mop) (sig, detail string, dups int) {
	ref := refTable{}
	ctx := context.Background()
	fail := func(s, f string, a ...any) {
		if sig == "" {
			sig = s + ":" + strings.SplitN(b.name, "/", 2)[0]
			detail = fmt.Sprintf("backend %s, ops [%s]: ", b.name, opsString(ops)) + fmt.Sprintf(f, a...)
		}
	}
	defer func() {
		if p := recover(); p != nil {
			fail("panic", "panic: %v", p)
		}
	}()
	for i, o := range ops {
		id := ns + o.ID
		switch o.Kind {
		case 'S':
			in := probe.CopyEKR(o.Rec)
			before := probe.CopyEKR(o.Rec)
			ok, err := b.ms.Store(ctx, id, o.Created, in)
			_, exists := ref[id][o.Created]
			if exists {
				dups++
				if ok {
					fail("store-duplicate-reported-success", "op %d %s: a record already exists under that key but Store returned true (err=%v)", i, o, err)
				}
			} else {
				if !ok {
					fail("store-fresh-key-refused", "op %d %s: no record exists under that key but Store returned (false, %v)", i, o, err)
				} else {
					if ref[id] == nil {
						ref[id] = map[int64]*appencryption.EnvelopeKeyRecord{}
					}
					ref[id][o.Created] = before
				}
			}
			if d := world.DiffEKR(before, in); d != "" {
				fail("store-modified-argument", "op %d %s: Store modified the caller's record: %s", i, o, d)
			}
		case 'L':
			got, err := b.ms.Load(ctx, id, o.Created)
			want := ref[id][o.Created]
			if err != nil {
				fail("load-error", "op %d %s: unexpected error %v", i, o, err)
			} else if d := world.DiffEKR(want, got); d != "" {
				fail("load-wrong-record", "op %d %s: %s", i, o, d)
			}
		case 'T':
			got, err := b.ms.LoadLatest(ctx, id)
			want := ref.latest(id)
			if err != nil {
				fail("loadlatest-error", "op %d %s: unexpected error %v", i, o, err)
			} else if d := world.DiffEKR(want, got); d != "" {
				fail("loadlatest-wrong-record", "op %d %s: %s (want created %v)", i, o, d, createdOf(want))
			}
		}
		if sig != "" {
			return
		}
	}
	// final audit: every stored record is still intact (no later operation changed it)
	for id, m := range ref {
		for c, want := range m {
			got, err := b.ms.Load(ctx, id, c)
			if err != nil {
				fail("load-error", "final audit Load(%s,%d): %v", id, c, err)
			} else if d := world.DiffEKR(want, got); d != "" {
				fail("stored-record-changed", "final audit: record (%s,%d) changed after it was stored: %s", id, c, d)
			}
		}
	}
	if p := b.probe(); p != "" {
		fail("inconsistent-read", "%s", p)
	}
	return
}

func createdOf(e *appencryption.EnvelopeKeyRecord) any {
	if e == nil {
		return nil
	}
	return e.Created
}

var variantCounter atomic.Int64

// rec builds a record with unique content; v selects the shape.
func rec(created int64, v int, rng *rand.Rand) *appencryption.EnvelopeKeyRecord {
	n := variantCounter.Add(1)
	e := &appencryption.EnvelopeKeyRecord{Created: created}
	switch v % 6 {
	case 0:
		e.EncryptedKey = []byte(fmt.Sprintf("key-%d", n))
	case 1:
		e.EncryptedKey = []byte(fmt.Sprintf("key-%d", n))
		e.Revoked = true
	case 2:
		e.EncryptedKey = []byte(fmt.Sprintf("key-%d", n))
		e.ParentKeyMeta = &appencryption.KeyMeta{ID: fmt.Sprintf("_SK_svc_prod_%d", n), Created: created - int64(n%1000)}
	case 3:
		b := make([]byte, 256+int(n%7))
		for i := range b {
			b[i] = byte(i + int(n))
		}
		e.EncryptedKey = b
		e.Revoked = n%2 == 0
		e.ParentKeyMeta = &appencryption.KeyMeta{ID: "_SK_üñí_\"quoted\"_" + fmt.Sprint(n), Created: created + 1}
	case 4:
		e.EncryptedKey = []byte{}
		e.ParentKeyMeta = &appencryption.KeyMeta{ID: fmt.Sprintf("p%d", n), Created: 0}
	default:
		b := make([]byte, 1+rng.Intn(80))
		rng.Read(b)
		e.EncryptedKey = append(b, byte(n), byte(n>>8), byte(n>>16))
		if rng.Intn(2) == 0 {
			e.ParentKeyMeta = &appencryption.KeyMeta{ID: fmt.Sprintf("_SK_%d", rng.Int63()), Created: rng.Int63n(1 << 40)}
		}
	}
	return e
}

func journal(s string) {
	if p := os.Getenv("VERIF_JOURNAL"); p != "" {
		if f, err := os.OpenFile(p, os.O_APPEND|os.O_WRONLY|os.O_CREATE, 0o644); err == nil {
			fmt.Fprintln(f, s)
			f.Close()
		}
	}
}

func TestC13(t *testing.T) {
	r := ev.Start("C13", "exploration")
	r.Rule("every Metastore implementation (memory; SQLMetastore with MySQL '?', Postgres '$n' and Oracle ':n' placeholders over a mini SQL engine behind database/sql/driver that enforces the documented schema and primary key; DynamoDB v1 and v2 metastores, default and custom table name, with/without region suffix, over a semantic DynamoDB fake whose non-ConsistentRead reads lag one write behind) is driven with (a) every sequence of length <= L over Store/Load/LoadLatest on ids {a,b} x created {1,2,3}, (b) seeded random sequences of length 30 with binary keys, revoked flag, parent meta and realistic timestamps, both compared call by call with a reference insert-only table, and (c) concurrent histories (8 clients, few keys, unique record contents) checked per id for linearizability with porcupine, plus rounds of racing duplicate inserts. Distinct+non-trivial: (backend, sequence) pairs containing at least one duplicate insert attempt.")
	r.Assume("real MySQL/Postgres/Oracle/DynamoDB servers are not available offline: the mini SQL engine and the DynamoDB fake are written from the documented semantics and are trusted", "ID is the lookup key and is not part of the stored record for SQL/DynamoDB-v1; it is not compared")
	L := ev.Pick(3, 5)
	nRandom := ev.Pick(300, 6000)

	var alphabet []mop
	for _, id := range []string{"a", "b"} {
		for c := int64(1); c <= 3; c++ {
			alphabet = append(alphabet, mop{Kind: 'S', ID: id, Created: c}, mop{Kind: 'L', ID: id, Created: c})
		}
		alphabet = append(alphabet, mop{Kind: 'T', ID: id})
	}
	bks := backends()
	var wg sync.WaitGroup
	for bi, mk := range bks {
		bi, mk := bi, mk
		wg.Add(1)
		go func() {
			defer wg.Done()
			b := mk()
			defer b.close()
			rng := rand.New(rand.NewSource(ev.Seed()*977 + int64(bi)))
			nseq := 0
			report := func(ops []mop, sig, detail string, dups int) {
				r.Eval(1)
				r.Count("ops", int64(len(ops)))
				if dups > 0 {
					r.Distinct(b.name + "|" + opsString(ops))
				}
				if sig != "" {
					r.Violation(sig, detail, map[string]any{"backend": b.name, "ops": opsString(ops)})
				}
			}
			// (a) exhaustive
			seq := make([]mop, L)
			var recur func(pos int)
			recur = func(pos int) {
				if pos == L {
					nseq++
					ops := make([]mop, L)
					for i, o := range seq {
						ops[i] = o
						if o.Kind == 'S' {
							ops[i].Rec = rec(o.Created, nseq+i, rng)
						}
					}
					ns := fmt.Sprintf("x%d-", nseq)
					sig, detail, dups := runSeq(b, ns, ops)
					report(ops, sig, detail, dups)
					if nseq == 7 && bi < 5 {
						r.Sample(map[string]any{"backend": b.name, "ops": opsString(ops)})
					}
					return
				}
				for _, o := range alphabet {
					seq[pos] = o
					recur(pos + 1)
				}
			}
			journal("C13 exhaustive " + b.name)
			recur(0)
			r.Count("exhaustive_sequences:"+strings.SplitN(b.name, "/", 2)[0], int64(nseq))
			// (b) random
			journal("C13 random " + b.name)
			for i := 0; i < nRandom; i++ {
				ids := []string{"_IK_p_svc_prod", "_SK_svc_prod", "_IK_üñí_s_p_us-west-2", "k"}
				stamps := []int64{0, 1, 1700000000, 1700000060, 1700003600, 1 << 33, rng.Int63n(1 << 40)}
				if i%4 == 3 {
					// creation times before the Unix epoch only (the table orders them like any other integer)
					stamps = []int64{-1700000000, -86400, -61, -1}
				}
				ops := make([]mop, 30)
				for j := range ops {
					id := ids[rng.Intn(len(ids))]
					c := stamps[rng.Intn(len(stamps))]
					switch rng.Intn(5) {
					case 0, 1:
						ops[j] = mop{Kind: 'S', ID: id, Created: c, Rec: rec(c, rng.Intn(6), rng)}
						if rng.Intn(10) == 0 { // the record's own Created may differ from the row key
							ops[j].Rec.Created = c + 5
						}
					case 2, 3:
						ops[j] = mop{Kind: 'L', ID: id, Created: c}
					default:
						ops[j] = mop{Kind: 'T', ID: id}
					}
				}
				sig, detail, dups := runSeq(b, fmt.Sprintf("r%d-", i), ops)
				report(ops, sig, detail, dups)
				r.Count("random_sequences", 1)
			}
		}()
	}
	wg.Wait()
	r.Exhaustive(true)
	r.Extra("exhaustive_length", L)

	// (b2) faults inside the back end: a failed read is an error, never "no such record"; a failed write is not a success
	backendFaults(r)

	// (c) concurrent histories, linearizability per id
	concurrent(t, r)
	r.Finish(t)
}

// ---- concurrency

type cin struct {
	Op      byte
	ID      string
	Created int64
	Val     string
}
type cout struct {
	OK      bool
	Val     string // "" = nil record
	Created int64
}

func valOf(e *appencryption.EnvelopeKeyRecord) string {
	if e == nil {
		return ""
	}
	return string(e.EncryptedKey)
}

var linModel = porcupine.Model{
	Partition: func(history []porcupine.Operation) [][]porcupine.Operation {
		m := map[string][]porcupine.Operation{}
		for _, op := range history {
			id := op.Input.(cin).ID
			m[id] = append(m[id], op)
		}
		var keys []string
		for k := range m {
			keys = append(keys, k)
		}
		sort.Strings(keys)
		out := make([][]porcupine.Operation, 0, len(m))
		for _, k := range keys {
			out = append(out, m[k])
		}
		return out
	},
	Init: func() any { return "" },
	// state: "created=val;" entries sorted by created
	Step: func(state, input, output any) (bool, any) {
		st := parseState(state.(string))
		in, out := input.(cin), output.(cout)
		switch in.Op {
		case 'S':
			if _, exists := st[in.Created]; exists {
				return !out.OK, state
			}
			if !out.OK {
				return false, state
			}
			st[in.Created] = in.Val
			return true, fmtState(st)
		case 'L':
			return out.Val == st[in.Created], state
		default:
			var best int64 = -1
			for c := range st {
				if c > best {
					best = c
				}
			}
			if best < 0 {
				return out.Val == "", state
			}
			return out.Val == st[best], state
		}
	},
	Equal: func(a, b any) bool { return a.(string) == b.(string) },
	DescribeOperation: func(input, output any) string {
		return fmt.Sprintf("%c(%s,%d,%s)->%v", input.(cin).Op, input.(cin).ID, input.(cin).Created, input.(cin).Val, output)
	},
}

func parseState(s string) map[int64]string {
	m := map[int64]string{}
	for _, p := range strings.Split(s, ";") {
		if p == "" {
			continue
		}
		kv := strings.SplitN(p, "=", 2)
		var c int64
		fmt.Sscan(kv[0], &c)
		m[c] = kv[1]
	}
	return m
}

func fmtState(m map[int64]string) string {
	var ks []int64
	for k := range m {
		ks = append(ks, k)
	}
	sort.Slice(ks, func(i, j int) bool { return ks[i] < ks[j] })
	var sb strings.Builder
	for _, k := range ks {
		fmt.Fprintf(&sb, "%d=%s;", k, m[k])
	}
	return sb.String()
}

func concurrent(t *testing.T, r *ev.Run) {
	nHist := ev.Pick(40, 1500)
	rounds := ev.Pick(3000, 60000)
	for bi, mk := range backends() {
		b := mk()
		base := time.Now()
		for h := 0; h < nHist; h++ {
			// every client keeps its own operations until it has finished: a shared, locked log would order the clients
			// and hide unsynchronised accesses inside the metastore implementation from the race detector
			var (
				ops    []porcupine.Operation
				perCli [8][]porcupine.Operation
				wg     sync.WaitGroup
			)
			ns := fmt.Sprintf("c%d-", h)
			for c := 0; c < 8; c++ {
				c := c
				wg.Add(1)
				go func() {
					defer wg.Done()
					rng := rand.New(rand.NewSource(ev.Seed()*31 + int64(bi*100000+h*10+c)))
					for k := 0; k < 40; k++ {
						in := cin{ID: ns + []string{"a", "b"}[rng.Intn(2)], Created: int64(1 + rng.Intn(4))}
						var out cout
						call := time.Since(base).Nanoseconds()
						switch rng.Intn(5) {
						case 0, 1:
							in.Op, in.Val = 'S', fmt.Sprintf("v-%d-%d-%d", h, c, k)
							ok, _ := b.ms.Store(context.Background(), in.ID, in.Created, &appencryption.EnvelopeKeyRecord{Created: in.Created, EncryptedKey: []byte(in.Val)})
							out.OK = ok
						case 2, 3:
							in.Op = 'L'
							e, err := b.ms.Load(context.Background(), in.ID, in.Created)
							if err != nil {
								out.Val = "ERR:" + err.Error()
							} else {
								out.Val = valOf(e)
							}
						default:
							in.Op = 'T'
							e, err := b.ms.LoadLatest(context.Background(), in.ID)
							if err != nil {
								out.Val = "ERR:" + err.Error()
							} else {
								out.Val = valOf(e)
							}
						}
						ret := time.Since(base).Nanoseconds()
						perCli[c] = append(perCli[c], porcupine.Operation{ClientId: c, Input: in, Call: call, Output: out, Return: ret})
					}
				}()
			}
			wg.Wait()
			for c := range perCli {
				ops = append(ops, perCli[c]...)
			}
			res, info := porcupine.CheckOperationsVerbose(linModel, ops, 30*time.Second)
			r.Eval(1)
			r.Count("concurrent_histories", 1)
			r.Count("concurrent_ops", int64(len(ops)))
			switch res {
			case porcupine.Illegal:
				_ = info
				var lines []string
				for i, o := range ops {
					if i < 60 {
						lines = append(lines, fmt.Sprintf("c%d [%d,%d] %s", o.ClientId, o.Call, o.Return, linModel.DescribeOperation(o.Input, o.Output)))
					}
				}
				r.Violation("non-linearizable-history:"+strings.SplitN(b.name, "/", 2)[0], fmt.Sprintf("backend %s: concurrent history %d is not linearizable with respect to an insert-only table", b.name, h), map[string]any{"backend": b.name, "ops": lines})
			case porcupine.Unknown:
				r.Inconclusive(fmt.Sprintf("porcupine timed out on history %d of %s", h, b.name))
			}
		}
		// racing duplicate inserts: exactly one winner, and the winner's record is what Load returns
		rr := rounds
		if !strings.HasPrefix(b.name, "memory") {
			rr = rounds / 20
		}
		for round := 0; round < rr; round++ {
			id := fmt.Sprintf("race-%d", round)
			start := make(chan struct{})
			var wins atomic.Int32
			var winner atomic.Value
			var wg sync.WaitGroup
			for g := 0; g < 8; g++ {
				g := g
				wg.Add(1)
				go func() {
					defer wg.Done()
					val := fmt.Sprintf("w%d-%d", round, g)
					<-start
					ok, _ := b.ms.Store(context.Background(), id, 7, &appencryption.EnvelopeKeyRecord{Created: 7, EncryptedKey: []byte(val)})
					if ok {
						wins.Add(1)
						winner.Store(val)
					}
				}()
			}
			close(start)
			wg.Wait()
			got, err := b.ms.Load(context.Background(), id, 7)
			w, _ := winner.Load().(string)
			if wins.Load() != 1 || err != nil || got == nil || !bytes.Equal(got.EncryptedKey, []byte(w)) {
				r.Violation("racing-duplicate-store:"+strings.SplitN(b.name, "/", 2)[0], fmt.Sprintf("backend %s round %d: %d of 8 racing Store calls for one (id, created) reported success; Load returned %q, a winner wrote %q (err=%v)", b.name, round, wins.Load(), valOf(got), w, err), nil)
				break
			}
			r.Count("racing_insert_rounds", 1)
		}
		b.close()
	}
}

var _ = sql.ErrNoRows

// backendFaults stores records, then makes the back end itself fail reads / writes (connection trouble, service
// errors) and checks that the metastore reports an error: a stored record must never be reported absent, a write
// that did not happen must never be reported as stored, and once the fault is gone everything is as before.
func backendFaults(r *ev.Run) {
	ctx := context.Background()
	for _, mk := range backends() {
		b := mk()
		if b.fail == nil {
			b.close()
			continue
		}
		kind := strings.SplitN(b.name, "/", 2)[0]
		if b.failPrepares != nil {
			// the very first calls of a metastore instance hit a connection that hiccups (also with a caller whose
			// context is already cancelled): they may fail, but once the trouble is over the instance works
			for first := 0; first < 3; first++ {
				fb := mk()
				rec := &appencryption.EnvelopeKeyRecord{Created: 1700000000, EncryptedKey: []byte("k"), ParentKeyMeta: &appencryption.KeyMeta{ID: "_SK_s_p", Created: 1}}
				cctx, cancel := context.WithCancel(ctx)
				if first == 2 {
					cancel()
				} else {
					fb.failPrepares(2)
				}
				switch first {
				case 0:
					_, _ = fb.ms.Load(cctx, "first", rec.Created)
				case 1:
					_, _ = fb.ms.Store(cctx, "first-x", rec.Created, rec)
				default:
					_, _ = fb.ms.LoadLatest(cctx, "first")
				}
				cancel()
				fb.failPrepares(0)
				ok, err := fb.ms.Store(ctx, "first", rec.Created, rec)
				got, lerr := fb.ms.Load(ctx, "first", rec.Created)
				gl, llerr := fb.ms.LoadLatest(ctx, "first")
				r.Eval(1)
				if !ok || err != nil || lerr != nil || llerr != nil || world.DiffEKR(rec, got) != "" || world.DiffEKR(rec, gl) != "" {
					r.Violation("metastore-unusable-after-failed-first-call:"+kind, fmt.Sprintf("backend %s: the first call of the instance failed (variant %d); afterwards, with the database healthy, Store=(%v,%v) Load err=%v LoadLatest err=%v", fb.name, first, ok, err, lerr, llerr), nil)
				}
				r.Count("failed_first_call_cases", 1)
				fb.close()
			}
		}
		for i := 0; i < 40; i++ {
			id := fmt.Sprintf("fault-%d", i)
			want := &appencryption.EnvelopeKeyRecord{Created: int64(1700000000 + i), EncryptedKey: []byte(fmt.Sprintf("k-%d", i)), ParentKeyMeta: &appencryption.KeyMeta{ID: "_SK_s_p", Created: 1}}
			if ok, err := b.ms.Store(ctx, id, want.Created, want); !ok {
				r.Violation("store-fresh-key-refused:"+kind, fmt.Sprintf("backend %s: %v", b.name, err), nil)
				continue
			}
			r.Eval(1)
			b.fail(1, 0)
			got, err := b.ms.Load(ctx, id, want.Created)
			if err == nil && got == nil {
				r.Violation("read-fault-reported-as-absent:"+kind, fmt.Sprintf("backend %s: Load of a stored record during a back-end read failure returned (nil, nil) - the record is reported absent instead of an error", b.name), nil)
			} else if err == nil {
				if d := world.DiffEKR(want, got); d != "" {
					r.Violation("load-wrong-record:"+kind, fmt.Sprintf("backend %s: %s", b.name, d), nil)
				}
			}
			b.fail(1, 0)
			got, err = b.ms.LoadLatest(ctx, id)
			if err == nil && got == nil {
				r.Violation("read-fault-reported-as-absent:"+kind, fmt.Sprintf("backend %s: LoadLatest of a stored id during a back-end read failure returned (nil, nil)", b.name), nil)
			}
			b.fail(0, 0)
			if got, err := b.ms.Load(ctx, id, want.Created); err != nil || world.DiffEKR(want, got) != "" {
				r.Violation("load-after-fault:"+kind, fmt.Sprintf("backend %s: after the fault was gone Load returned (%v, %v)", b.name, got, err), nil)
			}
			// a write that fails in the back end must not be reported as stored, and must not have happened
			id2 := id + "-w"
			b.fail(0, 1)
			ok, _ := b.ms.Store(ctx, id2, want.Created, want)
			b.fail(0, 0)
			got2, _ := b.ms.Load(ctx, id2, want.Created)
			if ok && got2 == nil {
				r.Violation("failed-write-reported-stored:"+kind, fmt.Sprintf("backend %s: Store returned true although the back end rejected the write", b.name), nil)
			}
			r.Count("backend_fault_cases", 1)
			r.Distinct(fmt.Sprintf("fault|%s|%d", b.name, i))
			// the statement is accepted and the connection drops while the row is fetched
			if b.failFetch != nil {
				for _, latest := range []bool{false, true} {
					b.failFetch(1)
					var got *appencryption.EnvelopeKeyRecord
					var err error
					if latest {
						got, err = b.ms.LoadLatest(ctx, id)
					} else {
						got, err = b.ms.Load(ctx, id, want.Created)
					}
					b.failFetch(0)
					if err == nil && got == nil {
						r.Violation("read-fault-reported-as-absent:"+kind, fmt.Sprintf("backend %s: the read (latest=%v) of a stored record was accepted and then failed while the row was fetched; the metastore returned (nil, nil) - absent instead of an error", b.name, latest), nil)
					} else if err == nil {
						if d := world.DiffEKR(want, got); d != "" {
							r.Violation("load-wrong-record:"+kind, fmt.Sprintf("backend %s: %s", b.name, d), nil)
						}
					}
					r.Count("backend_fetch_fault_cases", 1)
				}
			}
			// a write fails (service error; time-out, never applied; time-out, applied with the response lost) while another client inserts a
			// record under the same key: Store may report true only if the table then holds its record
			if b.writeFault != nil {
				for k, fk := range []string{"timeout-lost", "timeout-applied", ""} {
					for _, rival := range []bool{false, true} {
						id3 := fmt.Sprintf("%s-t%d%v", id, k, rival)
						mine := &appencryption.EnvelopeKeyRecord{Created: want.Created, EncryptedKey: []byte("mine-" + id3), ParentKeyMeta: want.ParentKeyMeta}
						other := &appencryption.EnvelopeKeyRecord{Created: want.Created, EncryptedKey: []byte("rival-" + id3), ParentKeyMeta: want.ParentKeyMeta}
						rivalStored := false
						var meanwhile func()
						if rival {
							meanwhile = func() { rivalStored, _ = b.ms.Store(ctx, id3, other.Created, other) }
						}
						b.writeFault(fk, meanwhile)
						b.fail(0, 1)
						ok, serr := b.ms.Store(ctx, id3, mine.Created, mine)
						b.fail(0, 0)
						b.writeFault("", nil)
						got, lerr := b.ms.Load(ctx, id3, mine.Created)
						switch {
						case lerr != nil:
							r.Violation("load-after-fault:"+kind, fmt.Sprintf("backend %s: Load after a timed-out write: %v", b.name, lerr), nil)
						case ok && got == nil:
							r.Violation("failed-write-reported-stored:"+kind, fmt.Sprintf("backend %s (%s, rival=%v): Store returned true but no record exists", b.name, fk, rival), nil)
						case ok && world.DiffEKR(mine, got) != "":
							r.Violation("store-duplicate-reported-success:"+kind, fmt.Sprintf("backend %s (%s, rival writer stored=%v): Store returned (true, %v) for a write that timed out, but the table holds another writer's record under (%s,%d): %s", b.name, fk, rivalStored, serr, id3, mine.Created, world.DiffEKR(mine, got)), nil)
						case got != nil && world.DiffEKR(mine, got) != "" && world.DiffEKR(other, got) != "":
							r.Violation("load-wrong-record:"+kind, fmt.Sprintf("backend %s: record under (%s,%d) is neither writer's", b.name, id3, mine.Created), nil)
						}
						if rival && rivalStored && got != nil && fk == "timeout-applied" && world.DiffEKR(mine, got) != "" {
							r.Violation("stored-record-changed:"+kind, fmt.Sprintf("backend %s: the applied write was replaced by a later writer", b.name), nil)
						}
						r.Count("backend_timeout_cases", 1)
						r.Distinct(fmt.Sprintf("timeout|%s|%s|%v", kind, fk, rival))
					}
				}
			}
		}
		b.close()
	}
}
