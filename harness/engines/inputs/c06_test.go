// Package inputs drives hostile inputs (partition-id pairs, mutated records, corrupted key rows) through the
// real decrypt path (C06, C07).
package inputs

import (
	"context"
	"fmt"
	"math/rand"
	"os"
	"strings"
	"sync"
	"testing"
	"testing/synctest"
	"time"

	"github.com/aws/aws-sdk-go/aws"
	awssession "github.com/aws/aws-sdk-go/aws/session"
	"github.com/godaddy/asherah/go/appencryption"
	"github.com/godaddy/asherah/go/appencryption/pkg/crypto/aead"
	"github.com/godaddy/asherah/go/appencryption/pkg/kms"
	"github.com/godaddy/asherah/go/appencryption/pkg/persistence"
	v1p "github.com/godaddy/asherah/go/appencryption/plugins/aws-v1/persistence"
	v2m "github.com/godaddy/asherah/go/appencryption/plugins/aws-v2/dynamodb/metastore"

	"verif/harness/ev"
	"verif/harness/fakes/ddb"
	"verif/harness/fakes/sqlmini"
	"verif/harness/probe"
	"verif/harness/world"
)

func journal(s string) {
	if p := os.Getenv("VERIF_JOURNAL"); p != "" {
		if f, err := os.OpenFile(p, os.O_APPEND|os.O_WRONLY|os.O_CREATE, 0o644); err == nil {
			fmt.Fprintln(f, s)
			f.Close()
		}
	}
}

type storeKind struct {
	name   string
	suffix string // region suffix in use ("" = none)
	mk     func() appencryption.Metastore
}

var v1sess = awssession.Must(awssession.NewSession(aws.NewConfig().WithRegion("us-west-2")))

func storeKinds() []storeKind {
	return []storeKind{
		{"memory", "", func() appencryption.Metastore { return persistence.NewMemoryMetastore() }},
		{"sql", "", func() appencryption.Metastore {
			// the SQL metastore over the mini SQL engine (ids of any length are distinct keys there)
			_, h := sqlmini.Open(sqlmini.MySQL)
			h.SetMaxOpenConns(4)
			return persistence.NewSQLMetastore(h)
		}},
		{"memory+suffix-wrapper", "us-west-2", func() appencryption.Metastore {
			return &probe.Suffixed{Metastore: probe.NewMetastore(persistence.NewMemoryMetastore()), Suffix: "us-west-2"}
		}},
		{"dynamodb-v1+region-suffix", "us-west-2", func() appencryption.Metastore {
			return v1p.NewDynamoDBMetastore(v1sess, v1p.WithClient(ddb.V1{T: ddb.NewTable("EncryptionKey")}), v1p.WithDynamoDBRegionSuffix(true))
		}},
		{"dynamodb-v2+region-suffix", "us-west-2", func() appencryption.Metastore {
			m, err := v2m.NewDynamoDB(v2m.WithDynamoDBClient(ddb.V2{T: ddb.NewTable("EncryptionKey")}), v2m.WithRegionSuffix(true))
			if err != nil {
				panic(err)
			}
			return m
		}},
		{"dynamodb-v2-no-suffix", "", func() appencryption.Metastore {
			m, err := v2m.NewDynamoDB(v2m.WithDynamoDBClient(ddb.V2{T: ddb.NewTable("EncryptionKey")}), v2m.WithRegionSuffix(false))
			if err != nil {
				panic(err)
			}
			return m
		}},
	}
}

// derived returns partition ids built from p with the key-id naming scheme in mind.
func derived(p, svc, prod, region string, rng *rand.Rand) []string {
	out := []string{
		p + "_" + svc + "_" + prod,
		p + "_" + svc + "_" + prod + "_" + region,
		p + "_" + svc,
		p + "_" + prod,
		p + "_" + region,
		"_IK_" + p,
		"_IK_" + p + "_" + svc + "_" + prod,
		"_SK_" + svc + "_" + prod,
		p + "_",
		"_" + p,
		p + " ",
		p + "\x00",
		strings.ToUpper(p),
		strings.ToLower(p),
		swapCase(p),
		strings.NewReplacer("s", "\u017f", "k", "\u212a", "K", "\u212a", "S", "\u017f").Replace(p), // simple-fold twins (long s, Kelvin sign)
		p + "\u200b",
		p + p,
		p + "_" + svc + "_" + prod + "_" + svc + "_" + prod,
		svc, prod, svc + "_" + prod,
	}
	if len(p) > 1 {
		out = append(out, p[:len(p)-1], p[1:], p[:len(p)/2])
	}
	// ids that are not valid UTF-8 and differ only in the invalid bytes (they collide if ids are ever "sanitised"),
	// ids with format verbs
	out = append(out, p+"\xff", p+"\xfe", p+"\xc3", "\xff"+p, p+"\xff\xfe", p+"\ufffd", p+"%", p+"%s", p+"%d", p+"%!s(MISSING)", p+"%25")
	// ids that would match p if an id were ever interpreted as a pattern (regular expression, glob, SQL LIKE)
	out = append(out, p+"+", p+"*", p+"?", p+".*", "("+p+")", p+"|zzz", "zzz|"+p, "^"+p, p+"$", "["+p+"]", p+"%", p+"_", "%", ".*", "*", p+"{1}", "\\Q"+p+"\\E")
	if len(p) > 1 {
		mid := len(p) / 2
		out = append(out, p[:mid]+"."+p[mid+1:], p[:mid]+"?"+p[mid+1:], p[:mid]+"_"+p[mid+1:], p[:mid]+"["+p[mid:mid+1]+"]"+p[mid+1:], p[:mid]+".*", p[:mid]+"*", p[:mid]+"%")
	}
	if i := strings.LastIndex(p, "_"); i > 0 {
		out = append(out, p[:i], p[i+1:])
	}
	// ids that differ only in a format verb (they collide if an id ever ends up inside a format string)
	for _, tw := range [][2]string{{"%s", "%v"}, {"%s", "%d"}, {"%.0s", "%.0v"}, {"%d", "%x"}, {"%%", "%"}} {
		if strings.Contains(p, tw[0]) {
			out = append(out, strings.Replace(p, tw[0], tw[1], 1))
		}
	}
	out = append(out, fmt.Sprintf("rnd%d", rng.Int63()))
	return out
}

func swapCase(p string) string {
	b := []rune(p)
	for i, c := range b {
		switch {
		case c >= 'a' && c <= 'z' && i%2 == 0:
			b[i] = c - 32
		case c >= 'A' && c <= 'Z' && i%2 == 1:
			b[i] = c + 32
		}
	}
	return string(b)
}

func TestC06(t *testing.T) {
	r := ev.Start("C06", "exploration")
	r.Rule("pairs of distinct partition ids (A,B) generated from the key-id naming scheme (B = A + _service_product[_region], prefixes, suffixes, case, case-fold twins and unicode variants, ids that would match the other id if ids were interpreted as patterns (regex / glob / LIKE metacharacters), ids with invalid UTF-8 bytes and format verbs, ids embedding _IK_/_SK_, 255-byte ids, random ids; service/product with and without underscores), each executed through the real decrypt path in both directions on one factory: records produced for A are decrypted through a session for B in cold, warm and shared-IK-cache-already-holding-A's-key states, over a plain metastore, a suffix-advertising wrapper and the real DynamoDB v1/v2 metastores with region suffix over the fake. Every foreign record is presented three times in a row (once more after one of the session's own records). Oracle: err != nil each time. Empty partition id must be refused. A lifecycle pass uses sessions after Close, closes them twice and interleaves sessions of other partitions: no session ever returns plaintext for another partition's record. Companion cases (same partition across region suffixes, legacy unsuffixed ids) are executed and only counted. Distinct+non-trivial: distinct (service, product, A, B, store, cache state) tuples that reached the partition guard.")
	r.Assume("region suffixes are AWS region names (no underscores)")
	nBase := ev.Pick(14, 400)
	rng := rand.New(rand.NewSource(ev.Seed()))
	crypto := aead.NewAES256GCM()
	static, _ := kms.NewStatic("thisIsAStaticMasterKeyForTesting", crypto)
	defer static.Close()

	svcs := [][2]string{{"svc", "prod"}, {"s", "s"}, {"my_service", "my_product"}, {"a", "b_c"}}
	bases := []string{"a", "user_42", "p", "tenant-7", "aB3xK9q", "sks", "tenant-\xff", "100%", "user%40example.com", "acct%sx", "user%.0s-7", "n%d", "pct%%done", "üñí", "A_B_C", strings.Repeat("x", 255), "_IK_a", "a_svc_prod", "s", "42", "a_s"}
	for len(bases) < nBase {
		n := 1 + rng.Intn(12)
		b := make([]byte, n)
		for i := range b {
			b[i] = "ab_-AB01"[rng.Intn(8)]
		}
		bases = append(bases, string(b))
	}
	cfgs := []world.Cfg{world.Default(time.Hour, time.Hour, time.Minute)}
	sh := world.Default(time.Hour, time.Hour, time.Minute)
	sh.SharedIK, sh.IKPolicy, sh.IKCap = true, "lru", 1000
	sc := world.Default(time.Hour, time.Hour, time.Minute)
	sc.SessCache, sc.SessCap = true, 1000
	cfgs = append(cfgs, sh, sc)

	ctx := context.Background()
	for _, sk := range storeKinds() {
		for si, sp := range svcs {
			svc, prod := sp[0], sp[1]
			for ci, cfg := range cfgs {
				if si > 1 && ci > 0 && !ev.Thorough() {
					continue
				}
				journal(fmt.Sprintf("C06 store=%s svc=%s prod=%s cfg=%d", sk.name, svc, prod, ci))
				ms := sk.mk()
				f := appencryption.NewSessionFactory(&appencryption.Config{Service: svc, Product: prod, Policy: cfg.Policy()}, ms, static, crypto)
				// empty id refused
				if s, err := f.GetSession(""); err == nil {
					r.Violation("c06-empty-partition-accepted", "GetSession(\"\") succeeded", nil)
					s.Close()
				}
				type made struct {
					drr     *appencryption.DataRowRecord
					payload []byte
				}
				recs := map[string]made{}
				sess := map[string]*appencryption.Session{}
				get := func(p string) *appencryption.Session {
					if s, ok := sess[p]; ok {
						return s
					}
					s, err := f.GetSession(p)
					if err != nil {
						return nil
					}
					sess[p] = s
					return s
				}
				produce := func(p string) (made, bool) {
					if m, ok := recs[p]; ok {
						return m, true
					}
					s := get(p)
					if s == nil {
						return made{}, false
					}
					pl := []byte("secret of " + p)
					d, err := s.Encrypt(ctx, pl)
					if err != nil {
						r.Violation("c06-setup-encrypt-failed", fmt.Sprintf("encrypt for %q failed: %v", p, err), nil)
						return made{}, false
					}
					recs[p] = made{d, pl}
					return recs[p], true
				}
				try := func(a, b, state string) {
					if a == b || a == "" || b == "" {
						return
					}
					ma, ok := produce(a)
					if !ok {
						return
					}
					var sb *appencryption.Session
					switch state {
					case "cold":
						var err error
						if sb, err = f.GetSession(b); err != nil {
							return
						}
						defer sb.Close()
					default: // warm: B has already encrypted its own record
						if _, ok := produce(b); !ok {
							return
						}
						sb = get(b)
					}
					// the same foreign record is presented three times (a caller retrying a failed load), with one of
					// the session's own records decrypted before the last attempt: the verdict must not depend on
					// what the session was asked before
					var out []byte
					var err error
					for attempt := 0; attempt < 3; attempt++ {
						if attempt == 2 {
							if mb, ok := recs[b]; ok {
								sb.Decrypt(ctx, *world.CopyDRR(mb.drr))
							}
						}
						out, err = sb.Decrypt(ctx, *world.CopyDRR(ma.drr))
						r.Eval(1)
						if err == nil {
							break
						}
					}
					r.Distinct(fmt.Sprintf("%s|%s|%s|%q|%q|%d|%s", sk.name, svc, prod, a, b, ci, state))
					if err == nil {
						sig := "c06-foreign-decrypt"
						ownDefault := fmt.Sprintf("_IK_%s_%s_%s", b, svc, prod)
						if sk.suffix != "" && strings.HasPrefix(ma.drr.Key.ParentKeyMeta.ID, ownDefault) {
							sig = "c06-foreign-decrypt:suffixed-partition-prefix-match"
						}
						r.Violation(sig, fmt.Sprintf("store=%s service=%q product=%q: a session for partition %q decrypted a record produced for partition %q (IK id %q) and returned %d plaintext bytes (state %s, cfg %s)",
							sk.name, svc, prod, trunc(b), trunc(a), trunc(ma.drr.Key.ParentKeyMeta.ID), len(out), state, cfg),
							map[string]any{"store": sk.name, "service": svc, "product": prod, "record_partition": a, "session_partition": b})
					}
					if r.WantSample() && len(a) < 40 {
						r.Sample(map[string]any{"store": sk.name, "service": svc, "product": prod, "record_partition": a, "session_partition": b, "state": state, "result": fmt.Sprint(err)})
					}
				}
				for _, p := range bases {
					for _, q := range derived(p, svc, prod, "us-west-2", rng) {
						for _, state := range []string{"cold", "warm"} {
							try(p, q, state)
							try(q, p, state)
						}
					}
				}
				// random unrelated pairs
				for i := 0; i < len(bases); i++ {
					try(bases[rng.Intn(len(bases))], bases[rng.Intn(len(bases))], "warm")
				}
				// companion: same partition round trip still works (counted, never a C06 violation)
				for p, m := range recs {
					if out, err := get(p).Decrypt(ctx, *world.CopyDRR(m.drr)); err == nil && string(out) == string(m.payload) {
						r.Count("companion_same_partition_roundtrips", 1)
					} else {
						r.Count("companion_same_partition_failures", 1)
					}
				}
				for _, s := range sess {
					s.Close()
				}
				f.Close()
			}
		}
	}
	lifecyclePass(r)
	concurrentSessionsPass(r)
	companionCrossRegion(r)
	r.Finish(t)
}

func trunc(s string) string {
	if len(s) > 60 {
		return s[:60] + "..."
	}
	return s
}

// companionCrossRegion: records written with one region suffix (or none) decrypt for the same partition under another suffix.
func companionCrossRegion(r *ev.Run) {
	crypto := aead.NewAES256GCM()
	static, _ := kms.NewStatic("thisIsAStaticMasterKeyForTesting", crypto)
	defer static.Close()
	mem := persistence.NewMemoryMetastore()
	pol := world.Default(time.Hour, time.Hour, time.Minute).Policy()
	mk := func(suffix string) *appencryption.SessionFactory {
		var ms appencryption.Metastore = mem
		if suffix != "" {
			ms = &probe.Suffixed{Metastore: probe.NewMetastore(mem), Suffix: suffix}
		}
		return appencryption.NewSessionFactory(&appencryption.Config{Service: "svc", Product: "prod", Policy: pol}, ms, static, crypto)
	}
	for _, from := range []string{"", "us-west-2", "eu-west-1"} {
		ff := mk(from)
		s, _ := ff.GetSession("tenant")
		d, err := s.Encrypt(context.Background(), []byte("x"))
		s.Close()
		ff.Close()
		if err != nil {
			continue
		}
		for _, to := range []string{"us-west-2", "eu-west-1"} {
			tf := mk(to)
			ts, _ := tf.GetSession("tenant")
			if _, err := ts.Decrypt(context.Background(), *d); err == nil {
				r.Count("companion_cross_region_decrypts_ok", 1)
			} else {
				r.Count("companion_cross_region_decrypts_failed", 1)
			}
			ts.Close()
			tf.Close()
		}
	}
}

var _ = synctest.Wait

// lifecyclePass: whatever callers do with session lifecycles - use a session after closing it, close it twice, open
// and close sessions of other partitions in between - a session handed out for partition A never returns plaintext
// for a record of partition B (it may fail, also for its own records, once it has been closed).
func lifecyclePass(r *ev.Run) {
	ctx := context.Background()
	crypto := aead.NewAES256GCM()
	static, _ := kms.NewStatic("thisIsAStaticMasterKeyForTesting", crypto)
	defer static.Close()
	cfgs := []world.Cfg{world.Default(time.Hour, time.Hour, time.Minute)}
	sh := world.Default(time.Hour, time.Hour, time.Minute)
	sh.SharedIK, sh.IKPolicy, sh.IKCap = true, "lru", 4
	sc := world.Default(time.Hour, time.Hour, time.Minute)
	sc.SessCache, sc.SessCap = true, 2
	nc := world.Default(time.Hour, time.Hour, time.Minute)
	nc.CacheIK, nc.CacheSK = false, false
	cfgs = append(cfgs, sh, sc, nc)
	for _, sk := range storeKinds()[:2] {
		for ci, cfg := range cfgs {
			journal(fmt.Sprintf("C06 lifecycle store=%s cfg=%d", sk.name, ci))
			f := appencryption.NewSessionFactory(&appencryption.Config{Service: "svc", Product: "prod", Policy: cfg.Policy()}, sk.mk(), static, crypto)
			parts := []string{"alice", "bob", "carol"}
			recs := map[string]*appencryption.DataRowRecord{}
			for _, p := range parts {
				s, _ := f.GetSession(p)
				d, err := s.Encrypt(ctx, []byte("secret of "+p))
				if err != nil {
					panic(err)
				}
				recs[p] = d
				s.Close()
			}
			foreign := func(s *appencryption.Session, own, other, what string) {
				func() {
					defer func() { _ = recover() }() // a panic on a closed session is C07's business, not a leak
					out, err := s.Decrypt(ctx, *world.CopyDRR(recs[other]))
					r.Eval(1)
					if err == nil {
						r.Violation("c06-foreign-decrypt:lifecycle", fmt.Sprintf("store=%s cfg=%s: %s: the session handed out for partition %q returned %d plaintext bytes for a record of partition %q", sk.name, cfg, what, own, len(out), other),
							map[string]any{"store": sk.name, "session_partition": own, "record_partition": other, "sequence": what})
					}
				}()
			}
			rounds := ev.Pick(30, 400)
			for i := 0; i < rounds; i++ {
				a, b, c := parts[i%3], parts[(i+1)%3], parts[(i+2)%3]
				// use after Close, with other partitions' sessions opened meanwhile
				sa, _ := f.GetSession(a)
				sa.Close()
				sb, _ := f.GetSession(b)
				foreign(sa, a, b, "use after Close while a session of the other partition is open")
				foreign(sa, a, c, "use after Close")
				foreign(sb, b, a, "open session next to a closed one")
				sb.Close()
				foreign(sa, a, b, "use after Close, the other partition's session closed again")
				// double Close, then two fresh sessions
				sx, _ := f.GetSession(c)
				sx.Close()
				func() { defer func() { _ = recover() }(); sx.Close() }()
				sp, _ := f.GetSession(a)
				sq, _ := f.GetSession(b)
				foreign(sp, a, b, "fresh session after another session was closed twice")
				foreign(sq, b, a, "fresh session after another session was closed twice")
				foreign(sx, c, a, "session that was closed twice")
				if out, err := sp.Decrypt(ctx, *world.CopyDRR(recs[a])); err == nil && string(out) == "secret of "+a {
					r.Count("lifecycle_own_roundtrips", 1)
				} else {
					r.Count("lifecycle_own_failures", 1)
				}
				sp.Close()
				sq.Close()
				r.Distinct(fmt.Sprintf("lifecycle|%s|%d|%d", sk.name, ci, i%3))
			}
			func() { defer func() { _ = recover() }(); f.Close() }()
		}
	}
}

// concurrentSessionsPass: many goroutines open sessions for different partitions of one factory at the same time
// (no session caching, so every GetSession builds its partition object anew) and present the other partitions'
// records: the session a caller was handed for its id must be bound to that id.
func concurrentSessionsPass(r *ev.Run) {
	ctx := context.Background()
	crypto := aead.NewAES256GCM()
	static, _ := kms.NewStatic("thisIsAStaticMasterKeyForTesting", crypto)
	defer static.Close()
	for _, sk := range storeKinds()[:2] {
		for _, shared := range []bool{false, true} {
			cfg := world.Default(time.Hour, time.Hour, time.Minute)
			if shared {
				cfg.SharedIK, cfg.IKPolicy, cfg.IKCap = true, "lru", 8
			}
			journal(fmt.Sprintf("C06 concurrent sessions store=%s shared=%v", sk.name, shared))
			f := appencryption.NewSessionFactory(&appencryption.Config{Service: "svc", Product: "prod", Policy: cfg.Policy()}, sk.mk(), static, crypto)
			parts := []string{"alice", "bob", "carol"}
			recs := map[string]*appencryption.DataRowRecord{}
			for _, p := range parts {
				s, _ := f.GetSession(p)
				d, err := s.Encrypt(ctx, []byte("secret of "+p))
				if err != nil {
					panic(err)
				}
				recs[p] = d
				s.Close()
			}
			rounds := ev.Pick(4000, 60000)
			var wg sync.WaitGroup
			type leak struct{ own, other string }
			const workers = 16
			leaks := make([][]leak, workers)
			ownFails := make([]int, workers)
			for g := 0; g < workers; g++ {
				g := g
				wg.Add(1)
				go func() {
					defer wg.Done()
					own := parts[g%len(parts)]
					for i := 0; i < rounds; i++ {
						s, err := f.GetSession(own)
						if err != nil {
							continue
						}
						other := parts[(g+1+i%3)%len(parts)]
						if other != own {
							if _, err := s.Decrypt(ctx, *world.CopyDRR(recs[other])); err == nil {
								leaks[g] = append(leaks[g], leak{own, other})
							}
						}
						if i%64 == 0 { // (the foreign attempt is refused at the id check and is cheap; the own round trip is not)
							if out, err := s.Decrypt(ctx, *world.CopyDRR(recs[own])); err != nil || string(out) != "secret of "+own {
								ownFails[g]++
							}
						}
						s.Close()
					}
				}()
			}
			wg.Wait()
			f.Close()
			r.Eval(workers * rounds)
			r.Distinct(fmt.Sprintf("concurrent-sessions|%s|%v", sk.name, shared))
			for g := range leaks {
				if len(leaks[g]) > 0 {
					l := leaks[g][0]
					r.Violation("c06-foreign-decrypt:concurrent-get-session", fmt.Sprintf("store=%s shared-ik=%v: while other goroutines opened sessions for other partitions, the session handed out for %q decrypted a record of %q (%d times)", sk.name, shared, l.own, l.other, len(leaks[g])),
						map[string]any{"store": sk.name, "session_partition": l.own, "record_partition": l.other})
					break
				}
			}
			n := 0
			for _, k := range ownFails {
				n += k
			}
			r.Count("concurrent_sessions_own_record_failures", int64(n))
		}
	}
}
