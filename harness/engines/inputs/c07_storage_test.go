package inputs

import (
	"bytes"
	"context"
	"fmt"
	"strings"
	"time"

	"github.com/godaddy/asherah/go/appencryption"

	"verif/harness/ev"
	"verif/harness/fakes/ddb"
	"verif/harness/world"
)

// storagePass corrupts key records at the storage level underneath the real metastore plug-ins - DynamoDB items of
// the wrong shape or type behind both DynamoDB plug-ins, malformed key_record JSON behind the SQL plug-in - and lets
// cold factories (cached and uncached) decrypt a genuine record and encrypt: an error or the original payload, never
// other bytes, never a panic. Must run inside a bubble.
func storagePass(r *ev.Run) {
	ctx := context.Background()
	for _, be := range []string{"dynamodb-v1", "dynamodb-v2", "sql"} {
		w := world.NewOn("memguard", be)
		cfg := world.Default(time.Hour, time.Minute, time.Minute)
		f := w.Factory(cfg, "svc", "prod")
		s, _ := f.GetSession("P")
		payload := []byte("storage pass payload 0123456789")
		drr, err := s.Encrypt(ctx, payload)
		if err != nil {
			panic(err)
		}
		s.Close()
		f.Close()
		ikID, ikC := drr.Key.ParentKeyMeta.ID, drr.Key.ParentKeyMeta.Created
		ikRow := w.Raw(ikID, ikC)
		skID, skC := ikRow.ParentKeyMeta.ID, ikRow.ParentKeyMeta.Created

		try := func(kind, desc string) {
			for _, cfgName := range []string{"simple", "nocache"} {
				c := world.Default(time.Hour, time.Minute, time.Minute)
				if cfgName == "nocache" {
					c.CacheIK, c.CacheSK = false, false
				}
				r.Eval(1)
				r.Count("storage_mutants:"+be, 1)
				r.Distinct(be + "|" + desc + "|" + cfgName)
				func() {
					defer func() {
						if p := recover(); p != nil {
							r.Violation("c07-panic:storage-"+kind, fmt.Sprintf("%s: %s (%s): panic: %v", be, desc, cfgName, p), map[string]any{"backend": be, "mutant": desc})
						}
					}()
					cf := w.Factory(c, "svc", "prod")
					cs, _ := cf.GetSession("P")
					out, derr := cs.Decrypt(ctx, *world.CopyDRR(drr))
					if derr == nil && !bytes.Equal(out, payload) {
						r.Violation("c07-wrong-plaintext:storage-"+kind, fmt.Sprintf("%s: %s (%s): Decrypt returned %d other bytes without error", be, desc, cfgName, len(out)), map[string]any{"backend": be, "mutant": desc})
					}
					// the encrypt path must not crash on the corrupted row either (its result is not judged here)
					_, _ = cs.Encrypt(ctx, []byte("after corruption"))
					cs.Close()
					cf.Close()
				}()
			}
		}

		for _, target := range []struct {
			name    string
			id      string
			created int64
		}{{"IK", ikID, ikC}, {"SK", skID, skC}} {
			if t := w.DDB(); t != nil {
				S := func(s string) ddb.AV { return ddb.AV{Kind: 'S', S: s} }
				N := func(s string) ddb.AV { return ddb.AV{Kind: 'N', S: s} }
				kr := func(it map[string]ddb.AV, f func(m map[string]ddb.AV)) map[string]ddb.AV {
					k := it["KeyRecord"]
					f(k.M)
					it["KeyRecord"] = k
					return it
				}
				muts := []struct {
					name string
					f    func(it map[string]ddb.AV) map[string]ddb.AV
				}{
					{"KeyRecord attribute missing", func(it map[string]ddb.AV) map[string]ddb.AV { delete(it, "KeyRecord"); return it }},
					{"KeyRecord is a string", func(it map[string]ddb.AV) map[string]ddb.AV { it["KeyRecord"] = S("oops"); return it }},
					{"KeyRecord is NULL", func(it map[string]ddb.AV) map[string]ddb.AV { it["KeyRecord"] = ddb.AV{Kind: '0'}; return it }},
					{"KeyRecord is an empty map", func(it map[string]ddb.AV) map[string]ddb.AV {
						it["KeyRecord"] = ddb.AV{Kind: 'M', M: map[string]ddb.AV{}}
						return it
					}},
					{"Key missing", func(it map[string]ddb.AV) map[string]ddb.AV {
						return kr(it, func(m map[string]ddb.AV) { delete(m, "Key") })
					}},
					{"Key not base64", func(it map[string]ddb.AV) map[string]ddb.AV {
						return kr(it, func(m map[string]ddb.AV) { m["Key"] = S("!!not*base64!!") })
					}},
					{"Key empty", func(it map[string]ddb.AV) map[string]ddb.AV {
						return kr(it, func(m map[string]ddb.AV) { m["Key"] = S("") })
					}},
					{"Key is a number", func(it map[string]ddb.AV) map[string]ddb.AV {
						return kr(it, func(m map[string]ddb.AV) { m["Key"] = N("12345") })
					}},
					{"Key is binary", func(it map[string]ddb.AV) map[string]ddb.AV {
						return kr(it, func(m map[string]ddb.AV) { m["Key"] = ddb.AV{Kind: 'B', B: []byte{1, 2, 3}} })
					}},
					{"Key base64 of 5 bytes", func(it map[string]ddb.AV) map[string]ddb.AV {
						return kr(it, func(m map[string]ddb.AV) { m["Key"] = S("AQIDBAU=") })
					}},
					{"Key base64 of 12 bytes", func(it map[string]ddb.AV) map[string]ddb.AV {
						return kr(it, func(m map[string]ddb.AV) { m["Key"] = S("AQIDBAUGBwgJCgsM") })
					}},
					{"Key base64 of 27 bytes", func(it map[string]ddb.AV) map[string]ddb.AV {
						return kr(it, func(m map[string]ddb.AV) { m["Key"] = S("AQIDBAUGBwgJCgsMDQ4PEBESExQVFhcYGRob") })
					}},
					{"Created is a string", func(it map[string]ddb.AV) map[string]ddb.AV {
						return kr(it, func(m map[string]ddb.AV) { m["Created"] = S("yesterday") })
					}},
					{"Created missing", func(it map[string]ddb.AV) map[string]ddb.AV {
						return kr(it, func(m map[string]ddb.AV) { delete(m, "Created") })
					}},
					{"Created huge", func(it map[string]ddb.AV) map[string]ddb.AV {
						return kr(it, func(m map[string]ddb.AV) { m["Created"] = N("99999999999999999999999999") })
					}},
					{"Created fractional", func(it map[string]ddb.AV) map[string]ddb.AV {
						return kr(it, func(m map[string]ddb.AV) { m["Created"] = N("1.5") })
					}},
					{"Revoked is a string", func(it map[string]ddb.AV) map[string]ddb.AV {
						return kr(it, func(m map[string]ddb.AV) { m["Revoked"] = S("yes") })
					}},
					{"ParentKeyMeta is a string", func(it map[string]ddb.AV) map[string]ddb.AV {
						return kr(it, func(m map[string]ddb.AV) { m["ParentKeyMeta"] = S("_SK_svc_prod") })
					}},
					{"ParentKeyMeta missing", func(it map[string]ddb.AV) map[string]ddb.AV {
						return kr(it, func(m map[string]ddb.AV) { delete(m, "ParentKeyMeta") })
					}},
					{"ParentKeyMeta is an empty map", func(it map[string]ddb.AV) map[string]ddb.AV {
						return kr(it, func(m map[string]ddb.AV) { m["ParentKeyMeta"] = ddb.AV{Kind: 'M', M: map[string]ddb.AV{}} })
					}},
					{"ParentKeyMeta.KeyId is a number", func(it map[string]ddb.AV) map[string]ddb.AV {
						return kr(it, func(m map[string]ddb.AV) {
							m["ParentKeyMeta"] = ddb.AV{Kind: 'M', M: map[string]ddb.AV{"KeyId": N("7"), "Created": N("1")}}
						})
					}},
					{"ParentKeyMeta.Created is a string", func(it map[string]ddb.AV) map[string]ddb.AV {
						return kr(it, func(m map[string]ddb.AV) {
							m["ParentKeyMeta"] = ddb.AV{Kind: 'M', M: map[string]ddb.AV{"KeyId": S("_SK_svc_prod"), "Created": S("x")}}
						})
					}},
					{"ParentKeyMeta is NULL", func(it map[string]ddb.AV) map[string]ddb.AV {
						return kr(it, func(m map[string]ddb.AV) { m["ParentKeyMeta"] = ddb.AV{Kind: '0'} })
					}},
					{"unknown extra attributes", func(it map[string]ddb.AV) map[string]ddb.AV {
						it["Extra"] = S("x")
						return kr(it, func(m map[string]ddb.AV) { m["Another"] = ddb.AV{Kind: 'L', L: []ddb.AV{S("a")}} })
					}},
				}
				for _, mu := range muts {
					restore, ok := t.Mutate(target.id, target.created, mu.f)
					if !ok {
						panic("no item " + target.id)
					}
					try("ddb-item", fmt.Sprintf("%s item: %s", target.name, mu.name))
					restore()
				}
			}
			if db := w.SQL(); db != nil {
				orig, _ := db.Record(target.id, target.created)
				recs := []string{"", " ", "null", "{}", "[]", "0", "\"str\"", "{\"Key\":5}", "{\"Key\":\"!!\"}", "{\"Key\":null,\"Created\":1}",
					orig[:len(orig)/2], orig + "}", strings.Replace(orig, "\"Created\":", "\"Created\":\"x\",\"c\":", 1),
					strings.Replace(orig, "\"ParentKeyMeta\":{", "\"ParentKeyMeta\":null,\"p\":{", 1),
					strings.Replace(orig, "\"ParentKeyMeta\":{", "\"ParentKeyMeta\":\"s\",\"p\":{", 1),
					strings.Replace(orig, "\"KeyId\":\"", "\"KeyId\":7,\"k\":\"", 1),
					"{\"Key\":\"AQIDBAU=\",\"Created\":1}", "{\"Key\":\"AQIDBAUGBwgJCgsM\",\"Created\":1,\"ParentKeyMeta\":{\"KeyId\":\"" + skID + "\",\"Created\":" + fmt.Sprint(skC) + "}}",
					"{\"Created\":99999999999999999999999999}", strings.Repeat("[", 10000), "\xff\xfe\x00"}
				for i, rec := range recs {
					restore, ok := db.SetRecord(target.id, target.created, rec)
					if !ok {
						panic("no row " + target.id)
					}
					show := rec
					if len(show) > 40 {
						show = show[:40] + "..."
					}
					try("sql-row", fmt.Sprintf("%s key_record #%d %q", target.name, i, show))
					restore()
				}
			}
		}
		// control: with everything restored the record still decrypts
		cf := w.Factory(cfg, "svc", "prod")
		cs, _ := cf.GetSession("P")
		if out, derr := cs.Decrypt(ctx, *world.CopyDRR(drr)); derr != nil || !bytes.Equal(out, payload) {
			r.Violation("c07-storage-pass-broken", fmt.Sprintf("%s: the genuine record no longer decrypts after the rows were restored: %v", be, derr), nil)
		}
		cs.Close()
		cf.Close()
		w.Close()
	}
	var _ appencryption.Metastore
}
