package inputs

import (
	"bytes"
	"context"
	"encoding/json"
	"errors"
	"fmt"
	"math"
	"math/rand"
	"testing"
	"testing/synctest"
	"time"

	"github.com/godaddy/asherah/go/appencryption"

	"verif/harness/ev"
	"verif/harness/probe"
	"verif/harness/world"
)

type genuine struct {
	part    string
	payload []byte
	drr     *appencryption.DataRowRecord
}

type c07 struct {
	r       *ev.Run
	w       *world.World
	f       *appencryption.SessionFactory
	sess    map[string]*appencryption.Session
	corpus  []genuine
	sampled map[string]bool
	byData  map[string][]byte // string(Data) -> payload originally encrypted into it
}

// check decrypts a (possibly mutated) record through the session of part and applies the oracle:
// an error, or exactly the payload originally encrypted under the record its Data came from.
func (c *c07) check(part string, d *appencryption.DataRowRecord, kind string, describe func() string) {
	c.r.Eval(1)
	c.r.Count("mutants:"+kind, 1)
	var (
		out []byte
		err error
	)
	aeadBefore := c.w.AEAD.N()
	func() {
		defer func() {
			if p := recover(); p != nil {
				c.r.Violation("c07-panic:"+kind, fmt.Sprintf("Decrypt panicked on %s: %v", describe(), p), describe())
				err = errors.New("panic")
			}
		}()
		if d == nil {
			return
		}
		out, err = c.sess[part].Decrypt(context.Background(), *d)
	}()
	if c.w.AEAD.N() > aeadBefore {
		c.r.Distinct(kind + "|" + describe())
	}
	if c.sampled == nil {
		c.sampled = map[string]bool{}
	}
	if !c.sampled[kind] && len(c.sampled) < 5 {
		c.sampled[kind] = true
		c.r.Sample(map[string]any{"kind": kind, "mutant": describe(), "result": fmt.Sprint(err)})
	}
	if err != nil {
		return
	}
	var want []byte
	ok := false
	if d != nil {
		want, ok = c.byData[string(d.Data)]
	}
	if !ok || !bytes.Equal(out, want) {
		c.r.Violation("c07-wrong-plaintext:"+kind, fmt.Sprintf("Decrypt of %s returned %d bytes without error that are not the payload originally encrypted under that Data", describe(), len(out)), describe())
	}
}

func flip(b []byte, bit int) []byte {
	c := append([]byte(nil), b...)
	c[bit/8] ^= 1 << (bit % 8)
	return c
}

func TestC07(t *testing.T) {
	r := ev.Start("C07", "exploration")
	r.Rule("a corpus of genuine records (payload sizes 0/1/16/100, two partitions, two key generations) is mutated systematically: EVERY single-bit flip of Data and of the encrypted data key, every truncation and several extensions of both, every ordered pair of records exchanging Data / encrypted key / parent key meta / created stamps, parent meta pointing at every other existing key (other generation, other partition, the SK id) with Created in {0, +-1, min, max}, nil Key / ParentKeyMeta / EncryptedKey / Data, random JSON documents through json.Unmarshal; corrupted metastore rows (every bit flip of IK and SK ciphertext on a cold factory, nil or mispointing ParentKeyMeta, wrong Created, missing row, row of another id); Session.Load with loaders returning (nil,nil), (nil,err) and mutated records; storage-level corruption underneath the real plug-ins (DynamoDB items of the wrong shape/type behind both DynamoDB plug-ins, malformed key_record JSON behind the SQL plug-in) seen by cold cached/uncached factories; genuine and bit-flipped records presented to sessions closed once or twice and to sessions whose factory has been closed, for five cache configurations; with the AWS KMS plug-ins as the KMS, every bit flip and structural damage of the multi-region JSON envelope in the system-key row. Oracle: error, or exactly the payload originally encrypted under the record the Data came from; never a panic (recover() per case, process death = violation). Distinct+non-trivial: distinct mutants that reached the AEAD.")
	r.Assume("AES-GCM tag forgery probability 2^-128 per mutant is treated as impossible")
	failed := false
	defer func() {
		if p := recover(); p != nil && !failed {
			r.Violation("c07-harness-panic", fmt.Sprint(p), nil)
			r.Finish(t)
		}
	}()
	synctest.Test(t, func(t *testing.T) {
		rng := rand.New(rand.NewSource(ev.Seed()))
		c := &c07{r: r, w: world.New("memguard"), sess: map[string]*appencryption.Session{}, byData: map[string][]byte{}}
		defer c.w.Close()
		cfg := world.Default(time.Hour, time.Minute, time.Minute)
		c.f = c.w.Factory(cfg, "svc", "prod")
		ctx := context.Background()
		for _, p := range []string{"P", "Q"} {
			s, _ := c.f.GetSession(p)
			c.sess[p] = s
		}
		produce := func() {
			for _, p := range []string{"P", "Q"} {
				for _, n := range []int{0, 1, 16, 100} {
					pl := make([]byte, n)
					rng.Read(pl)
					d, err := c.sess[p].Encrypt(ctx, pl)
					if err != nil {
						panic(err)
					}
					c.corpus = append(c.corpus, genuine{p, pl, d})
					c.byData[string(d.Data)] = pl
				}
			}
		}
		produce()
		time.Sleep(2 * time.Hour) // second key generation
		produce()
		r.Count("corpus_records", int64(len(c.corpus)))
		journal("C07 corpus built")

		// 1. exhaustive single-bit flips
		for gi, g := range c.corpus {
			if !ev.Thorough() && gi%2 == 1 && len(g.payload) != 100 {
				continue
			}
			for bit := 0; bit < len(g.drr.Data)*8; bit++ {
				m := world.CopyDRR(g.drr)
				m.Data = flip(g.drr.Data, bit)
				c.check(g.part, m, "bitflip-data", func() string { return fmt.Sprintf("record#%d Data bit %d flipped", gi, bit) })
			}
			for bit := 0; bit < len(g.drr.Key.EncryptedKey)*8; bit++ {
				m := world.CopyDRR(g.drr)
				m.Key.EncryptedKey = flip(g.drr.Key.EncryptedKey, bit)
				c.check(g.part, m, "bitflip-key", func() string { return fmt.Sprintf("record#%d EncryptedKey bit %d flipped", gi, bit) })
			}
			// 2. truncations and extensions
			for n := 0; n < len(g.drr.Data); n++ {
				m := world.CopyDRR(g.drr)
				m.Data = g.drr.Data[:n]
				c.check(g.part, m, "truncate-data", func() string { return fmt.Sprintf("record#%d Data truncated to %d", gi, n) })
				m2 := world.CopyDRR(g.drr)
				m2.Data = g.drr.Data[len(g.drr.Data)-n:]
				c.check(g.part, m2, "truncate-data-front", func() string { return fmt.Sprintf("record#%d Data last %d bytes", gi, n) })
			}
			for n := 0; n < len(g.drr.Key.EncryptedKey); n++ {
				m := world.CopyDRR(g.drr)
				m.Key.EncryptedKey = g.drr.Key.EncryptedKey[:n]
				c.check(g.part, m, "truncate-key", func() string { return fmt.Sprintf("record#%d EncryptedKey truncated to %d", gi, n) })
			}
			for _, extra := range []int{1, 12, 16, 28, 64} {
				m := world.CopyDRR(g.drr)
				m.Data = append(append([]byte(nil), g.drr.Data...), make([]byte, extra)...)
				c.check(g.part, m, "extend-data", func() string { return fmt.Sprintf("record#%d Data + %d zero bytes", gi, extra) })
				m2 := world.CopyDRR(g.drr)
				m2.Key.EncryptedKey = append(make([]byte, extra), g.drr.Key.EncryptedKey...)
				c.check(g.part, m2, "extend-key", func() string { return fmt.Sprintf("record#%d EncryptedKey prefixed with %d bytes", gi, extra) })
			}
		}
		journal("C07 flips done")
		// 3. splices of all ordered pairs
		for i, a := range c.corpus {
			for j, b := range c.corpus {
				if i == j {
					continue
				}
				for _, part := range []string{a.part, b.part} {
					m := world.CopyDRR(a.drr)
					m.Key = probe.CopyEKR(b.drr.Key)
					c.check(part, m, "splice-key", func() string { return fmt.Sprintf("Data of #%d with whole Key of #%d via %s", i, j, part) })
					m = world.CopyDRR(a.drr)
					m.Key.EncryptedKey = append([]byte(nil), b.drr.Key.EncryptedKey...)
					c.check(part, m, "splice-encrypted-key", func() string { return fmt.Sprintf("#%d with EncryptedKey of #%d via %s", i, j, part) })
					m = world.CopyDRR(a.drr)
					pm := *b.drr.Key.ParentKeyMeta
					m.Key.ParentKeyMeta = &pm
					c.check(part, m, "splice-parent", func() string { return fmt.Sprintf("#%d with ParentKeyMeta of #%d via %s", i, j, part) })
					m = world.CopyDRR(a.drr)
					m.Key.Created = b.drr.Key.Created + int64(j)
					c.check(part, m, "splice-created", func() string { return fmt.Sprintf("#%d with Created of #%d via %s", i, j, part) })
					m = world.CopyDRR(a.drr)
					m.Data = append([]byte(nil), b.drr.Data...)
					c.check(part, m, "splice-data", func() string { return fmt.Sprintf("#%d with Data of #%d via %s", i, j, part) })
				}
			}
		}
		journal("C07 splices done")
		// 4. parent meta pointing at every existing key id with odd Created values
		var ids []string
		seen := map[string]bool{}
		for _, row := range c.w.Rows() {
			if !seen[row.ID] {
				seen[row.ID] = true
				ids = append(ids, row.ID)
			}
		}
		ids = append(ids, "", "_IK_", "_IK_P_svc_prod_extra", "_IK_P", "nonsense")
		for gi, g := range c.corpus {
			for _, id := range ids {
				for _, cr := range []int64{0, 1, -1, g.drr.Key.ParentKeyMeta.Created, g.drr.Key.ParentKeyMeta.Created + 1, g.drr.Key.ParentKeyMeta.Created - 1, math.MinInt64, math.MaxInt64} {
					m := world.CopyDRR(g.drr)
					m.Key.ParentKeyMeta = &appencryption.KeyMeta{ID: id, Created: cr}
					c.check(g.part, m, "parent-meta", func() string { return fmt.Sprintf("record#%d with ParentKeyMeta{%q,%d}", gi, id, cr) })
				}
			}
		}
		// 5. structurally malformed
		for gi, g := range c.corpus[:4] {
			m := world.CopyDRR(g.drr)
			m.Key = nil
			c.check(g.part, m, "nil-key", func() string { return fmt.Sprintf("record#%d Key=nil", gi) })
			m = world.CopyDRR(g.drr)
			m.Key.ParentKeyMeta = nil
			c.check(g.part, m, "nil-parent", func() string { return fmt.Sprintf("record#%d ParentKeyMeta=nil", gi) })
			m = world.CopyDRR(g.drr)
			m.Key.EncryptedKey = nil
			c.check(g.part, m, "nil-encrypted-key", func() string { return fmt.Sprintf("record#%d EncryptedKey=nil", gi) })
			m = world.CopyDRR(g.drr)
			m.Data = nil
			c.check(g.part, m, "nil-data", func() string { return fmt.Sprintf("record#%d Data=nil", gi) })
			c.check(g.part, &appencryption.DataRowRecord{}, "zero-record", func() string { return "zero DataRowRecord" })
		}
		// 6. random JSON documents
		nj := ev.Pick(2000, 1500000)
		g0 := c.corpus[0]
		base, _ := json.Marshal(g0.drr)
		for i := 0; i < nj; i++ {
			doc := append([]byte(nil), base...)
			switch rng.Intn(4) {
			case 0:
				doc[rng.Intn(len(doc))] = byte(rng.Intn(256))
			case 1:
				doc = doc[:rng.Intn(len(doc))]
			case 2:
				doc = []byte(fmt.Sprintf(`{"Key":{"Created":%d,"Key":"%s","ParentKeyMeta":{"KeyId":"%s","Created":%d}},"Data":"%s"}`, rng.Int63(), randB64(rng), []string{"_IK_P_svc_prod", "x", ""}[rng.Intn(3)], rng.Int63n(3)-1, randB64(rng)))
			default:
				doc = []byte(`{"Key":null,"Data":null}`)
			}
			var d appencryption.DataRowRecord
			if json.Unmarshal(doc, &d) != nil {
				r.Count("json_rejected_by_decoder", 1)
				continue
			}
			c.check("P", &d, "random-json", func() string { return "json " + string(doc) })
		}
		journal("C07 json done")
		// 8. Session.Load with hostile loaders
		for name, ld := range map[string]loaderFunc{
			"nil-nil": func(context.Context, interface{}) (*appencryption.DataRowRecord, error) { return nil, nil },
			"nil-err": func(context.Context, interface{}) (*appencryption.DataRowRecord, error) {
				return nil, errors.New("not found")
			},
			"zero": func(context.Context, interface{}) (*appencryption.DataRowRecord, error) {
				return &appencryption.DataRowRecord{}, nil
			},
		} {
			func() {
				defer func() {
					if p := recover(); p != nil {
						r.Violation("c07-panic:session-load-"+name, fmt.Sprintf("Session.Load panicked with a loader returning %s: %v", name, p), nil)
					}
				}()
				out, err := c.sess["P"].Load(ctx, 1, ld)
				r.Eval(1)
				if err == nil {
					r.Violation("c07-wrong-plaintext:session-load-"+name, fmt.Sprintf("Session.Load returned %d bytes without error for loader %s", len(out), name), nil)
				}
			}()
		}
		for _, s := range c.sess {
			s.Close()
		}
		c.f.Close()

		// 7. corrupted key rows seen by a cold factory
		c.corruptRows(rng)

		// 9. the same structural mutants against a region-suffixing metastore (suffixed partition id checks)
		suffixedPass(r, rng)
		synctest.Wait()

		// 10. storage-level corruption underneath the real metastore plug-ins
		storagePass(r)
		synctest.Wait()

		// 11. records presented to sessions and factories that have already been closed (once or twice)
		c.closedPass()
		synctest.Wait()

		// 12. corrupted system-key envelopes of the AWS KMS plug-ins (multi-region JSON) seen by cold factories
		awsKMSRows(r)
		synctest.Wait()
	})
	// 13. many goroutines at once (outside the bubble: real scheduling, race detector)
	concurrentPass(r)
	r.Exhaustive(true)
	r.Finish(t)
}

type loaderFunc func(context.Context, interface{}) (*appencryption.DataRowRecord, error)

func (l loaderFunc) Load(ctx context.Context, k interface{}) (*appencryption.DataRowRecord, error) {
	return l(ctx, k)
}

func randB64(rng *rand.Rand) string {
	const al = "ABCDEFGHIJKLMNOPQRSTUVWXYZabcdefghijklmnopqrstuvwxyz0123456789+/="
	b := make([]byte, rng.Intn(90))
	for i := range b {
		b[i] = al[rng.Intn(len(al))]
	}
	return string(b)
}

// corruptRows replaces one key row at a time by a corrupted copy, decrypts a genuine record through a cold
// factory (cached and uncached), applies the oracle, and restores the row.
func (c *c07) corruptRows(rng *rand.Rand) {
	mem := c.w.Mem
	type rowRef struct {
		id      string
		created int64
	}
	var rows []rowRef
	for _, row := range c.w.Rows() {
		rows = append(rows, rowRef{row.ID, row.Created})
	}
	target := c.corpus[len(c.corpus)-1] // newest generation, partition Q
	for _, g := range c.corpus {
		if g.part == "P" && len(g.payload) == 16 {
			target = g
			break
		}
	}
	try := func(kind, desc string, cfgName string) {
		cfg := world.Default(time.Hour, time.Minute, time.Minute)
		if cfgName == "nocache" {
			cfg.CacheIK, cfg.CacheSK = false, false
		}
		f := c.w.Factory(cfg, "svc", "prod")
		s, _ := f.GetSession(target.part)
		c.sess["cold"] = s
		c.check("cold", world.CopyDRR(target.drr), kind, func() string { return desc + " (" + cfgName + ")" })
		// the encrypt path must not crash on the corrupted row either
		func() {
			defer func() {
				if p := recover(); p != nil {
					c.r.Violation("c07-panic:encrypt-"+kind, fmt.Sprintf("Encrypt panicked with %s: %v", desc, p), desc)
				}
			}()
			_, _ = s.Encrypt(context.Background(), []byte("x"))
		}()
		func() {
			defer func() { _ = recover() }()
			s.Close()
			f.Close()
		}()
	}
	for _, rr := range rows {
		orig := mem.Envelopes[rr.id][rr.created]
		set := func(e *appencryption.EnvelopeKeyRecord) {
			mem.Lock()
			mem.Envelopes[rr.id][rr.created] = e
			mem.Unlock()
		}
		nbits := len(orig.EncryptedKey) * 8
		step := 1
		if !ev.Thorough() {
			step = 3
		}
		for bit := 0; bit < nbits; bit += step {
			m := probe.CopyEKR(orig)
			m.EncryptedKey = flip(orig.EncryptedKey, bit)
			set(m)
			try("row-bitflip", fmt.Sprintf("row (%s,%d) ciphertext bit %d flipped", rr.id, rr.created, bit), []string{"simple", "nocache"}[bit%2])
		}
		for _, mut := range []struct {
			name string
			f    func(e *appencryption.EnvelopeKeyRecord)
		}{
			{"row-nil-parent", func(e *appencryption.EnvelopeKeyRecord) { e.ParentKeyMeta = nil }},
			{"row-parent-missing", func(e *appencryption.EnvelopeKeyRecord) {
				e.ParentKeyMeta = &appencryption.KeyMeta{ID: "_SK_nope", Created: 1}
			}},
			{"row-parent-self", func(e *appencryption.EnvelopeKeyRecord) {
				e.ParentKeyMeta = &appencryption.KeyMeta{ID: rr.id, Created: rr.created}
			}},
			{"row-parent-other-ik", func(e *appencryption.EnvelopeKeyRecord) {
				e.ParentKeyMeta = &appencryption.KeyMeta{ID: "_IK_Q_svc_prod", Created: rr.created}
			}},
			{"row-wrong-created", func(e *appencryption.EnvelopeKeyRecord) { e.Created += 7 }},
			{"row-empty-ciphertext", func(e *appencryption.EnvelopeKeyRecord) { e.EncryptedKey = nil }},
			{"row-short-ciphertext", func(e *appencryption.EnvelopeKeyRecord) { e.EncryptedKey = e.EncryptedKey[:5] }},
			{"row-revoked", func(e *appencryption.EnvelopeKeyRecord) { e.Revoked = true }},
		} {
			for _, cfgName := range []string{"simple", "nocache"} {
				m := probe.CopyEKR(orig)
				mut.f(m)
				set(m)
				try(mut.name, fmt.Sprintf("row (%s,%d) %s", rr.id, rr.created, mut.name), cfgName)
			}
		}
		// row replaced by the row of another id, and row missing
		for _, other := range rows {
			if other.id != rr.id {
				set(probe.CopyEKR(mem.Envelopes[other.id][other.created]))
				try("row-of-other-id", fmt.Sprintf("row (%s,%d) replaced by the content of (%s,%d)", rr.id, rr.created, other.id, other.created), "simple")
			}
		}
		mem.Lock()
		delete(mem.Envelopes[rr.id], rr.created)
		mem.Unlock()
		try("row-missing", fmt.Sprintf("row (%s,%d) missing", rr.id, rr.created), "simple")
		try("row-missing", fmt.Sprintf("row (%s,%d) missing", rr.id, rr.created), "nocache")
		set(orig)
	}
}

// suffixedPass re-runs the parent-key-meta and structural mutants on a factory whose metastore advertises a
// region suffix, where partition validation follows a different code path.
func suffixedPass(r *ev.Run, rng *rand.Rand) {
	c := &c07{r: r, w: world.New("memguard"), sess: map[string]*appencryption.Session{}, byData: map[string][]byte{}}
	defer c.w.Close()
	c.w.Suffix = "us-west-2"
	c.f = c.w.Factory(world.Default(time.Hour, time.Minute, time.Minute), "svc", "prod")
	ctx := context.Background()
	for _, p := range []string{"P", "Q"} {
		s, _ := c.f.GetSession(p)
		c.sess[p] = s
		for _, n := range []int{0, 16} {
			pl := make([]byte, n)
			rng.Read(pl)
			d, err := s.Encrypt(ctx, pl)
			if err != nil {
				panic(err)
			}
			c.corpus = append(c.corpus, genuine{p, pl, d})
			c.byData[string(d.Data)] = pl
		}
	}
	for gi, g := range c.corpus {
		full := g.drr.Key.ParentKeyMeta.ID
		ids := []string{"", "_", "_IK_", "_IK_P", "_IK_P_svc", "_IK_P_svc_prod", "_IK_P_svc_prod_", "_IK_P_svc_prod_eu-west-1", "_IK_Q_svc_prod_us-west-2", "_SK_svc_prod_us-west-2", "x"}
		for n := 0; n <= len(full); n++ {
			ids = append(ids, full[:n])
		}
		for _, id := range ids {
			for _, cr := range []int64{g.drr.Key.ParentKeyMeta.Created, 0} {
				m := world.CopyDRR(g.drr)
				m.Key.ParentKeyMeta = &appencryption.KeyMeta{ID: id, Created: cr}
				c.check(g.part, m, "suffixed-parent-meta", func() string { return fmt.Sprintf("suffixed record#%d with ParentKeyMeta{%q,%d}", gi, id, cr) })
			}
		}
		m := world.CopyDRR(g.drr)
		m.Key.ParentKeyMeta = nil
		c.check(g.part, m, "suffixed-nil-parent", func() string { return "suffixed record ParentKeyMeta=nil" })
		m = world.CopyDRR(g.drr)
		m.Key = nil
		c.check(g.part, m, "suffixed-nil-key", func() string { return "suffixed record Key=nil" })
		for bit := 0; bit < len(g.drr.Data)*8; bit += 5 {
			m := world.CopyDRR(g.drr)
			m.Data = flip(g.drr.Data, bit)
			c.check(g.part, m, "suffixed-bitflip-data", func() string { return fmt.Sprintf("suffixed record#%d Data bit %d", gi, bit) })
		}
	}
	for _, s := range c.sess {
		s.Close()
	}
	c.f.Close()
}

// closedPass: genuine and mutated records are decrypted / loaded (and a payload encrypted) through sessions that
// have been closed once or twice, and through live sessions whose factory has been closed, for every cache
// configuration: the original payload or an error, never other bytes, never a panic.
func (c *c07) closedPass() {
	ctx := context.Background()
	cfgs := map[string]world.Cfg{"simple": world.Default(time.Hour, time.Minute, time.Minute)}
	x := world.Default(time.Hour, time.Minute, time.Minute)
	x.IKPolicy, x.IKCap, x.SKPolicy, x.SKCap = "lru", 2, "slru", 2
	cfgs["lru2"] = x
	x = world.Default(time.Hour, time.Minute, time.Minute)
	x.SharedIK, x.IKPolicy, x.IKCap = true, "tinylfu", 4
	cfgs["shared"] = x
	x = world.Default(time.Hour, time.Minute, time.Minute)
	x.SessCache, x.SessCap = true, 2
	cfgs["sesscache"] = x
	x = world.Default(time.Hour, time.Minute, time.Minute)
	x.CacheIK, x.CacheSK = false, false
	cfgs["nocache"] = x
	for name, cfg := range cfgs {
		for _, how := range []string{"session closed", "session closed twice", "factory closed, session open", "factory and session closed"} {
			for _, warm := range []bool{false, true} {
				f := c.w.Factory(cfg, "svc", "prod")
				sess := map[string]*appencryption.Session{}
				for _, g := range c.corpus {
					if sess[g.part] == nil {
						sess[g.part], _ = f.GetSession(g.part)
					}
				}
				if warm {
					for _, g := range c.corpus {
						_, _ = sess[g.part].Decrypt(ctx, *world.CopyDRR(g.drr))
					}
				}
				quiet := func(fn func()) { defer func() { _ = recover() }(); fn() }
				switch how {
				case "session closed":
					for _, s := range sess {
						quiet(func() { s.Close() })
					}
				case "session closed twice":
					for _, s := range sess {
						quiet(func() { s.Close() })
						quiet(func() { s.Close() })
					}
				case "factory closed, session open":
					quiet(func() { f.Close() })
				default:
					for _, s := range sess {
						quiet(func() { s.Close() })
					}
					quiet(func() { f.Close() })
				}
				// asynchronous teardown (session-cache Remove goroutines) has finished before the closed objects are used:
				// the misuse examined here is sequential use after Close, not use racing with Close
				synctest.Wait()
				for gi, g := range c.corpus {
					desc := fmt.Sprintf("cfg=%s warm=%v, %s: record #%d of %q", name, warm, how, gi, g.part)
					c.sess["closed"] = sess[g.part]
					c.check("closed", world.CopyDRR(g.drr), "closed-genuine", func() string { return desc })
					m := world.CopyDRR(g.drr)
					if len(m.Data) > 0 {
						m.Data[len(m.Data)/2] ^= 1
					}
					c.check("closed", m, "closed-bitflip", func() string { return desc + " (bit flipped)" })
					func() {
						defer func() {
							if p := recover(); p != nil {
								c.r.Violation("c07-panic:closed-load", fmt.Sprintf("Load panicked with %s: %v", desc, p), desc)
							}
						}()
						out, err := sess[g.part].Load(ctx, 1, loaderFunc(func(context.Context, interface{}) (*appencryption.DataRowRecord, error) {
							return world.CopyDRR(g.drr), nil
						}))
						if err == nil && !bytes.Equal(out, g.payload) {
							c.r.Violation("c07-wrong-plaintext:closed-load", fmt.Sprintf("Load returned other bytes with %s", desc), desc)
						}
					}()
					func() {
						defer func() {
							if p := recover(); p != nil {
								c.r.Violation("c07-panic:closed-encrypt", fmt.Sprintf("Encrypt panicked with %s: %v", desc, p), desc)
							}
						}()
						_, _ = sess[g.part].Encrypt(ctx, []byte("x"))
					}()
				}
				// leave nothing behind: whatever is still open is closed now
				for _, sx := range sess {
					sx := sx
					quiet(func() { sx.Close() })
				}
				quiet(func() { f.Close() })
				synctest.Wait()
			}
		}
	}
}
