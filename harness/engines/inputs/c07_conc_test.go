package inputs

import (
	"bytes"
	"context"
	"fmt"
	"math/rand"
	"sync"
	"sync/atomic"
	"time"

	"github.com/godaddy/asherah/go/appencryption"

	"verif/harness/ev"
	"verif/harness/world"
)

// concurrentPass: the payload-or-error oracle with many goroutines presenting genuine and damaged records to the same
// sessions at once (cold caches first, so that key loads are in flight while other decrypts enter the caches). Under
// the race detector; a panic is recovered per operation, a worker that never comes back (an operation that neither
// returns a payload nor an error) is reported after three minutes without any progress.
func concurrentPass(r *ev.Run) {
	for _, cfgName := range []string{"default", "shared-lru2", "nocache"} {
		w := world.New("memguard")
		w.MS.Drop, w.AEAD.Drop = true, true
		w.Led.NoHash, w.Led.NoAccessLog = true, true
		cfg := world.Default(time.Hour, time.Millisecond, time.Minute) // cached keys are re-checked all the time
		switch cfgName {
		case "shared-lru2":
			cfg.SharedIK, cfg.IKPolicy, cfg.IKCap = true, "lru", 2
		case "nocache":
			cfg.CacheIK, cfg.CacheSK = false, false
		}
		ctx := context.Background()
		pf := w.Factory(world.Default(time.Hour, time.Hour, time.Minute), "svc", "prod")
		type item struct {
			part string
			pl   []byte
			d    *appencryption.DataRowRecord
		}
		var items []item
		for _, p := range []string{"P", "Q", "R"} {
			s, _ := pf.GetSession(p)
			for k := 0; k < 2; k++ {
				pl := []byte(fmt.Sprintf("payload %s %d", p, k))
				d, err := s.Encrypt(ctx, pl)
				if err != nil {
					r.Violation("c07-setup", "concurrent pass: "+err.Error(), nil)
					return
				}
				items = append(items, item{p, pl, d})
			}
			s.Close()
		}
		pf.Close()
		f := w.Factory(cfg, "svc", "prod")
		sess := map[string]*appencryption.Session{}
		for _, p := range []string{"P", "Q", "R"} {
			sess[p], _ = f.GetSession(p)
		}
		const workers = 16
		var progress, wrong, panics atomic.Int64
		var firstBad atomic.Value
		var wg sync.WaitGroup
		for g := 0; g < workers; g++ {
			g := g
			wg.Add(1)
			go func() {
				defer wg.Done()
				rng := rand.New(rand.NewSource(ev.Seed()*977 + int64(g)))
				for i := 0; i < ev.Pick(150, 1500); i++ {
					progress.Add(1)
					it := items[rng.Intn(len(items))]
					d := world.CopyDRR(it.d)
					genuine := rng.Intn(3) == 0
					if !genuine {
						switch rng.Intn(4) {
						case 0:
							d.Data[rng.Intn(len(d.Data))] ^= 1 << uint(rng.Intn(8))
						case 1:
							d.Key.EncryptedKey[rng.Intn(len(d.Key.EncryptedKey))] ^= 1 << uint(rng.Intn(8))
						case 2:
							d.Data = d.Data[:rng.Intn(len(d.Data))]
						default:
							other := items[rng.Intn(len(items))]
							d.Key.ParentKeyMeta = &appencryption.KeyMeta{ID: other.d.Key.ParentKeyMeta.ID, Created: other.d.Key.ParentKeyMeta.Created + int64(rng.Intn(3)-1)}
						}
					}
					func() {
						defer func() {
							if p := recover(); p != nil {
								panics.Add(1)
								firstBad.CompareAndSwap(nil, fmt.Sprintf("panic: %v", p))
							}
						}()
						out, err := sess[it.part].Decrypt(ctx, *d)
						if err == nil && !bytes.Equal(out, it.pl) {
							wrong.Add(1)
							firstBad.CompareAndSwap(nil, "decrypt returned other bytes without an error")
						}
						// (an error for a genuine record is not this property's business: payload or error is all it asks)
						_ = genuine
					}()
					if i%7 == 0 {
						_, _ = sess[it.part].Encrypt(ctx, []byte("x")) // keeps key loads and refreshes in flight
					}
				}
			}()
		}
		done := make(chan struct{})
		go func() { wg.Wait(); close(done) }()
		stuck := false
		for last, idle := progress.Load(), 0; !stuck; {
			finished := false
			select {
			case <-done:
				finished = true
			case <-time.After(10 * time.Second):
			}
			if finished {
				break
			}
			if cur := progress.Load(); cur != last {
				last, idle = cur, 0
			} else if idle++; idle >= 18 {
				stuck = true
			}
		}
		r.Eval(1)
		r.Count("concurrent_pass_ops", progress.Load())
		r.Distinct("concurrent|" + cfgName)
		fb, _ := firstBad.Load().(string)
		if n := panics.Load(); n > 0 {
			r.Violation("c07-panic:concurrent", fmt.Sprintf("concurrent pass (%s): %d decrypt(s) panicked; first: %s", cfgName, n, fb), nil)
		}
		if n := wrong.Load(); n > 0 {
			r.Violation("c07-wrong-plaintext:concurrent", fmt.Sprintf("concurrent pass (%s): %d decrypt(s) returned something that is neither the original payload nor an error; first: %s", cfgName, n, fb), nil)
		}
		if stuck {
			r.Violation("c07-hang:concurrent", fmt.Sprintf("concurrent pass (%s): no worker completed a decrypt for 180 s of wall clock: some decrypt returns neither a payload nor an error", cfgName), nil)
			return // the stuck goroutines still own the world
		}
		for _, s := range sess {
			s.Close()
		}
		f.Close()
		w.Close()
	}
}
