package inputs

import (
	"context"
	"encoding/json"
	"fmt"
	"strings"
	"time"

	"github.com/godaddy/asherah/go/appencryption"

	"verif/harness/ev"
	"verif/harness/probe"
	"verif/harness/world"
)

// awsKMSRows: "any corrupted key record in the metastore" with the AWS KMS plug-ins as the KMS. A system-key row then
// holds the plug-in's multi-region JSON envelope: every bit flip of it and structural damage (regions missing,
// renamed or duplicated, lists empty or null, fields of the wrong type) is seen by a cold factory that decrypts a
// genuine record and then encrypts. Oracle as everywhere in C07: the original payload or an error, never a panic.
func awsKMSRows(r *ev.Run) {
	for _, version := range []int{1, 2} {
		c := &c07{r: r, w: world.New("memguard"), sess: map[string]*appencryption.Session{}, byData: map[string][]byte{}}
		c.w.UseAWSKMS(version)
		ctx := context.Background()
		cfg := world.Default(time.Hour, time.Minute, time.Minute)
		f := c.w.Factory(cfg, "svc", "prod")
		s, _ := f.GetSession("P")
		pl := []byte("payload under an AWS-wrapped system key")
		d, err := s.Encrypt(ctx, pl)
		if err != nil {
			r.Violation("c07-setup", fmt.Sprintf("AWS KMS v%d world: encrypt failed: %v", version, err), nil)
			c.w.Close()
			continue
		}
		c.byData[string(d.Data)] = pl
		s.Close()
		f.Close()
		var skID string
		var skCreated int64
		for _, row := range c.w.Rows() {
			if strings.HasPrefix(row.ID, "_SK_") {
				skID, skCreated = row.ID, row.Created
			}
		}
		mem := c.w.Mem
		orig := mem.Envelopes[skID][skCreated]
		set := func(e *appencryption.EnvelopeKeyRecord) {
			mem.Lock()
			mem.Envelopes[skID][skCreated] = e
			mem.Unlock()
		}
		try := func(kind, desc string, other bool) {
			fc := c.w.Factory(cfg, "svc", "prod")
			if other {
				fc = c.w.FreshFactory(cfg, "svc", "prod") // a process that prefers the other region
			}
			cs, _ := fc.GetSession("P")
			c.sess["cold"] = cs
			c.check("cold", world.CopyDRR(d), kind, func() string { return fmt.Sprintf("AWS KMS v%d: %s", version, desc) })
			func() {
				defer func() {
					if p := recover(); p != nil {
						r.Violation("c07-panic:encrypt-"+kind, fmt.Sprintf("AWS KMS v%d: Encrypt panicked with %s: %v", version, desc, p), desc)
					}
				}()
				_, _ = cs.Encrypt(ctx, []byte("x"))
			}()
			func() {
				defer func() { _ = recover() }()
				cs.Close()
				fc.Close()
			}()
		}
		journal(fmt.Sprintf("C07 aws kms v%d envelope bit flips (%d bytes)", version, len(orig.EncryptedKey)))
		step := ev.Pick(5, 1)
		for bit := 0; bit < len(orig.EncryptedKey)*8; bit += step {
			m := probe.CopyEKR(orig)
			m.EncryptedKey = flip(orig.EncryptedKey, bit)
			set(m)
			try("aws-envelope-bitflip", fmt.Sprintf("system-key envelope bit %d flipped", bit), bit%2 == 1)
		}
		// structural damage of the JSON envelope
		var env map[string]any
		if json.Unmarshal(orig.EncryptedKey, &env) != nil {
			r.Violation("c07-setup", fmt.Sprintf("AWS KMS v%d: the stored system key is not a JSON envelope", version), nil)
			set(orig)
			c.w.Close()
			continue
		}
		clone := func() map[string]any {
			var m map[string]any
			_ = json.Unmarshal(orig.EncryptedKey, &m)
			return m
		}
		keks := func(m map[string]any) (string, []any) {
			for k, v := range m {
				if l, ok := v.([]any); ok {
					return k, l
				}
			}
			return "", nil
		}
		kk, list := keks(env)
		muts := []struct {
			name string
			f    func(m map[string]any)
		}{
			{"no-kek-list", func(m map[string]any) { delete(m, kk) }},
			{"null-kek-list", func(m map[string]any) { m[kk] = nil }},
			{"empty-kek-list", func(m map[string]any) { m[kk] = []any{} }},
			{"kek-list-is-a-string", func(m map[string]any) { m[kk] = "x" }},
			{"kek-list-of-nulls", func(m map[string]any) { m[kk] = []any{nil, nil} }},
			{"first-entry-only", func(m map[string]any) { _, l := keks(m); m[kk] = l[:1] }},
			{"last-entry-only", func(m map[string]any) { _, l := keks(m); m[kk] = l[len(l)-1:] }},
			{"entries-duplicated", func(m map[string]any) { _, l := keks(m); m[kk] = append(append([]any{}, l...), l...) }},
			{"regions-renamed", func(m map[string]any) {
				_, l := keks(m)
				for _, e := range l {
					if em, ok := e.(map[string]any); ok {
						for k, v := range em {
							if sv, ok := v.(string); ok && strings.Contains(sv, "-") && len(sv) < 20 {
								em[k] = "xx-" + sv
							}
						}
					}
				}
			}},
			{"regions-swapped", func(m map[string]any) {
				_, l := keks(m)
				if len(l) >= 2 {
					a, b := l[0].(map[string]any), l[1].(map[string]any)
					for k, v := range a {
						if sv, ok := v.(string); ok && strings.Contains(sv, "-") && len(sv) < 20 {
							a[k], b[k] = b[k], sv
						}
					}
				}
			}},
			{"entries-without-fields", func(m map[string]any) { m[kk] = []any{map[string]any{}, map[string]any{}} }},
			{"entry-fields-null", func(m map[string]any) {
				_, l := keks(m)
				for _, e := range l {
					if em, ok := e.(map[string]any); ok {
						for k := range em {
							em[k] = nil
						}
					}
				}
			}},
			{"encrypted-key-missing", func(m map[string]any) {
				for k, v := range m {
					if _, ok := v.(string); ok {
						delete(m, k)
					}
				}
			}},
			{"encrypted-key-short", func(m map[string]any) {
				for k, v := range m {
					if _, ok := v.(string); ok {
						m[k] = "AAAAAAAAAAAAAAAAAAAAAA=="
					}
				}
			}},
		}
		_ = list
		for _, mu := range muts {
			m := clone()
			func() {
				defer func() { _ = recover() }() // a mutation that does not fit this envelope's shape is skipped
				mu.f(m)
			}()
			b, _ := json.Marshal(m)
			e := probe.CopyEKR(orig)
			e.EncryptedKey = b
			set(e)
			for _, other := range []bool{false, true} {
				try("aws-envelope-"+mu.name, fmt.Sprintf("system-key envelope: %s (reader prefers the other region=%v)", mu.name, other), other)
			}
		}
		for _, raw := range []string{"", "null", "{}", "[]", "\"x\"", "{\"encryptedKey\":null,\"kmsKeks\":null}", "{\"kmsKeks\":[{\"region\":null,\"arn\":null,\"encryptedKek\":null}]}"} {
			e := probe.CopyEKR(orig)
			e.EncryptedKey = []byte(raw)
			set(e)
			try("aws-envelope-raw", fmt.Sprintf("system-key envelope replaced by %q", raw), false)
		}
		set(orig)
		r.Count(fmt.Sprintf("aws_kms_v%d_envelope_passes", version), 1)
		c.w.Close()
	}
}
