package secmem

import (
	"bufio"
	"bytes"
	"errors"
	"fmt"
	"io"
	"math/rand"
	"os"
	"runtime"
	"runtime/debug"
	"strconv"
	"strings"
	"sync"
	"sync/atomic"
	"syscall"
	"testing"
	"testing/synctest"
	"time"
	"unsafe"

	"github.com/godaddy/asherah/go/securememory"
	"github.com/godaddy/asherah/go/securememory/memguard"
	"github.com/godaddy/asherah/go/securememory/protectedmemory"

	"verif/harness/ev"
)

type vma struct {
	found bool
	perms string
	flags map[string]bool
}

// smaps returns what the kernel reports for the mapping containing addr.
func smaps(addr uintptr) vma {
	f, err := os.Open("/proc/self/smaps")
	if err != nil {
		panic(err)
	}
	defer f.Close()
	sc := bufio.NewScanner(f)
	sc.Buffer(make([]byte, 1<<20), 1<<20)
	in := false
	var out vma
	for sc.Scan() {
		line := sc.Text()
		if len(line) > 0 && (line[0] >= '0' && line[0] <= '9' || line[0] >= 'a' && line[0] <= 'f') && strings.Contains(line, "-") && !strings.Contains(strings.SplitN(line, " ", 2)[0], ":") {
			fields := strings.Fields(line)
			rng := strings.SplitN(fields[0], "-", 2)
			if len(rng) == 2 && len(fields) >= 2 {
				lo, e1 := strconv.ParseUint(rng[0], 16, 64)
				hi, e2 := strconv.ParseUint(rng[1], 16, 64)
				if e1 == nil && e2 == nil {
					if in {
						return out
					}
					if uint64(addr) >= lo && uint64(addr) < hi {
						in = true
						out = vma{found: true, perms: fields[1], flags: map[string]bool{}}
					}
					continue
				}
			}
		}
		if in && strings.HasPrefix(line, "VmFlags:") {
			for _, fl := range strings.Fields(line)[1:] {
				out.flags[fl] = true
			}
			return out
		}
	}
	return out
}

func coreDumpsOff() bool {
	var rl syscall.Rlimit
	if err := syscall.Getrlimit(syscall.RLIMIT_CORE, &rl); err != nil {
		return false
	}
	return rl.Cur == 0
}

func implFactory(impl string) securememory.SecretFactory {
	if impl == "protectedmemory" {
		return new(protectedmemory.SecretFactory)
	}
	return new(memguard.SecretFactory)
}

type seqResult struct {
	sig, detail string
	samples     int
	states      string
}

// runSecretSeq creates a secret of the given size and runs ops on it, checking bytes, errors and (when
// withSmaps) the kernel's view of the page after every step.
func runSecretSeq(impl string, size int, random bool, ops string, withSmaps bool) (res seqResult) {
	fail := func(sig, f string, a ...any) {
		if res.sig == "" {
			res.sig = sig + ":" + impl
			res.detail = fmt.Sprintf("%s size=%d random=%v ops=%q: ", impl, size, random, ops) + fmt.Sprintf(f, a...)
		}
	}
	old := debug.SetPanicOnFault(true)
	defer debug.SetPanicOnFault(old)
	defer func() {
		if p := recover(); p != nil {
			fail("c11-fault-or-panic", "panic: %v", p)
		}
	}()
	fac := implFactory(impl)
	var (
		s    securememory.Secret
		err  error
		want []byte
	)
	if random {
		s, err = fac.CreateRandom(size)
	} else {
		src := make([]byte, size)
		for i := range src {
			src[i] = byte(i*13 + 7)
		}
		want = append([]byte(nil), src...)
		s, err = fac.New(src)
		if err == nil && !bytes.Equal(src, make([]byte, size)) {
			fail("c11-source-not-wiped", "New did not wipe the caller's slice")
		}
	}
	if err != nil {
		fail("c11-create-failed", "%v", err)
		return
	}
	var addr uintptr
	// learn the address (and, for random secrets, the bytes) in a first reader
	if e := s.WithBytes(func(b []byte) error {
		addr = uintptr(unsafe.Pointer(unsafe.SliceData(b)))
		if len(b) != size {
			fail("c11-wrong-length", "reader saw %d bytes", len(b))
		}
		if want == nil {
			want = append([]byte(nil), b...)
		} else if !bytes.Equal(b, want) {
			fail("c11-reader-saw-other-bytes", "first reader saw different bytes")
		}
		return nil
	}); e != nil {
		fail("c11-read-failed", "first read: %v", e)
	}
	dumpsOff := coreDumpsOff()
	closed := false
	checkPage := func(when string, inReader bool) {
		if !withSmaps {
			return
		}
		v := smaps(addr)
		res.samples++
		res.states += fmt.Sprintf("%s=%s/lo=%v ", when, v.perms, v.flags["lo"])
		switch {
		case closed:
			if v.found && v.flags["lo"] {
				fail("c11-still-locked-after-close", "%s: after Close the address is still mapped (%s) and mlock'd", when, v.perms)
			}
		case inReader:
			if !v.found || !strings.HasPrefix(v.perms, "r--") {
				fail("c11-page-not-readonly-in-reader", "%s: page permissions are %q inside a reader callback, want r--", when, v.perms)
			}
			if !v.flags["lo"] {
				fail("c11-page-not-locked", "%s: page is not mlock'd inside a reader", when)
			}
		default:
			if !v.found || !strings.HasPrefix(v.perms, "---") {
				fail("c11-page-accessible-when-idle", "%s: page permissions are %q while no reader is running, want ---", when, v.perms)
			}
			if !v.flags["lo"] {
				fail("c11-page-not-locked", "%s: idle page is not mlock'd", when)
			}
			if !v.flags["dd"] && !dumpsOff {
				fail("c11-page-dumpable", "%s: page is neither MADV_DONTDUMP nor are core dumps disabled", when)
			}
		}
	}
	checkPage("after-create", false)
	verify := func(b []byte) error {
		if !bytes.Equal(b, want) {
			fail("c11-reader-saw-other-bytes", "reader saw different bytes")
		}
		return nil
	}
	expect := func(op string, e error) {
		if closed {
			if e == nil {
				fail("c11-access-after-close-succeeded", "%s on a closed secret returned no error", op)
			}
		} else if e != nil {
			fail("c11-read-failed", "%s: %v", op, e)
		}
	}
	var rd io.Reader
	rdOff := 0
	for i, o := range ops {
		switch o {
		case 'B':
			expect("WithBytes", s.WithBytes(func(b []byte) error { checkPage(fmt.Sprintf("op%d-in-reader", i), true); return verify(b) }))
		case 'F':
			_, e := s.WithBytesFunc(func(b []byte) ([]byte, error) {
				checkPage(fmt.Sprintf("op%d-in-reader", i), true)
				return nil, verify(b)
			})
			expect("WithBytesFunc", e)
		case 'N':
			expect("nested WithBytes", s.WithBytes(func(b []byte) error {
				_, e := s.WithBytesFunc(func(b2 []byte) ([]byte, error) {
					checkPage(fmt.Sprintf("op%d-in-inner-reader", i), true)
					return nil, verify(b2)
				})
				if e != nil {
					return e
				}
				// the outer reader is still running: the page must still be readable
				checkPage(fmt.Sprintf("op%d-in-outer-after-inner", i), true)
				return verify(b)
			}))
		case 'R':
			// one io.Reader per secret, read in chunks of 7 bytes across the sequence: it never holds on to the secret,
			// so once the secret is closed a further Read is an error and returns nothing
			if rd == nil {
				rd = s.NewReader()
			}
			buf := make([]byte, 7)
			n, e := rd.Read(buf)
			if closed {
				if e == nil || e == io.EOF || n != 0 {
					fail("c11-access-after-close-succeeded", "Reader.Read (offset %d) on a closed secret returned n=%d err=%v", rdOff, n, e)
				}
			} else {
				wn := size - rdOff
				if wn > 7 {
					wn = 7
				}
				if wn < 0 {
					wn = 0
				}
				if n != wn || !bytes.Equal(buf[:n], want[rdOff:rdOff+n]) {
					fail("c11-reader-saw-other-bytes", "Reader.Read at offset %d returned %d bytes %x (err=%v)", rdOff, n, buf[:n], e)
				}
				if atEnd := rdOff+n >= size; atEnd != (e == io.EOF) || (e != nil && e != io.EOF) {
					fail("c11-read-failed", "Reader.Read at offset %d of %d: n=%d err=%v", rdOff, size, n, e)
				}
				rdOff += n
			}
		case 'C':
			if e := s.Close(); e != nil {
				fail("c11-close-error", "Close: %v", e)
			}
			closed = true
		case 'I':
			if s.IsClosed() != closed {
				fail("c11-isclosed-wrong", "IsClosed()=%v, want %v", s.IsClosed(), closed)
			}
		}
		checkPage(fmt.Sprintf("after-op%d(%c)", i, o), false)
		if res.sig != "" {
			break
		}
	}
	if !closed {
		s.Close()
		closed = true
		checkPage("after-final-close", false)
	}
	return
}

func enumOps(n int, f func(string)) {
	const al = "BFNRCI"
	buf := make([]byte, n)
	var rec func(i int)
	rec = func(i int) {
		if i == n {
			f(string(buf))
			return
		}
		for k := 0; k < len(al); k++ {
			buf[i] = al[k]
			rec(i + 1)
		}
	}
	rec(0)
}

func TestC11(t *testing.T) {
	r := ev.Start("C11", "exploration")
	r.Rule("for both secure-memory implementations (real mlock'd pages): (1) every sequence of exactly L operations over {WithBytes, WithBytesFunc, nested reader, io.Reader read, Close, IsClosed} after New and CreateRandom for sizes {1,31,32,33,4095,4096,4097,12288,12289}; bytes, errors and IsClosed are compared with a model after every step and, for a subset, the kernel's view of the secret's address in /proc/self/smaps is sampled inside reader callbacks (r--, locked), between operations (---, locked, not dumpable) and after Close (unmapped or not locked); faults are turned into panics with debug.SetPanicOnFault and attributed. (2) reader callbacks that panic (recovered by the caller) through WithBytes, WithBytesFunc and nested readers, in bubbles: pages back to ---, later readers work, Close neither blocks nor fails. (3) R in 1..8 concurrent readers x C in 1..3 concurrent closers per round with seeded yields inside callbacks, inside synctest bubbles (a Close that never returns is a detected deadlock) under the race detector: readers see the original bytes or the closed error, no reader callback is running when any Close returns, nothing faults. Distinct+non-trivial: distinct (impl, size, creator, sequence) cases containing a Close followed by another access, and distinct observed reader/closer completion orders.")
	r.Assume("/proc/self/smaps is the kernel's ground truth for protection and mlock state", "core dumps are disabled process-wide by the memguard core package (RLIMIT_CORE=0), which the oracle accepts in place of MADV_DONTDUMP")
	sizes := []int{1, 31, 32, 33, 4095, 4096, 4097, 12288, 12289}
	L := ev.Pick(3, 5)
	smapsEvery := ev.Pick(37, 29)
	n := 0
	for _, impl := range []string{"protectedmemory", "memguard"} {
		for si, size := range sizes {
			for _, random := range []bool{false, true} {
				if !ev.Thorough() && si%3 != 0 && random {
					continue
				}
				journal(fmt.Sprintf("C11 sequences impl=%s size=%d random=%v", impl, size, random))
				enumOps(L, func(ops string) {
					n++
					with := n%smapsEvery == 0
					res := runSecretSeq(impl, size, random, ops, with)
					r.Eval(1)
					r.Count("smaps_samples", int64(res.samples))
					if i := strings.IndexByte(ops, 'C'); i >= 0 && i < len(ops)-1 {
						r.Distinct(fmt.Sprintf("%s|%d|%v|%s", impl, size, random, ops))
					}
					if res.sig != "" {
						r.Violation(res.sig, res.detail, map[string]any{"impl": impl, "size": size, "random": random, "ops": ops})
					}
					if with && r.WantSample() {
						r.Sample(map[string]any{"impl": impl, "size": size, "ops": ops, "page_states": res.states})
					}
				})
			}
		}
	}
	r.Exhaustive(true)
	r.Extra("sequence_length", L)
	panickingReaders(t, r)
	lateReaders(t, r)
	readerOutlivesVariable(r)
	concurrentC11(t, r)
	rawRaceC11(t, r)
	r.Finish(t)
}

func concurrentC11(t *testing.T, r *ev.Run) {
	rounds := ev.Pick(60, 2500)
	for _, impl := range []string{"protectedmemory", "memguard"} {
		for R := 1; R <= 8; R++ {
			for C := 1; C <= 3; C++ {
				if !ev.Thorough() && (R == 5 || R == 6 || R == 7) {
					continue
				}
				journal(fmt.Sprintf("C11 concurrent impl=%s readers=%d closers=%d", impl, R, C))
				var viol [][2]string
				var orders = map[string]bool{}
				p := func() (pv any) {
					defer func() { pv = recover() }()
					synctest.Test(t, func(t *testing.T) {
						rng := rand.New(rand.NewSource(ev.Seed()*911 + int64(R*10+C)))
						fac := implFactory(impl)
						for round := 0; round < rounds/6+1; round++ {
							size := []int{1, 32, 4097}[round%3]
							src := make([]byte, size)
							for i := range src {
								src[i] = byte(i + round)
							}
							want := append([]byte(nil), src...)
							s, err := fac.New(src)
							if err != nil {
								viol = append(viol, [2]string{"c11-create-failed", err.Error()})
								return
							}
							var active atomic.Int32
							var closeReturned, closeStarted atomic.Bool
							var wg sync.WaitGroup
							var mu sync.Mutex
							var order []string
							note := func(ev string) { mu.Lock(); order = append(order, ev); mu.Unlock() }
							bad := func(sig, d string) { mu.Lock(); viol = append(viol, [2]string{sig, d}); mu.Unlock() }
							start := make(chan struct{})
							for g := 0; g < R; g++ {
								yield := rng.Intn(4)
								reads := 1 + rng.Intn(3)
								wg.Add(1)
								go func() {
									defer wg.Done()
									debug.SetPanicOnFault(true)
									defer func() {
										if p := recover(); p != nil {
											bad("c11-fault-in-reader", fmt.Sprintf("%s R=%d C=%d: reader faulted: %v", impl, R, C, p))
										}
									}()
									<-start
									for k := 0; k < reads; k++ {
										ran := false
										err := s.WithBytes(func(b []byte) error {
											ran = true
											active.Add(1)
											defer active.Add(-1)
											if closeReturned.Load() {
												bad("c11-reader-running-after-close", fmt.Sprintf("%s R=%d C=%d: a reader callback started after a Close had returned", impl, R, C))
											}
											switch yield {
											case 1:
												runtime.Gosched()
											case 2:
												time.Sleep(time.Microsecond)
											}
											if !bytes.Equal(b, want) {
												bad("c11-reader-saw-other-bytes", fmt.Sprintf("%s R=%d C=%d: reader saw other bytes", impl, R, C))
											}
											return nil
										})
										if err != nil {
											// an access may only be refused once somebody has started closing the secret (decided
											// from the harness's own flag, not from the error text), and then the callback must not
											// have run
											if ran || !closeStarted.Load() {
												bad("c11-reader-error", fmt.Sprintf("%s R=%d C=%d: reader error %v (callback ran=%v, a Close had been started=%v)", impl, R, C, err, ran, closeStarted.Load()))
											}
											note("r-closed")
										} else {
											note("r-ok")
										}
									}
								}()
							}
							for g := 0; g < C; g++ {
								delay := rng.Intn(3)
								wg.Add(1)
								go func() {
									defer wg.Done()
									<-start
									if delay == 1 {
										runtime.Gosched()
									} else if delay == 2 {
										time.Sleep(time.Microsecond)
									}
									closeStarted.Store(true)
									if err := s.Close(); err != nil {
										bad("c11-close-error", fmt.Sprintf("%s R=%d C=%d: Close: %v", impl, R, C, err))
									}
									if n := active.Load(); n != 0 {
										bad("c11-close-returned-while-reader-running", fmt.Sprintf("%s R=%d C=%d: Close returned while %d reader callback(s) were still running", impl, R, C, n))
									}
									closeReturned.Store(true)
									note("c")
								}()
							}
							close(start)
							wg.Wait()
							if !s.IsClosed() {
								bad("c11-not-closed-after-close", fmt.Sprintf("%s: IsClosed false after all closers returned", impl))
							}
							if err := s.WithBytes(func([]byte) error { return nil }); err == nil {
								bad("c11-access-after-close-succeeded", fmt.Sprintf("%s: read after all closers returned succeeded", impl))
							}
							orders[strings.Join(order, ",")] = true
						}
					})
					return nil
				}()
				r.Eval(1)
				r.Count("concurrent_rounds", int64(rounds/6+1))
				if p != nil {
					r.Violation("c11-deadlock-or-crash:"+impl, fmt.Sprintf("%s R=%d C=%d: %v", impl, R, C, p), map[string]any{"impl": impl, "readers": R, "closers": C})
				}
				for _, v := range viol {
					r.Violation(v[0]+":"+impl, v[1], map[string]any{"impl": impl, "readers": R, "closers": C})
				}
				for o := range orders {
					r.SetAdd("completion_orders", fmt.Sprintf("%s|%d|%d|%s", impl, R, C, o))
					r.Distinct(fmt.Sprintf("conc|%s|%d|%d|%s", impl, R, C, o))
				}
			}
		}
	}
}

// panickingReaders: a reader callback that panics (and whose panic the application recovers further up) is a reader
// that is no longer running: the pages must be back to no-access, later readers must work and see the same bytes, and
// Close must neither block nor fail. Every case runs in a bubble so that a Close waiting for a reader that will never
// release is a detected deadlock.
func panickingReaders(t *testing.T, r *ev.Run) {
	type boom struct{}
	for _, impl := range []string{"protectedmemory", "memguard"} {
		for _, how := range []string{"WithBytes", "WithBytesFunc", "nested-inner", "nested-outer", "Reader.Read+WithBytes"} {
			for _, size := range []int{1, 32, 4097} {
				journal(fmt.Sprintf("C11 panicking reader impl=%s how=%s size=%d", impl, how, size))
				var viol [][2]string
				bad := func(sig, f string, a ...any) {
					viol = append(viol, [2]string{sig + ":" + impl, fmt.Sprintf("%s size=%d panicking reader via %s: ", impl, size, how) + fmt.Sprintf(f, a...)})
				}
				pv := func() (pv any) {
					defer func() { pv = recover() }()
					synctest.Test(t, func(t *testing.T) {
						src := make([]byte, size)
						for i := range src {
							src[i] = byte(i*7 + 3)
						}
						want := append([]byte(nil), src...)
						s, err := implFactory(impl).New(src)
						if err != nil {
							bad("c11-create-failed", "%v", err)
							return
						}
						var addr uintptr
						s.WithBytes(func(b []byte) error { addr = uintptr(unsafe.Pointer(unsafe.SliceData(b))); return nil })
						func() {
							defer func() {
								if p := recover(); p != nil {
									if _, ok := p.(boom); !ok {
										panic(p)
									}
								}
							}()
							switch how {
							case "WithBytes":
								s.WithBytes(func([]byte) error { panic(boom{}) })
							case "WithBytesFunc":
								s.WithBytesFunc(func([]byte) ([]byte, error) { panic(boom{}) })
							case "nested-inner":
								s.WithBytes(func([]byte) error {
									_, e := s.WithBytesFunc(func([]byte) ([]byte, error) { panic(boom{}) })
									return e
								})
							case "nested-outer":
								s.WithBytes(func([]byte) error {
									s.WithBytesFunc(func(b []byte) ([]byte, error) { return nil, nil })
									panic(boom{})
								})
							default:
								buf := make([]byte, 1)
								s.NewReader().Read(buf)
								s.WithBytes(func([]byte) error { panic(boom{}) })
							}
						}()
						v := smaps(addr)
						r.Count("smaps_samples", 1)
						if !v.found || !strings.HasPrefix(v.perms, "---") {
							bad("c11-page-accessible-when-idle", "page permissions are %q after the panicking reader was unwound, want ---", v.perms)
						}
						if e := s.WithBytes(func(b []byte) error {
							if !bytes.Equal(b, want) {
								bad("c11-reader-saw-other-bytes", "a later reader saw other bytes")
							}
							return nil
						}); e != nil {
							bad("c11-read-failed", "a later reader failed: %v", e)
						}
						if e := s.Close(); e != nil {
							bad("c11-close-error", "Close: %v", e)
						}
						if v := smaps(addr); v.found && v.flags["lo"] {
							bad("c11-still-locked-after-close", "after Close the address is still mapped (%s) and mlock'd", v.perms)
						}
					})
					return nil
				}()
				r.Eval(1)
				r.Count("panicking_reader_cases", 1)
				if pv != nil {
					sig := "c11-fault-or-panic:" + impl
					if strings.Contains(fmt.Sprint(pv), "deadlock") {
						sig = "c11-close-blocked-after-panicking-reader:" + impl
					}
					viol = append(viol, [2]string{sig, fmt.Sprintf("%s size=%d panicking reader via %s: %v", impl, size, how, pv)})
				}
				for _, v := range viol {
					r.Violation(v[0], v[1], map[string]any{"impl": impl, "size": size, "how": how})
				}
			}
		}
	}
}

// lateReaders: a reader is inside its callback, a Close has been called and waits for it, and only then further
// accesses arrive (through every access method). They are "later accesses": they are refused without running their
// callback, so that the Close is postponed by nobody but the readers that were in flight when it was called; once
// that reader leaves, the Close returns. Deterministic: synctest.Wait is the point at which the closer is parked.
func lateReaders(t *testing.T, r *ev.Run) {
	for _, impl := range []string{"protectedmemory", "memguard"} {
		for _, size := range []int{1, 32, 4097} {
			for _, late := range []string{"WithBytes", "WithBytesFunc", "Reader.Read", "all-three"} {
				journal(fmt.Sprintf("C11 late reader impl=%s size=%d via=%s", impl, size, late))
				var viol [][2]string
				bad := func(sig, f string, a ...any) {
					viol = append(viol, [2]string{sig + ":" + impl, fmt.Sprintf("%s size=%d late access via %s: ", impl, size, late) + fmt.Sprintf(f, a...)})
				}
				pv := func() (pv any) {
					defer func() { pv = recover() }()
					synctest.Test(t, func(t *testing.T) {
						src := make([]byte, size)
						for i := range src {
							src[i] = byte(i*5 + 1)
						}
						want := append([]byte(nil), src...)
						s, err := implFactory(impl).New(src)
						if err != nil {
							bad("c11-create-failed", "%v", err)
							return
						}
						inA, leaveA, doneA := make(chan struct{}), make(chan struct{}), make(chan error, 1)
						go func() {
							doneA <- s.WithBytes(func(b []byte) error {
								close(inA)
								<-leaveA
								if !bytes.Equal(b, want) {
									return errors.New("other bytes")
								}
								return nil
							})
						}()
						<-inA
						closeDone := make(chan error, 1)
						go func() { closeDone <- s.Close() }()
						synctest.Wait() // the closer is waiting for reader A now
						select {
						case <-closeDone:
							bad("c11-close-returned-while-reader-running", "Close returned while a reader callback was still running")
						default:
						}
						try := func(how string) {
							ran := false
							var e error
							switch how {
							case "WithBytes":
								e = s.WithBytes(func([]byte) error { ran = true; return nil })
							case "WithBytesFunc":
								_, e = s.WithBytesFunc(func([]byte) ([]byte, error) { ran = true; return nil, nil })
							default:
								var n int
								n, e = s.NewReader().Read(make([]byte, 8))
								ran = n > 0
							}
							if e == nil || ran {
								bad("c11-access-admitted-after-close-was-called", "a Close had been called and was waiting for the one reader in flight; an access that arrived after that was let in (callback ran=%v, err=%v) instead of being refused", ran, e)
							}
						}
						if late == "all-three" {
							try("WithBytes")
							try("WithBytesFunc")
							try("Reader.Read")
						} else {
							try(late)
						}
						close(leaveA)
						synctest.Wait()
						select {
						case e := <-closeDone:
							if e != nil {
								bad("c11-close-error", "Close: %v", e)
							}
						default:
							bad("c11-close-postponed-by-late-reader", "the reader that was in flight when Close was called has left and Close has still not returned")
						}
						if e := <-doneA; e != nil {
							bad("c11-reader-saw-other-bytes", "the in-flight reader: %v", e)
						}
						if !s.IsClosed() {
							bad("c11-not-closed-after-close", "IsClosed is false after Close returned")
						}
					})
					return nil
				}()
				r.Eval(1)
				r.Count("late_reader_cases", 1)
				r.Distinct(fmt.Sprintf("late|%s|%d|%s", impl, size, late))
				if pv != nil {
					viol = append(viol, [2]string{"c11-deadlock-or-crash:" + impl, fmt.Sprintf("%s size=%d late access via %s: %v", impl, size, late, pv)})
				}
				for _, v := range viol {
					r.Violation(v[0], v[1], map[string]any{"impl": impl, "size": size, "late": late})
				}
			}
		}
	}
}

// readerOutlivesVariable: the application keeps only the io.Reader it got from NewReader and lets go of the secret
// itself; garbage collections run between the chunked reads. Nobody has closed the secret, so the reader keeps
// seeing the original bytes up to EOF (a finalizer must not tear the secret down under it).
func readerOutlivesVariable(r *ev.Run) {
	for _, impl := range []string{"protectedmemory", "memguard"} {
		for _, size := range []int{10, 32, 4097} {
			journal(fmt.Sprintf("C11 reader outlives the secret variable impl=%s size=%d", impl, size))
			want := make([]byte, size)
			for i := range want {
				want[i] = byte(i*11 + 5)
			}
			mk := func() io.Reader {
				s, err := implFactory(impl).New(append([]byte(nil), want...))
				if err != nil {
					return nil
				}
				return s.NewReader() // s goes out of scope here
			}
			rd := mk()
			r.Eval(1)
			r.Count("reader_outlives_variable_cases", 1)
			if rd == nil {
				r.Violation("c11-create-failed:"+impl, fmt.Sprintf("%s size=%d: New failed", impl, size), nil)
				continue
			}
			var got []byte
			buf := make([]byte, 3)
			var rerr error
			for k := 0; k < 5000 && rerr == nil; k++ {
				if k < 6 {
					runtime.GC()
					runtime.Gosched()
					time.Sleep(2 * time.Millisecond) // finalizers run on their own goroutine
				}
				var n int
				n, rerr = rd.Read(buf)
				got = append(got, buf[:n]...)
			}
			if rerr != io.EOF || !bytes.Equal(got, want) {
				r.Violation("c11-reader-cut-short:"+impl, fmt.Sprintf("%s size=%d: only the reader was kept, the garbage collector ran between reads, and the reader returned %d of %d bytes (equal prefix=%v) and ended with %v: the secret was torn down although nobody closed it", impl, size, len(got), size, bytes.HasPrefix(want, got), rerr), map[string]any{"impl": impl, "size": size})
			}
			r.Distinct(fmt.Sprintf("reader-outlives|%s|%d", impl, size))
			runtime.KeepAlive(rd)
		}
	}
}

// rawRaceC11: readers and closers of one secret with no harness state shared between them (the counters and flags
// the rounds above use inside callbacks order the goroutines and can hide unsynchronised accesses inside the
// implementation from the race detector). Each goroutine keeps its findings to itself until it has finished.
func rawRaceC11(t *testing.T, r *ev.Run) {
	rounds := ev.Pick(60, 1500)
	for _, impl := range []string{"protectedmemory", "memguard"} {
		journal(fmt.Sprintf("C11 raw race pass impl=%s", impl))
		fac := implFactory(impl)
		for round := 0; round < rounds; round++ {
			size := []int{1, 32, 4097}[round%3]
			src := make([]byte, size)
			for i := range src {
				src[i] = byte(i*3 + round)
			}
			want := append([]byte(nil), src...)
			s, err := fac.New(src)
			if err != nil {
				r.Violation("c11-create-failed:"+impl, err.Error(), nil)
				return
			}
			const readers, closers = 4, 2
			findings := make([]string, readers+closers)
			var wg sync.WaitGroup
			start := make(chan struct{})
			for g := 0; g < readers; g++ {
				g := g
				wg.Add(1)
				go func() {
					defer wg.Done()
					debug.SetPanicOnFault(true)
					defer func() {
						if p := recover(); p != nil {
							findings[g] = fmt.Sprintf("c11-fault-in-reader|reader faulted: %v", p)
						}
					}()
					<-start
					for k := 0; k < 3; k++ {
						ran, same := false, true
						var err error
						if k%2 == 0 {
							err = s.WithBytes(func(b []byte) error { ran, same = true, bytes.Equal(b, want); return nil })
						} else {
							_, err = s.WithBytesFunc(func(b []byte) ([]byte, error) { ran, same = true, bytes.Equal(b, want); return nil, nil })
						}
						if !same {
							findings[g] = "c11-reader-saw-other-bytes|a reader saw other bytes than the secret"
						}
						if err != nil && ran {
							findings[g] = fmt.Sprintf("c11-reader-error|the callback ran and the access still returned %v", err)
						}
					}
				}()
			}
			for g := 0; g < closers; g++ {
				g := g
				wg.Add(1)
				go func() {
					defer wg.Done()
					<-start
					if g == 1 {
						runtime.Gosched()
					}
					if err := s.Close(); err != nil {
						findings[readers+g] = fmt.Sprintf("c11-close-error|Close: %v", err)
					}
				}()
			}
			close(start)
			wg.Wait()
			r.Eval(1)
			r.Count("raw_race_rounds", 1)
			for _, f := range findings {
				if f != "" {
					sig, d, _ := strings.Cut(f, "|")
					r.Violation(sig+":"+impl, fmt.Sprintf("%s raw round %d size %d: %s", impl, round, size, d), nil)
				}
			}
			if !s.IsClosed() {
				r.Violation("c11-not-closed-after-close:"+impl, fmt.Sprintf("%s raw round %d: IsClosed() is false after every Close returned", impl, round), nil)
			}
		}
	}
}
