// Package secmem checks the two secure-memory implementations: page states seen by the kernel and
// reader/closer interleavings (C11), and behaviour under failing memory primitives (C12).
package secmem

import (
	"bytes"
	"errors"
	"fmt"
	"io"
	"os"
	"reflect"
	"runtime"
	"strings"
	"sync"
	"testing"
	"testing/synctest"
	"time"

	"github.com/godaddy/asherah/go/securememory"
	"github.com/godaddy/asherah/go/securememory/memguard"
	"github.com/godaddy/asherah/go/securememory/protectedmemory"

	"verif/harness/ev"
	"verif/harness/probe"
)

func journal(s string) {
	if p := os.Getenv("VERIF_JOURNAL"); p != "" {
		if f, err := os.OpenFile(p, os.O_APPEND|os.O_WRONLY|os.O_CREATE, 0o644); err == nil {
			fmt.Fprintln(f, s)
			f.Close()
		}
	}
}

type factory interface {
	New(b []byte) (securememory.Secret, error)
	CreateRandom(size int) (securememory.Secret, error)
}

type program struct {
	name   string
	random bool // create with CreateRandom (through an injectable random source for protectedmemory)
	steps  []string
}

var programs = []program{
	{"new-read-close", false, []string{"read", "close"}},
	{"new-nested-reads-close", false, []string{"nested", "read", "close"}},
	{"random-readfunc-close", true, []string{"readfunc", "close"}},
	{"new-reader-close-close", false, []string{"reader", "close", "close"}},
	{"new-read-read-close", false, []string{"read", "readfunc", "close"}},
	// the whole secret is read through its io.Reader in chunks, up to and including the read that reports io.EOF
	{"new-readall-close", false, []string{"readall", "close"}},
	// a reader is inside its callback, a Close is already waiting for it, then the reader leaves
	{"new-reader-with-pending-close", false, []string{"pendingclose"}},
}

type runResult struct {
	problems [][2]string // signature, detail
	calls    int
	trace    []string
	fired    int
}

// lenientFree: the memguard runs that follow treat a release of memguard-owned pages as successful even where the
// real munmap refuses it (see probe.Memcall.LenientFree).
var lenientFree bool

var secretData = []byte("0123456789abcdef0123456789abcdef-this-is-the-secret")

// runProgram executes p on impl with memcall faults at the given call indexes (relative to the start of
// the program) and, for random creation, an optional failing random source.
// runProgram runs one case inside a synctest bubble: a Close (or reader) that blocks forever is then a
// deterministic "all goroutines in bubble are blocked" deadlock instead of a hung test.
// hangsC12 counts programs that were given up as never finishing.
var hangsC12 int

func runProgram(t *testing.T, impl string, p program, faults []int, randFault bool) (res runResult) {
	// A goroutine that waits for a sync.Mutex is not "durably blocked" for synctest: a lock left held on an error path
	// would hang the bubble instead of producing its deadlock panic. A program takes milliseconds; one that does not
	// finish within 20 s of wall clock on two attempts in a row is reported as never finishing.
	limit := 20 * time.Second
	if hangsC12 >= 2 {
		limit = 3 * time.Second // hangs have been established already: do not spend minutes on their repetitions
	}
	for attempt := 0; attempt < 2; attempt++ {
		done := make(chan runResult, 1)
		go func() {
			var rr runResult
			defer func() {
				if pv := recover(); pv != nil {
					rr.problems = append(rr.problems, [2]string{"c12-deadlock:" + impl, fmt.Sprintf("the program never finished: %v", pv)})
				}
				done <- rr
			}()
			synctest.Test(t, func(t *testing.T) { rr = runProgramInner(impl, p, faults, randFault) })
		}()
		select {
		case rr := <-done:
			return rr
		case <-time.After(limit):
		}
	}
	hangsC12++
	res.fired = 1
	res.problems = append(res.problems, [2]string{"c12-deadlock:" + impl, "the program never finished: no result within 20 s of wall clock on two attempts (an operation waits for a lock that an earlier, failed operation left held?)"})
	return res
}

func runProgramInner(impl string, p program, faults []int, randFault bool) (res runResult) {
	mc := probe.NewMemcall()
	add := func(sig, f string, a ...any) {
		res.problems = append(res.problems, [2]string{sig + ":" + impl, fmt.Sprintf(f, a...)})
	}
	var fac factory
	var pmf *protectedmemory.SecretFactory
	switch impl {
	case "protectedmemory":
		pmf = protectedmemory.VerifNewSecretFactory(mc)
		fac = pmf
	default:
		mc.AdoptUnknown = true
		mc.LenientFree = lenientFree
		fac = memguard.VerifNewSecretFactory(mc)
	}
	for _, k := range faults {
		mc.FailAt[k] = true
	}
	inUse0 := securememory.InUseCounter.Count()
	defer func() {
		if pv := recover(); pv != nil {
			add("c12-panic", "panic: %v", pv)
		}
		res.calls = mc.N()
		res.trace = mc.Trace(0)
		for _, e := range mc.Events {
			if e.Fault {
				res.fired++
			}
		}
	}()
	data := append([]byte(nil), secretData...)
	var (
		s   securememory.Secret
		err error
	)
	if p.random {
		if pmf != nil {
			rf := func(b []byte) (int, error) {
				if randFault {
					return 0, errors.New("random source failed")
				}
				for i := range b {
					b[i] = byte(i*7 + 1)
				}
				return len(b), nil
			}
			s, err = pmf.VerifCreateRandom(len(secretData), rf)
			data = make([]byte, len(secretData))
			for i := range data {
				data[i] = byte(i*7 + 1)
			}
		} else {
			s, err = fac.CreateRandom(len(secretData))
			data = nil // unknown random bytes
		}
	} else {
		src := append([]byte(nil), secretData...)
		s, err = fac.New(src)
		if err == nil && !bytes.Equal(src, make([]byte, len(src))) {
			add("c12-source-not-wiped", "New returned successfully but did not wipe its source slice")
		}
	}
	clear := func() {
		for k := range mc.FailAt {
			delete(mc.FailAt, k)
		}
	}
	if err != nil {
		// ---- failed creation
		if s != nil && !reflect.ValueOf(s).IsNil() {
			add("c12-secret-returned-with-error", "creation returned both a usable secret and an error")
		}
		for _, pr := range mc.TakeProblems() {
			add("c12-failed-creation-exposes-secret", "failed creation (%v): %s", err, pr)
		}
		for _, r := range mc.Live() {
			// a region may only remain if the release attempt itself was made to fail
			attempted := false
			for _, e := range mc.Events {
				if e.Base == r.Base && e.Gen == r.Gen && e.Fault && (e.Op == "free" || e.Op == "unlock") {
					attempted = true
				}
			}
			if !attempted && impl == "protectedmemory" {
				add("c12-region-left-after-failed-creation", "failed creation (%v) left region %#x mapped=%v locked=%v prot=%s without a release attempt", err, r.Base, r.Mapped, r.Locked, r.Prot)
			}
		}
		if d := securememory.InUseCounter.Count() - inUse0; d != 0 {
			add("c12-inuse-counter", "failed creation changed the in-use counter by %d", d)
		}
		// a healthy secret created right afterwards must stay healthy once the garbage collector has run
		clear()
		d2 := []byte("a second, healthy secret 0123456789")
		want := append([]byte(nil), d2...)
		s2, err2 := fac.New(d2)
		if err2 != nil {
			add("c12-cannot-create-after-failure", "creating a secret after a failed creation failed: %v", err2)
			return
		}
		for i := 0; i < 3; i++ {
			runtime.GC()
			time.Sleep(3 * time.Millisecond)
		}
		rerr := s2.WithBytes(func(b []byte) error {
			if !bytes.Equal(b, want) {
				return errors.New("bytes differ")
			}
			return nil
		})
		if rerr != nil {
			add("c12-failed-creation-damages-next-secret", "after a failed creation (%v) and a GC cycle the next, healthy secret can no longer be read: %v", err, rerr)
		}
		if cerr := s2.Close(); cerr != nil {
			add("c12-failed-creation-damages-next-secret", "after a failed creation (%v) and a GC cycle the next, healthy secret cannot be closed: %v", err, cerr)
		}
		for _, pr := range mc.TakeProblems() {
			add("c12-use-after-free", "after a failed creation: %s", pr)
		}
		if d := securememory.InUseCounter.Count() - inUse0; d != 0 {
			add("c12-inuse-counter", "in-use counter off by %d after a failed creation followed by a healthy secret's life cycle", d)
		}
		return
	}
	if d := securememory.InUseCounter.Count() - inUse0; d != 1 {
		add("c12-inuse-counter", "successful creation changed the in-use counter by %d", d)
	}
	check := func(b []byte) error {
		if data != nil && !bytes.Equal(b, data) {
			return errors.New("reader saw different bytes")
		}
		return nil
	}
	closed := false
	firedNow := func() int {
		n := 0
		for _, e := range mc.Events {
			if e.Fault {
				n++
			}
		}
		return n
	}
	for si, st := range p.steps {
		var serr error
		ran := false
		fired0 := firedNow()
		switch st {
		case "read":
			serr = s.WithBytes(func(b []byte) error { ran = true; return check(b) })
		case "readfunc":
			_, serr = s.WithBytesFunc(func(b []byte) ([]byte, error) { ran = true; return nil, check(b) })
		case "nested":
			serr = s.WithBytes(func(b []byte) error {
				ran = true
				if e := s.WithBytes(check); e != nil {
					return fmt.Errorf("inner: %w", e)
				}
				return check(b)
			})
		case "reader":
			buf := make([]byte, 16)
			_, serr = s.NewReader().Read(buf)
			ran = true
		case "readall":
			rd := s.NewReader()
			var got []byte
			buf := make([]byte, 20)
			for k := 0; k < 10 && serr == nil; k++ {
				var n int
				n, serr = rd.Read(buf)
				got = append(got, buf[:n]...)
			}
			ran = true
			if serr == io.EOF {
				// a bare io.EOF is how a reader says "complete, nothing went wrong" (io.ReadAll returns a nil error then)
				serr = nil
				if firedNow() == fired0 && data != nil && !bytes.Equal(got, data) {
					add("c12-reader-saw-other-bytes", "reading the whole secret through its io.Reader returned %d bytes that differ from the secret", len(got))
				}
			}
		case "pendingclose":
			inCb := make(chan struct{})
			proceed := make(chan struct{})
			var rerr, cerr error
			var wg sync.WaitGroup
			wg.Add(2)
			readerDone := make(chan struct{})
			go func() {
				defer wg.Done()
				defer close(readerDone)
				rerr = s.WithBytes(func(b []byte) error { close(inCb); <-proceed; return check(b) })
			}()
			select {
			case <-inCb:
			case <-readerDone: // the access itself failed (faulted protect): the callback never ran
			}
			go func() {
				defer wg.Done()
				cerr = s.Close()
			}()
			synctest.Wait() // the closer is now waiting for the reader (or has wrongly finished)
			close(proceed)
			wg.Wait() // a Close that is never woken up is a deadlock reported by the bubble
			if rerr != nil && strings.Contains(rerr.Error(), "different bytes") {
				add("c12-reader-saw-other-bytes", "reader with a pending Close: %v", rerr)
			}
			if cerr != nil {
				clear()
				// no reader is running any more and the Close has failed: until it is retried the pages that still hold
				// the secret must not be left readable
				// (if the reader's own release failed - a second fault - the pages were left readable by that failed
				// mprotect, which the reader was told about; nothing Close does or omits is to blame then)
				if impl == "protectedmemory" && rerr == nil {
					for _, reg := range mc.ReadableNonZero() {
						add("c12-readable-after-failed-close", "pending Close failed (%v) with no reader left and the region %#x, which still holds the secret, is left %s", cerr, reg.Base, reg.Prot)
					}
				}
				if r2 := s.Close(); r2 != nil {
					add("c12-close-not-retriable", "pending Close failed (%v) and the retry failed too: %v", cerr, r2)
				}
			} else if rerr != nil {
				// the reader's release failed; Close reported success: the secret must really be gone
				clear()
			}
			if !s.IsClosed() {
				clear()
				if r2 := s.Close(); r2 != nil || !s.IsClosed() {
					add("c12-secret-not-closed", "after reader (err=%v) and pending Close (err=%v) the secret is still open and a further Close returns %v", rerr, cerr, r2)
				}
			}
			closed = true
			continue
		case "close":
			serr = s.Close()
			if serr != nil {
				// a failed Close can be retried once the fault is gone
				clear()
				// ... and a read in between either is refused or still sees the secret: never anything else
				// (the bytes may already have been wiped by the failed attempt)
				if aerr := s.WithBytes(check); aerr != nil && strings.Contains(aerr.Error(), "different bytes") {
					add("c12-reader-saw-other-bytes", "a read after a failed Close (%v) was let in and saw other bytes than the secret", serr)
				}
				if rerr := s.Close(); rerr != nil {
					add("c12-close-not-retriable", "Close failed (%v) and the retry failed too: %v", serr, rerr)
				}
				for _, pr := range mc.TakeProblems() {
					add("c12-close-retry-problem", "while retrying Close after %v: %s", serr, pr)
				}
			}
			closed = true
			continue
		}
		if closed {
			if serr == nil {
				add("c12-read-after-close", "step %d %s on a closed secret returned no error", si, st)
			}
			continue
		}
		if serr == nil && st != "reader" && firedNow() > fired0 {
			add("c12-fault-not-reported", "step %d %s: a memory primitive failed during the access and the caller got no error", si, st)
		}
		if serr != nil {
			if strings.Contains(serr.Error(), "different bytes") {
				add("c12-reader-saw-other-bytes", "step %d %s: %v", si, st, serr)
			}
			// a failed attempt leaves the secret usable: the same access works once the fault is gone
			clear()
			rerr := s.WithBytes(check)
			if rerr != nil {
				add("c12-secret-unusable-after-failed-access", "step %d %s failed (%v, callback ran=%v) and a later read fails too: %v", si, st, serr, ran, rerr)
			}
		}
	}
	if !closed {
		s.Close()
	}
	clear()
	for _, pr := range mc.TakeProblems() {
		add("c12-memcall-protocol", "%s", pr)
	}
	if impl == "protectedmemory" {
		for _, r := range mc.Live() {
			add("c12-region-leaked", "region %#x still mapped (locked=%v prot=%s) after Close", r.Base, r.Locked, r.Prot)
		}
	}
	if d := securememory.InUseCounter.Count() - inUse0; d != 0 {
		add("c12-inuse-counter", "in-use counter off by %d after the secret's life cycle", d)
	}
	return
}

func TestC12(t *testing.T) {
	r := ev.Start("C12", "fault_enumeration")
	r.Rule("both secure-memory implementations are built on a memcall monitor that delegates to the real awnumar/memcall (real pages) through the verif-tagged constructors and keeps a region table (mapped, locked, protection, generation) and reads region content whenever it is readable at unlock/free time. Programs {New/CreateRandom, plain / nested / func / io.Reader reads, Close, second Close} x EVERY memcall call index fails without effect (and every pair, thorough) plus a failing random source; after a failed creation a second healthy secret is created and re-read after GC cycles (finalizer of the failed one). Oracle: failed primitive -> error, no region left mapped without a (faulted) release attempt, no non-zero content at unlock/free, failed access leaves the secret usable, failed Close retriable, InUseCounter balanced, no call on freed regions. Distinct+non-trivial: (implementation, program, fault plan) in which a fault fired.")
	r.Assume("faults are 'fail without effect' (mmap/mlock/mprotect/munlock/munmap do not fail after taking effect)", "memguard allocates and locks inside the third-party library, which panics by design on failure: only its Protect and cleanup positions are injectable")
	pairs := ev.Thorough()
	for _, implMode := range []string{"protectedmemory", "memguard", "memguard+lenient-free"} {
		impl := strings.TrimSuffix(implMode, "+lenient-free")
		lenientFree = impl != implMode
		for _, p := range programs {
			if p.random && impl == "memguard" {
				// CreateRandom of memguard has the same injectable positions as New
			}
			clean := runProgram(t, impl, p, nil, false)
			r.Eval(1)
			for _, pr := range clean.problems {
				r.Violation(pr[0], fmt.Sprintf("%s %s without faults: %s", impl, p.name, pr[1]), map[string]any{"impl": impl, "program": p.name, "trace": clean.trace})
			}
			r.Sample(map[string]any{"impl": impl, "program": p.name, "clean_memcall_trace": clean.trace})
			run := func(fs []int, rf bool) {
				journal(fmt.Sprintf("C12 impl=%s program=%s faults=%v rand=%v", implMode, p.name, fs, rf))
				res := runProgram(t, impl, p, fs, rf)
				r.Eval(1)
				if res.fired > 0 || rf {
					r.Distinct(fmt.Sprintf("%s|%s|%v|%v", implMode, p.name, fs, rf))
				}
				for _, pr := range res.problems {
					r.Violation(pr[0], fmt.Sprintf("%s program %s faults at memcall calls %v (rand fault=%v): %s", impl, p.name, fs, rf, pr[1]),
						map[string]any{"impl": impl, "program": p.name, "faults": fs, "trace": res.trace})
				}
			}
			for k := 0; k < clean.calls+2; k++ {
				run([]int{k}, false)
				r.Count("single_faults", 1)
				if pairs {
					for l := k + 1; l < clean.calls+4; l++ {
						run([]int{k, l}, false)
						r.Count("fault_pairs", 1)
					}
				}
			}
			if p.random && impl == "protectedmemory" {
				run(nil, true)
				for k := 0; k < 4; k++ {
					run([]int{k}, true)
				}
			}
		}
	}
	lenientFree = false
	r.Exhaustive(true)
	r.Finish(t)
}
