// Package creators runs real-goroutine rounds in which several cold processes (factories) encrypt for one brand-new
// partition at the same moment over the real metastore implementation of each back end (C01, C02, C14).
package creators

import (
	"bytes"
	"context"
	"fmt"
	"runtime"
	"strings"
	"sync"
	"sync/atomic"
	"time"

	"github.com/godaddy/asherah/go/appencryption"

	"verif/harness/ev"
	"verif/harness/probe"
	"verif/harness/world"
)

// Run: the monitor holds every key insert at a barrier immediately before it reaches the wrapped metastore until
// all processes that are going to insert have arrived (or a bounded spin is over - the wait only tightens the
// overlap, it decides nothing). Every encrypt must succeed, every record returned must decrypt through every other
// process and through a cold factory, and no stored row may change. prop selects the signatures reported.
func Run(r *ev.Run, prop string, rounds int, journal func(string)) {
	sigDecrypt := map[string]string{"C01": "c01-decrypt-error", "C02": "fresh-process-cannot-decrypt", "C14": "fresh-process-cannot-decrypt"}[prop]
	const procs = 6
	for _, be := range world.Backends {
		w := world.NewOn("memguard", be)
		w.MS.Drop, w.AEAD.Drop = true, true
		w.Led.NoHash = true
		var arrived atomic.Int32
		w.MS.PreInner = func(c *probe.MSCall) {
			arrived.Add(1)
			for i := 0; i < 20000 && arrived.Load()%procs != 0; i++ {
				runtime.Gosched()
			}
		}
		ctx := context.Background()
		cfg := world.Default(time.Hour, time.Hour, time.Minute)
		type out struct {
			d  *appencryption.DataRowRecord
			pl []byte
		}
		bad := 0
		for round := 0; round < rounds && bad < 3; round++ {
			part := fmt.Sprintf("newpart-%d", round)
			svc := fmt.Sprintf("svc%d", round%3)
			if round%7 == 6 {
				svc = fmt.Sprintf("svc-new-%d", round) // the system key is missing as well
			}
			journal(fmt.Sprintf("%s concurrent creators backend=%s round=%d", prop, be, round))
			arrived.Store(0)
			lostInsert := false
			if t := w.DDB(); t != nil && round%4 == 1 {
				lostInsert = true
				// the first insert to reach the table is lost (service error / time-out before it got there) and does
				// not return before one of the rivals has inserted its own key
				before := t.Stored()
				t.SetWriteFault([]string{"", "timeout-lost"}[(round/4)%2], func() {
					for i := 0; i < 200000 && t.Stored() == before; i++ {
						runtime.Gosched()
					}
				})
				t.SetFail(0, 1)
				r.Count("creator_rounds_with_a_lost_insert", 1)
			}
			outs := make([]out, procs)
			facts := make([]*appencryption.SessionFactory, procs)
			sess := make([]*appencryption.Session, procs)
			for i := range facts {
				facts[i] = w.Factory(cfg, svc, "prod")
			}
			var wg sync.WaitGroup
			start := make(chan struct{})
			for i := 0; i < procs; i++ {
				i := i
				wg.Add(1)
				go func() {
					defer wg.Done()
					s, err := facts[i].GetSession(part)
					if err != nil {
						return
					}
					sess[i] = s
					<-start
					pl := []byte(fmt.Sprintf("payload of process %d in round %d", i, round))
					d, err := s.Encrypt(ctx, pl)
					if err == nil {
						outs[i] = out{d, pl}
					} else if !lostInsert {
						// (with an injected insert failure an encrypt may legitimately report an error)
						r.Violation("encrypt-failed-without-fault", fmt.Sprintf("concurrent creators (%s), round %d: process %d: %v", be, round, i, err), nil)
					}
				}()
			}
			close(start)
			wg.Wait()
			if t := w.DDB(); t != nil {
				t.SetFail(0, 0)
				t.SetWriteFault("", nil)
			}
			cold := w.Factory(cfg, svc, "prod")
			cs, _ := cold.GetSession(part)
			for i, o := range outs {
				if o.d == nil {
					continue
				}
				got, err := cs.Decrypt(ctx, *world.CopyDRR(o.d))
				r.Eval(1)
				if err != nil || !bytes.Equal(got, o.pl) {
					bad++
					r.Violation(sigDecrypt, fmt.Sprintf("concurrent creators (%s), round %d: the record returned to process %d does not decrypt in a cold process: %v", be, round, i, err), map[string]any{"engine": "creators", "backend": be, "round": round})
				}
				if prop == "C14" {
					for j, q := range sess {
						if q == nil || j == i {
							continue
						}
						if got, err := q.Decrypt(ctx, *world.CopyDRR(o.d)); err != nil || !bytes.Equal(got, o.pl) {
							bad++
							r.Violation("other-process-cannot-decrypt", fmt.Sprintf("concurrent creators (%s), round %d: process %d cannot decrypt the record returned to process %d: %v", be, round, j, i, err), nil)
							break
						}
					}
				}
			}
			cs.Close()
			cold.Close()
			// a process that starts now serves the first requests of several sessions at once: they all miss its empty
			// system-key cache at the same moment; every one of them, and requests that come later, must succeed
			late := w.Factory(cfg, svc, "prod")
			var lateArrived atomic.Int32
			w.MS.Gate = func(c *probe.MSCall) {
				// their intermediate-key reads leave the metastore together, so that they reach the shared system-key
				// cache together (bounded spin; decides nothing)
				if c.Op == "load" && strings.HasPrefix(c.ID, "_IK_") {
					lateArrived.Add(1)
					for i := 0; i < 20000 && lateArrived.Load()%procs != 0; i++ {
						runtime.Gosched()
					}
				}
			}
			var lwg sync.WaitGroup
			lstart := make(chan struct{})
			lerrs := make([]error, procs)
			for i := 0; i < procs; i++ {
				i := i
				o := outs[i]
				if o.d == nil {
					continue
				}
				lwg.Add(1)
				go func() {
					defer lwg.Done()
					s, err := late.GetSession(part)
					if err != nil {
						lerrs[i] = err
						return
					}
					defer s.Close()
					<-lstart
					if got, err := s.Decrypt(ctx, *world.CopyDRR(o.d)); err != nil || !bytes.Equal(got, o.pl) {
						lerrs[i] = fmt.Errorf("decrypt: %v", err)
					}
				}()
			}
			close(lstart)
			lwg.Wait()
			w.MS.Gate = nil
			for k := 0; k < 2; k++ {
				ls, _ := late.GetSession(part)
				for i, o := range outs {
					if o.d == nil || lerrs[i] != nil {
						continue
					}
					if got, err := ls.Decrypt(ctx, *world.CopyDRR(o.d)); err != nil || !bytes.Equal(got, o.pl) {
						lerrs[i] = fmt.Errorf("a later decrypt on the same process: %v", err)
					}
				}
				ls.Close()
			}
			late.Close()
			for i, err := range lerrs {
				r.Eval(1)
				if err != nil {
					bad++
					r.Violation(sigDecrypt, fmt.Sprintf("concurrent creators (%s), round %d: a process whose sessions start together cannot decrypt the record returned to process %d: %v", be, round, i, err), map[string]any{"engine": "creators/late-process", "backend": be, "round": round})
					break
				}
			}
			for i, f := range facts {
				if sess[i] != nil {
					sess[i].Close()
				}
				f.Close()
			}
			r.Count("concurrent_creator_rounds", 1)
			if round%16 == 15 || round == rounds-1 {
				if a := w.Audit(); a != "" {
					bad++
					r.Violation("store-row-mutated", fmt.Sprintf("concurrent creators (%s), round %d: %s", be, round, a), nil)
				}
			}
		}
		w.Close()
	}
}
