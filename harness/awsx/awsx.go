// Package awsx enumerates regional failure combinations of both AWS KMS plug-ins over fake regional clients
// and decides C17 (and the cloud-plaintext part of C10) from what the fakes observed.
package awsx

import (
	"bytes"
	"context"
	"crypto/rand"
	"encoding/base64"
	"encoding/json"
	"errors"
	"fmt"
	"sort"
	"strings"

	awsv2 "github.com/aws/aws-sdk-go-v2/aws"
	awsv2kmssvc "github.com/aws/aws-sdk-go-v2/service/kms"
	"github.com/godaddy/asherah/go/appencryption"
	"github.com/godaddy/asherah/go/appencryption/pkg/crypto/aead"
	sdklog "github.com/godaddy/asherah/go/appencryption/pkg/log"
	v1kms "github.com/godaddy/asherah/go/appencryption/plugins/aws-v1/kms"
	v2kms "github.com/godaddy/asherah/go/appencryption/plugins/aws-v2/kms"

	"verif/harness/ev"
	"verif/harness/fakes/awskms"
	"verif/harness/probe"
)

// flaky is the AEAD given to both plug-ins: the real AES-256-GCM with a switch that makes Encrypt fail (a KMS
// data key the cipher rejects, a hardware-backed AEAD that errors).
type flaky struct {
	appencryption.AEAD
	failEncrypt bool
}

func (f *flaky) Encrypt(data, key []byte) ([]byte, error) {
	if f.failEncrypt {
		return nil, errors.New("injected AEAD encrypt failure")
	}
	return f.AEAD.Encrypt(data, key)
}

var crypto = &flaky{AEAD: aead.NewAES256GCM()}

// builds counts v2 builds: every other one starts from a base aws.Config that already carries a region (as
// LoadDefaultConfig does when AWS_REGION is set); the regional clients must still be created for their own regions.
var builds int

var allRegions = []string{"us-west-2", "eu-west-1", "ap-south-1", "us-east-1"}

// Build constructs the v1 or v2 plug-in over the fake cloud.
func Build(version int, cloud *awskms.Cloud, regions []string, preferred string) (appencryption.KeyManagementService, []string, error) {
	return build(version, cloud, regions, preferred)
}

func build(version int, cloud *awskms.Cloud, regions []string, preferred string) (appencryption.KeyManagementService, []string, error) {
	if version == 1 {
		k, err := v1kms.NewAWS(crypto, preferred, cloud.ARNMap(regions...))
		if err != nil {
			return nil, nil, err
		}
		var order []string
		for i := range k.Clients {
			k.Clients[i].KMS = awskms.V1{R: cloud.Regions[k.Clients[i].Region]}
			order = append(order, k.Clients[i].Region)
		}
		return k, order, nil
	}
	var order []string
	base := awsv2.Config{}
	builds++
	if builds%2 == 0 {
		base.Region = regions[len(regions)-1]
	}
	k, err := v2kms.NewBuilder(crypto, cloud.ARNMap(regions...)).WithPreferredRegion(preferred).WithAWSConfig(base).
		WithKMSFactory(func(cfg awsv2.Config, _ ...func(*awsv2kmssvc.Options)) v2kms.AWSClient {
			order = append(order, cfg.Region)
			reg := cloud.Regions[cfg.Region]
			if reg == nil {
				reg = cloud.Regions[regions[0]]
			}
			return awskms.V2{R: reg}
		}).Build()
	if err != nil {
		return nil, nil, err
	}
	got := append([]string(nil), order...)
	sort.Strings(got)
	want := append([]string(nil), regions...)
	sort.Strings(want)
	if strings.Join(got, ",") != strings.Join(want, ",") {
		return nil, nil, fmt.Errorf("v2 builder (base config region %q) created clients for regions %v, want one per configured region %v", base.Region, got, want)
	}
	return k, []string{k.PreferredRegion()}, nil
}

func subsets(rs []string) [][]string {
	var out [][]string
	for m := 0; m < 1<<len(rs); m++ {
		var s []string
		for i, r := range rs {
			if m&(1<<i) != 0 {
				s = append(s, r)
			}
		}
		out = append(out, s)
	}
	return out
}

func has(s []string, x string) bool {
	for _, y := range s {
		if x == y {
			return true
		}
	}
	return false
}

type envelope struct {
	EncryptedKey []byte `json:"encryptedKey"`
	KMSKEKs      []struct {
		Region       string `json:"region"`
		ARN          string `json:"arn"`
		EncryptedKEK []byte `json:"encryptedKek"`
	} `json:"kmsKeks"`
}

func allZero(b []byte) bool {
	for _, x := range b {
		if x != 0 {
			return false
		}
	}
	return true
}

// Sweep enumerates, for n = 1..maxRegions regions, every preferred region x every subset failing
// GenerateDataKey x every subset failing Encrypt (wrap), then every non-empty subset of regions configured at
// unwrap x every preferred region among them x every subset failing Decrypt, for the version pairs v1->v1,
// v2->v2, v1->v2, v2->v1. prop is "C17" or "C10" (which verdicts are reported).
// logScan scans the debug log lines written since the last call (installed by Sweep).
var logScan func(what string, keys ...[]byte)

// prevEnv is the very slice the previous successful wrap returned, prevEnvCopy what it held at that moment.
var (
	prevEnv, prevEnvCopy []byte
	prevEnvVersion       int
)

// curDataKey is the data key of the envelope produced by the latest wrap (what the unwraps that follow obtain from KMS).
var curDataKey []byte

func Sweep(r *ev.Run, prop string, maxRegions int, builds int) {
	report := func(sig, f string, a ...any) {
		r.Violation(sig, fmt.Sprintf(f, a...), nil)
	}
	c17 := prop == "C17"
	_ = prop == "C10"
	// the plug-ins' debug log is captured while they wrap and unwrap: no line may carry the system key or the data
	// key of the envelope in any rendering
	tap := &probe.LogTap{}
	tap.SetKeep(true)
	sdklog.SetLogger(tap)
	defer sdklog.SetLogger(&probe.LogTap{})
	logScan = func(what string, keys ...[]byte) {
		for _, line := range tap.Take() {
			r.Count("plugin_debug_log_lines_scanned", 1)
			for ki, k := range keys {
				if len(k) < 16 {
					continue
				}
				for fi, f := range probe.Forms(k) {
					if bytes.Contains([]byte(line), f) {
						name := []string{"system key", "data key of the envelope"}[ki%2]
						r.Violation("key-plaintext-in-debug-log", fmt.Sprintf("%s: a debug log line of the plug-in carries the %s (rendering %d): %.80q...", what, name, fi, line), nil)
						return
					}
				}
			}
		}
	}
	for pass := 0; pass < 2*maxRegions; pass++ {
		n := pass%maxRegions + 1
		regions := allRegions[:n]
		cloud := awskms.NewCloud(regions...)
		if pass >= maxRegions {
			// second pass: the keys are configured by alias ARN (KMS answers with the key ARN in KeyId)
			if n > 2 {
				continue
			}
			cloud.UseAliases()
		}
		subs := subsets(regions)
		for _, wv := range []int{1, 2} {
			for _, pref := range regions {
				for rep := 0; rep < builds; rep++ { // map iteration order differs between builds
					wk, _, err := build(wv, cloud, regions, pref)
					if err != nil {
						report("build-failed", "building v%d plugin: %v", wv, err)
						continue
					}
					for _, failGen := range subs {
						for _, failEnc := range subs {
							cloud.Reset()
							for _, g := range failGen {
								cloud.Regions[g].FailGenerate = true
							}
							for _, e := range failEnc {
								cloud.Regions[e].FailEncrypt = true
							}
							sk := make([]byte, 32)
							rand.Read(sk)
							skCopy := append([]byte(nil), sk...)
							env, err := wk.EncryptKey(context.Background(), sk)
							r.Eval(1)
							r.Count("wraps", 1)
							// an envelope handed out by an earlier wrap belongs to its caller: a later wrap must not write to it
							if prevEnv != nil && !bytes.Equal(prevEnv, prevEnvCopy) {
								report(fmt.Sprintf("envelope-changed-by-a-later-wrap:v%d", prevEnvVersion), "the envelope returned by an earlier EncryptKey of the v%d plug-in was modified in place by a later EncryptKey call (it no longer holds what was returned)", prevEnvVersion)
								prevEnv = nil
							}
							if err == nil && len(env) > 0 {
								prevEnv, prevEnvCopy, prevEnvVersion = env, append([]byte(nil), env...), wv
							}
							calls := cloud.Calls()
							defer0 := func(dk []byte) { logScan(fmt.Sprintf("v%d wrap", wv), skCopy, dk) }
							canGenerate := len(failGen) < len(regions)
							desc := fmt.Sprintf("v%d wrap, regions=%v preferred=%s failGenerate=%v failEncrypt=%v", wv, regions, pref, failGen, failEnc)
							// the data key of this wrap, as KMS generated it (the fakes keep a private copy)
							var dataKey []byte
							for _, reg := range cloud.Regions {
								if n := len(reg.HandedCopies); n > 0 {
									dataKey = reg.HandedCopies[n-1]
								}
							}
							defer0(dataKey)
							curDataKey = append([]byte(nil), dataKey...)
							// who generated?
							gen := ""
							firstGen := ""
							for _, c := range calls {
								if c.Op == "generate" {
									if firstGen == "" {
										firstGen = c.Region
									}
									if c.OK {
										gen = c.Region
									}
								}
							}
							if c17 {
								if firstGen != pref {
									report("wrap-generate-not-preferred-first:v"+fmt.Sprint(wv), "%s: first GenerateDataKey went to %s, not to the preferred region", desc, firstGen)
								}
								// keys configured by alias: every regional KEK comes from an Encrypt call (see below); when all of
								// them fail there is nothing to put into the envelope and the wrap has to fail
								aliasAllEncryptFail := cloud.Regions[regions[0]].Alias != "" && len(failEnc) == len(regions)
								if aliasAllEncryptFail && canGenerate {
									if err == nil {
										report("wrap-succeeded-with-empty-envelope:v"+fmt.Sprint(wv), "%s: EncryptKey reported success although no region could wrap the data key: the envelope %s can never be unwrapped", desc, env)
									}
								} else if canGenerate != (err == nil) {
									report("wrap-success-mismatch:v"+fmt.Sprint(wv), "%s: some region can generate=%v but EncryptKey err=%v", desc, canGenerate, err)
								}
								if !bytes.Equal(sk, skCopy) {
									report("wrap-modified-key-argument:v"+fmt.Sprint(wv), "%s: EncryptKey modified the caller's key bytes", desc)
								}
								for _, req := range cloud.Requests {
									if bytes.Contains(req, skCopy) {
										report("system-key-sent-to-cloud:v"+fmt.Sprint(wv), "%s: the system key bytes appear in an AWS request", desc)
									}
								}
							}
							// the data key plaintext handed out by GenerateDataKey, and every Encrypt request buffer that carried
							// it to another region, must be wiped when EncryptKey returns - on success and on failure
							wipeCheck := func(desc string) {
								for _, reg := range cloud.Regions {
									for _, h := range reg.Handed {
										if !allZero(h) {
											report("wrap-datakey-plaintext-not-wiped:v"+fmt.Sprint(wv), "%s: GenerateDataKey Plaintext from %s not zero after EncryptKey returned (err=%v)", desc, reg.Name, err)
										}
									}
								}
								for _, b := range cloud.ReqPlain {
									if !allZero(b) {
										report("wrap-datakey-request-buffer-not-wiped:v"+fmt.Sprint(wv), "%s: an Encrypt request Plaintext buffer still holds the data key after EncryptKey returned (err=%v)", desc, err)
									}
								}
							}
							wipeCheck(desc)
							if len(failGen) == 0 && len(failEnc) <= 1 {
								// same wrap with the AEAD failing after the cloud handed out the data key
								cloud.Reset()
								for _, e := range failEnc {
									cloud.Regions[e].FailEncrypt = true
								}
								crypto.failEncrypt = true
								_, ferr := wk.EncryptKey(context.Background(), append([]byte(nil), skCopy...))
								crypto.failEncrypt = false
								r.Eval(1)
								r.Count("wraps_with_failing_aead", 1)
								if ferr == nil {
									report("wrap-succeeded-although-aead-failed:v"+fmt.Sprint(wv), "%s: EncryptKey returned no error although the AEAD refused to encrypt", desc)
								}
								realErr := err
								err = ferr
								wipeCheck(desc + " + AEAD encrypt failure")
								err = realErr
							}
							if err != nil {
								continue
							}
							r.Distinct(desc)
							var en envelope
							if jerr := json.Unmarshal(env, &en); jerr != nil {
								report("envelope-not-json:v"+fmt.Sprint(wv), "%s: %v", desc, jerr)
								continue
							}
							if len(en.KMSKEKs) == 0 {
								report("wrap-succeeded-with-empty-envelope:v"+fmt.Sprint(wv), "%s: EncryptKey reported success with an envelope that has no regional entry", desc)
								continue
							}
							// the envelope itself: the wrapped system key opens under the generated data key (and not under an
							// all-zero key), every regional entry is that region's wrapping of exactly this data key, and the
							// data key does not appear in the envelope in the clear
							if dataKey != nil {
								if bytes.Contains(env, []byte(base64.StdEncoding.EncodeToString(dataKey))) || bytes.Contains(env, dataKey) {
									report("envelope-contains-plaintext-data-key:v"+fmt.Sprint(wv), "%s: the envelope carries the data key in the clear", desc)
								}
								if out, derr := crypto.AEAD.Decrypt(en.EncryptedKey, make([]byte, 32)); derr == nil && bytes.Equal(out, skCopy) {
									report("envelope-wrapped-under-zero-key:v"+fmt.Sprint(wv), "%s: the system key in the envelope opens under an all-zero key", desc)
								}
								if out, derr := crypto.AEAD.Decrypt(en.EncryptedKey, dataKey); derr != nil || !bytes.Equal(out, skCopy) {
									report("envelope-not-under-data-key:v"+fmt.Sprint(wv), "%s: the system key in the envelope does not open under the data key KMS generated: %v", desc, derr)
								}
								for _, k := range en.KMSKEKs {
									pt, oerr := cloud.Regions[k.Region].Open(k.EncryptedKEK)
									if oerr != nil || !bytes.Equal(pt, dataKey) {
										report("envelope-entry-not-a-wrapping-of-the-data-key:v"+fmt.Sprint(wv), "%s: the entry for %s is not that region's wrapping of the generated data key (%v)", desc, k.Region, oerr)
									}
								}
							}
							var got []string
							for _, k := range en.KMSKEKs {
								got = append(got, k.Region)
								if k.ARN != cloud.Regions[k.Region].ConfiguredID() {
									report("envelope-wrong-arn:v"+fmt.Sprint(wv), "%s: entry for %s carries ARN %s", desc, k.Region, k.ARN)
								}
							}
							sort.Strings(got)
							var want []string
							for _, reg := range regions {
								if reg == gen || !has(failEnc, reg) {
									want = append(want, reg)
								}
							}
							sort.Strings(want)
							aliasGenDropped := false
							if cloud.Regions[regions[0]].Alias != "" && has(failEnc, gen) {
								// keys configured by alias: KMS reports the key ARN, so the plug-ins do not recognise the
								// generating region's own blob and wrap the data key there through Encrypt as well; when that
								// Encrypt fails the region has no entry. Both outcomes are accepted for that region.
								var alt []string
								for _, reg := range want {
									if reg != gen {
										alt = append(alt, reg)
									}
								}
								if strings.Join(got, ",") == strings.Join(alt, ",") {
									aliasGenDropped = true
								}
							}
							if c17 && !aliasGenDropped && strings.Join(got, ",") != strings.Join(want, ",") {
								report("envelope-entries-mismatch:v"+fmt.Sprint(wv), "%s: envelope has entries for %v, expected exactly the regions that succeeded %v (generated in %s)", desc, got, want, gen)
							}
							if r.WantSample() {
								r.Sample(map[string]any{"wrap": desc, "generated_in": gen, "envelope_regions": got})
							}
							// ---- unwrap
							for _, uv := range []int{1, 2} {
								unwrapAll(r, prop, cloud, regions, subs, uv, wv, env, skCopy, got, desc)
							}
						}
					}
				}
			}
		}
	}
}

type builtKMS struct {
	k    appencryption.KeyManagementService
	conf []string
	pref string
}

var unwrapCache = map[string]builtKMS{}

func unwrapAll(r *ev.Run, prop string, cloud *awskms.Cloud, regions []string, subs [][]string, uv, wv int, env, sk []byte, entries []string, wdesc string) {
	c17 := prop == "C17"
	for _, conf := range subs {
		if len(conf) == 0 {
			continue
		}
		for _, upref := range conf {
			key := fmt.Sprintf("%p|%d|%v|%s", cloud, uv, conf, upref)
			b, ok := unwrapCache[key]
			if !ok {
				// keys configured by alias on the writing side: every other reader is configured with the key ARNs
				// instead (the same keys under another name; entries are selected by region, not by the name recorded
				// in the envelope)
				saved := map[string]string{}
				if len(unwrapCache)%2 == 1 {
					for name, reg := range cloud.Regions {
						if reg.Alias != "" {
							saved[name], reg.Alias = reg.Alias, ""
						}
					}
				}
				k, _, err := build(uv, cloud, conf, upref)
				for name, a := range saved {
					cloud.Regions[name].Alias = a
				}
				if len(saved) > 0 {
					r.Count("readers_configured_with_key_arns_for_alias_written_envelopes", 1)
				}
				if err != nil {
					r.Violation("build-failed", fmt.Sprintf("building v%d plugin for %v: %v", uv, conf, err), nil)
					continue
				}
				b = builtKMS{k, conf, upref}
				unwrapCache[key] = b
			}
			// every assignment of {ok, KMS Decrypt fails, KMS Decrypt returns a data key that cannot open the envelope}
			modes := 1
			for range conf {
				modes *= 3
			}
			for mode := 0; mode < modes; mode++ {
				cloud.Reset()
				var failDec, wrongPt []string
				m := mode
				for _, reg := range conf {
					switch m % 3 {
					case 1:
						cloud.Regions[reg].FailDecrypt = true
						failDec = append(failDec, reg)
					case 2:
						cloud.Regions[reg].WrongPlaintext = true
						wrongPt = append(wrongPt, reg)
					}
					m /= 3
				}
				out, err := b.k.DecryptKey(context.Background(), append([]byte(nil), env...))
				r.Eval(1)
				r.Count("unwraps", 1)
				if logScan != nil {
					logScan(fmt.Sprintf("v%d unwrap", uv), sk, curDataKey)
				}
				r.Count(fmt.Sprintf("unwraps_v%d_to_v%d", wv, uv), 1)
				desc := fmt.Sprintf("%s | v%d unwrap configured=%v preferred=%s failDecrypt=%v wrongDataKey=%v", wdesc, uv, conf, upref, failDec, wrongPt)
				can := false
				for _, reg := range conf {
					if has(entries, reg) && !has(failDec, reg) && !has(wrongPt, reg) {
						can = true
					}
				}
				if len(wrongPt) > 0 {
					r.Count("unwraps_with_undecryptable_regional_kek", 1)
				}
				calls := cloud.Calls()
				if c17 {
					if can != (err == nil) {
						r.Violation(fmt.Sprintf("unwrap-success-mismatch:v%d->v%d", wv, uv), fmt.Sprintf("%s: a configured region with an entry can decrypt=%v but DecryptKey err=%v", desc, can, err), nil)
					}
					if err == nil && !bytes.Equal(out, sk) {
						r.Violation(fmt.Sprintf("unwrap-wrong-bytes:v%d->v%d", wv, uv), fmt.Sprintf("%s: DecryptKey returned other bytes", desc), nil)
					}
					if has(entries, upref) && len(calls) > 0 && calls[0].Region != upref {
						r.Violation(fmt.Sprintf("unwrap-not-preferred-first:v%d", uv), fmt.Sprintf("%s: first Decrypt went to %s although the preferred region has an entry", desc, calls[0].Region), nil)
					}
					for _, c := range calls {
						if !has(entries, c.Region) {
							r.Violation(fmt.Sprintf("unwrap-called-region-without-entry:v%d", uv), fmt.Sprintf("%s: Decrypt sent to %s which has no envelope entry", desc, c.Region), nil)
						}
					}
				}
				// C10: data-key plaintexts handed out by the cloud are wiped when DecryptKey returns
				for _, reg := range cloud.Regions {
					for _, h := range reg.Handed {
						if !allZero(h) {
							r.Count("cloud_decrypt_plaintexts_left_nonzero", 1)
							if prop == "C10" {
								r.Violation(fmt.Sprintf("cloud-decrypt-plaintext-not-wiped:v%d", uv), fmt.Sprintf("%s: the data-key Plaintext returned by KMS Decrypt in %s is not zero after DecryptKey returned (err=%v)", desc, reg.Name, err), nil)
							}
						}
					}
				}
				if err == nil && can {
					r.Count("successful_unwraps", 1)
				}
			}
		}
	}
}
