// Package sqlmini is a tiny in-memory SQL engine behind database/sql/driver that understands exactly the
// statement shapes a key table needs (single-table SELECT with equality predicates, ORDER BY, LIMIT; INSERT
// with a column list) and enforces the documented schema
//
//	encryption_key(id VARCHAR, created TIMESTAMP, key_record TEXT, PRIMARY KEY(id, created))
//
// including placeholder syntax per dialect. Anything else is a driver error. It is written from the SQL
// semantics, not from the SDK's code, and is part of the trusted base of C13/C18.
package sqlmini

import (
	"context"
	"database/sql"
	"database/sql/driver"
	"encoding/json"
	"errors"
	"fmt"
	"io"
	"sort"
	"strconv"
	"strings"
	"sync"
	"time"
)

// Dialect selects the placeholder syntax.
type Dialect string

const (
	MySQL    Dialect = "mysql"    // ?
	Postgres Dialect = "postgres" // $1
	Oracle   Dialect = "oracle"   // :1
)

type row struct {
	id      string
	created time.Time
	record  string
}

// DB is one database instance.
type DB struct {
	mu      sync.Mutex
	dialect Dialect
	rows    []row
	byID    map[string][]int // id -> indexes into rows (the engine's primary-key index)
	Stmts   map[string]int   // statement text -> executions
	Inserts int
	// FailReads > 0 makes that many following SELECTs fail with a driver error (connection trouble)
	FailReads int
	// FailWrites > 0 makes that many following INSERTs fail before touching the table
	FailWrites int
	// FailPrepares > 0 makes that many following statement preparations fail (the connection hiccups before the
	// statement reaches the server)
	FailPrepares int
	// FailFetch > 0 makes that many following SELECTs be accepted and then fail while the first row is fetched (the
	// connection drops while the result set is read)
	FailFetch int
}

var (
	regMu sync.Mutex
	reg   = map[string]*DB{}
	once  sync.Once
	seq   int
)

// Open creates a fresh database with the given dialect and returns it with a *sql.DB handle on it.
func Open(d Dialect) (*DB, *sql.DB) {
	once.Do(func() { sql.Register("sqlmini", drv{}) })
	regMu.Lock()
	seq++
	name := fmt.Sprintf("db%d", seq)
	db := &DB{dialect: d, Stmts: map[string]int{}, byID: map[string][]int{}}
	reg[name] = db
	regMu.Unlock()
	h, err := sql.Open("sqlmini", name)
	if err != nil {
		panic(err)
	}
	return db, h
}

// Drop forgets the named databases' registry entries (handles must be closed by the caller).
func (db *DB) Drop() {
	regMu.Lock()
	for k, v := range reg {
		if v == db {
			delete(reg, k)
		}
	}
	regMu.Unlock()
}

// Dump returns a copy of all rows as (id, created unix seconds, key_record).
// SetFailReads arms read failures.
func (db *DB) SetFailReads(n int) { db.mu.Lock(); db.FailReads = n; db.mu.Unlock() }

// SetFailPrepares arms failures of statement preparation.
func (db *DB) SetFailPrepares(n int) { db.mu.Lock(); db.FailPrepares = n; db.mu.Unlock() }

// SetFailFetch arms failures of the row fetch of accepted SELECTs.
func (db *DB) SetFailFetch(n int) { db.mu.Lock(); db.FailFetch = n; db.mu.Unlock() }

// SetFailWrites arms write failures.
func (db *DB) SetFailWrites(n int) { db.mu.Lock(); db.FailWrites = n; db.mu.Unlock() }

func (db *DB) Dump() [][3]string {
	db.mu.Lock()
	defer db.mu.Unlock()
	var out [][3]string
	for _, r := range db.rows {
		out = append(out, [3]string{r.id, strconv.FormatInt(r.created.Unix(), 10), r.record})
	}
	return out
}

type drv struct{}

func (drv) Open(name string) (driver.Conn, error) {
	regMu.Lock()
	db := reg[name]
	regMu.Unlock()
	if db == nil {
		return nil, errors.New("sqlmini: unknown database " + name)
	}
	return &conn{db: db}, nil
}

type conn struct{ db *DB }

func (c *conn) Prepare(q string) (driver.Stmt, error) {
	c.db.mu.Lock()
	if c.db.FailPrepares > 0 {
		c.db.FailPrepares--
		c.db.mu.Unlock()
		return nil, errors.New("sqlmini: injected prepare failure: connection reset")
	}
	c.db.mu.Unlock()
	st, err := parse(q, c.db.dialect)
	if err != nil {
		return nil, err
	}
	st.db = c.db
	st.text = q
	return st, nil
}
func (c *conn) Close() error { return nil }
func (c *conn) Begin() (driver.Tx, error) {
	return nil, errors.New("sqlmini: transactions not supported")
}

// statement AST
type pred struct {
	col string
	arg int // 0-based argument index
}

type stmt struct {
	db   *DB
	text string
	kind string // select | insert
	// select
	cols    []string
	table   string
	where   []pred
	orderBy string
	desc    bool
	limit   int // -1 none
	// insert
	icols []string
	iargs []int
	nargs int
}

func (s *stmt) Close() error  { return nil }
func (s *stmt) NumInput() int { return s.nargs }

var schema = map[string]string{"id": "string", "created": "time", "key_record": "string"}

func checkType(col string, v driver.Value) (any, error) {
	switch schema[col] {
	case "string":
		switch x := v.(type) {
		case string:
			return x, nil
		case []byte:
			return string(x), nil
		}
		return nil, fmt.Errorf("sqlmini: column %s expects a string, got %T", col, v)
	case "time":
		if x, ok := v.(time.Time); ok {
			return x, nil
		}
		return nil, fmt.Errorf("sqlmini: column %s is a TIMESTAMP, got %T", col, v)
	}
	return nil, fmt.Errorf("sqlmini: unknown column %q", col)
}

func (s *stmt) Exec(args []driver.Value) (driver.Result, error) {
	if s.kind != "insert" {
		return nil, errors.New("sqlmini: Exec on a non-INSERT statement")
	}
	var r row
	seen := map[string]bool{}
	for i, col := range s.icols {
		if s.iargs[i] >= len(args) {
			return nil, errors.New("sqlmini: missing argument")
		}
		v, err := checkType(col, args[s.iargs[i]])
		if err != nil {
			return nil, err
		}
		seen[col] = true
		switch col {
		case "id":
			r.id = v.(string)
		case "created":
			r.created = v.(time.Time)
		case "key_record":
			r.record = v.(string)
		}
	}
	for col := range schema {
		if !seen[col] {
			return nil, fmt.Errorf("sqlmini: column %s has no default value", col)
		}
	}
	s.db.mu.Lock()
	defer s.db.mu.Unlock()
	s.db.Stmts[s.text]++
	if s.db.FailWrites > 0 {
		s.db.FailWrites--
		return nil, errors.New("sqlmini: injected write failure: connection reset")
	}
	for _, i := range s.db.byID[r.id] {
		if x := s.db.rows[i]; x.created.Equal(r.created) {
			return nil, fmt.Errorf("sqlmini: duplicate entry '%s-%d' for key 'PRIMARY'", r.id, r.created.Unix())
		}
	}
	s.db.byID[r.id] = append(s.db.byID[r.id], len(s.db.rows))
	s.db.rows = append(s.db.rows, r)
	s.db.Inserts++
	return driver.RowsAffected(1), nil
}

func (s *stmt) Query(args []driver.Value) (driver.Rows, error) {
	if s.kind != "select" {
		return nil, errors.New("sqlmini: Query on a non-SELECT statement")
	}
	type cond struct {
		col string
		val any
	}
	var conds []cond
	for _, p := range s.where {
		if p.arg >= len(args) {
			return nil, errors.New("sqlmini: missing argument")
		}
		v, err := checkType(p.col, args[p.arg])
		if err != nil {
			return nil, err
		}
		conds = append(conds, cond{p.col, v})
	}
	s.db.mu.Lock()
	s.db.Stmts[s.text]++
	if s.db.FailReads > 0 {
		s.db.FailReads--
		s.db.mu.Unlock()
		return nil, errors.New("sqlmini: injected read failure: connection reset")
	}
	failFetch := false
	if s.db.FailFetch > 0 {
		s.db.FailFetch--
		failFetch = true
	}
	var hit []row
	cand := s.db.rows
	for _, c := range conds {
		if c.col == "id" { // use the primary-key index
			cand = nil
			for _, i := range s.db.byID[c.val.(string)] {
				cand = append(cand, s.db.rows[i])
			}
			break
		}
	}
	for _, x := range cand {
		ok := true
		for _, c := range conds {
			switch c.col {
			case "id":
				ok = ok && x.id == c.val.(string)
			case "created":
				ok = ok && x.created.Equal(c.val.(time.Time))
			case "key_record":
				ok = ok && x.record == c.val.(string)
			}
		}
		if ok {
			hit = append(hit, x)
		}
	}
	s.db.mu.Unlock()
	if s.orderBy != "" {
		sort.SliceStable(hit, func(i, j int) bool {
			var less bool
			switch s.orderBy {
			case "created":
				less = hit[i].created.Before(hit[j].created)
			case "id":
				less = hit[i].id < hit[j].id
			default:
				less = hit[i].record < hit[j].record
			}
			if s.desc {
				switch s.orderBy {
				case "created":
					return hit[j].created.Before(hit[i].created)
				case "id":
					return hit[j].id < hit[i].id
				default:
					return hit[j].record < hit[i].record
				}
			}
			return less
		})
	}
	if s.limit >= 0 && len(hit) > s.limit {
		hit = hit[:s.limit]
	}
	return &rows{cols: s.cols, data: hit, failFetch: failFetch}, nil
}

type rows struct {
	cols      []string
	data      []row
	i         int
	failFetch bool
}

func (r *rows) Columns() []string { return r.cols }
func (r *rows) Close() error      { return nil }
func (r *rows) Next(dest []driver.Value) error {
	if r.failFetch {
		return errors.New("sqlmini: injected fetch failure: connection lost while reading the result set")
	}
	if r.i >= len(r.data) {
		return io.EOF
	}
	x := r.data[r.i]
	r.i++
	for i, c := range r.cols {
		switch c {
		case "id":
			dest[i] = x.id
		case "created":
			dest[i] = x.created
		case "key_record":
			dest[i] = x.record
		}
	}
	return nil
}

// ---- parser

func tokenize(q string) ([]string, error) {
	var out []string
	i := 0
	for i < len(q) {
		c := q[i]
		switch {
		case c == ' ' || c == '\t' || c == '\n' || c == '\r':
			i++
		case c == ',' || c == '(' || c == ')' || c == '=' || c == '*' || c == ';':
			out = append(out, string(c))
			i++
		case c == '?':
			out = append(out, "?")
			i++
		case c == '$' || c == ':':
			j := i + 1
			for j < len(q) && q[j] >= '0' && q[j] <= '9' {
				j++
			}
			if j == i+1 {
				return nil, fmt.Errorf("sqlmini: syntax error near %q", q[i:])
			}
			out = append(out, q[i:j])
			i = j
		case c == '_' || (c >= 'a' && c <= 'z') || (c >= 'A' && c <= 'Z') || (c >= '0' && c <= '9'):
			j := i
			for j < len(q) && (q[j] == '_' || (q[j] >= 'a' && q[j] <= 'z') || (q[j] >= 'A' && q[j] <= 'Z') || (q[j] >= '0' && q[j] <= '9')) {
				j++
			}
			out = append(out, q[i:j])
			i = j
		default:
			return nil, fmt.Errorf("sqlmini: unexpected character %q", c)
		}
	}
	return out, nil
}

type parser struct {
	t       []string
	i       int
	d       Dialect
	nextPos int
	maxArg  int
}

func (p *parser) peek() string {
	if p.i < len(p.t) {
		return p.t[p.i]
	}
	return ""
}
func (p *parser) next() string { s := p.peek(); p.i++; return s }
func (p *parser) kw(k string) bool {
	if strings.EqualFold(p.peek(), k) {
		p.i++
		return true
	}
	return false
}
func (p *parser) expect(k string) error {
	if !p.kw(k) {
		return fmt.Errorf("sqlmini: syntax error: expected %s near %q", k, p.peek())
	}
	return nil
}
func (p *parser) ident() (string, error) {
	s := p.next()
	if s == "" || !(s[0] == '_' || (s[0] >= 'a' && s[0] <= 'z') || (s[0] >= 'A' && s[0] <= 'Z')) {
		return "", fmt.Errorf("sqlmini: syntax error: identifier expected near %q", s)
	}
	return strings.ToLower(s), nil
}

// placeholder parses one bind placeholder and returns its 0-based argument index.
func (p *parser) placeholder() (int, error) {
	s := p.next()
	switch {
	case s == "?":
		if p.d != MySQL {
			return 0, fmt.Errorf("sqlmini(%s): syntax error near '?'", p.d)
		}
		n := p.nextPos
		p.nextPos++
		if n+1 > p.maxArg {
			p.maxArg = n + 1
		}
		return n, nil
	case strings.HasPrefix(s, "$") || strings.HasPrefix(s, ":"):
		if (s[0] == '$' && p.d != Postgres) || (s[0] == ':' && p.d != Oracle) {
			return 0, fmt.Errorf("sqlmini(%s): syntax error near %q", p.d, s)
		}
		n, err := strconv.Atoi(s[1:])
		if err != nil || n < 1 {
			return 0, fmt.Errorf("sqlmini: bad placeholder %q", s)
		}
		if n > p.maxArg {
			p.maxArg = n
		}
		return n - 1, nil
	}
	return 0, fmt.Errorf("sqlmini: syntax error: placeholder expected near %q", s)
}

func parse(q string, d Dialect) (*stmt, error) {
	toks, err := tokenize(q)
	if err != nil {
		return nil, err
	}
	p := &parser{t: toks, d: d}
	st := &stmt{limit: -1}
	switch {
	case p.kw("select"):
		st.kind = "select"
		for {
			c, err := p.ident()
			if err != nil {
				return nil, err
			}
			if _, ok := schema[c]; !ok {
				return nil, fmt.Errorf("sqlmini: unknown column %q", c)
			}
			st.cols = append(st.cols, c)
			if !p.kw(",") {
				break
			}
		}
		if err := p.expect("from"); err != nil {
			return nil, err
		}
		if st.table, err = p.ident(); err != nil {
			return nil, err
		}
		if p.kw("where") {
			for {
				c, err := p.ident()
				if err != nil {
					return nil, err
				}
				if _, ok := schema[c]; !ok {
					return nil, fmt.Errorf("sqlmini: unknown column %q", c)
				}
				if err := p.expect("="); err != nil {
					return nil, err
				}
				a, err := p.placeholder()
				if err != nil {
					return nil, err
				}
				st.where = append(st.where, pred{c, a})
				if !p.kw("and") {
					break
				}
			}
		}
		if p.kw("order") {
			if err := p.expect("by"); err != nil {
				return nil, err
			}
			if st.orderBy, err = p.ident(); err != nil {
				return nil, err
			}
			if _, ok := schema[st.orderBy]; !ok {
				return nil, fmt.Errorf("sqlmini: unknown column %q", st.orderBy)
			}
			if p.kw("desc") {
				st.desc = true
			} else {
				p.kw("asc")
			}
		}
		if p.kw("limit") {
			n, err := strconv.Atoi(p.next())
			if err != nil || n < 0 {
				return nil, errors.New("sqlmini: bad LIMIT")
			}
			st.limit = n
		}
	case p.kw("insert"):
		st.kind = "insert"
		if err := p.expect("into"); err != nil {
			return nil, err
		}
		if st.table, err = p.ident(); err != nil {
			return nil, err
		}
		if err := p.expect("("); err != nil {
			return nil, err
		}
		for {
			c, err := p.ident()
			if err != nil {
				return nil, err
			}
			if _, ok := schema[c]; !ok {
				return nil, fmt.Errorf("sqlmini: unknown column %q", c)
			}
			st.icols = append(st.icols, c)
			if !p.kw(",") {
				break
			}
		}
		if err := p.expect(")"); err != nil {
			return nil, err
		}
		if err := p.expect("values"); err != nil {
			return nil, err
		}
		if err := p.expect("("); err != nil {
			return nil, err
		}
		for {
			a, err := p.placeholder()
			if err != nil {
				return nil, err
			}
			st.iargs = append(st.iargs, a)
			if !p.kw(",") {
				break
			}
		}
		if err := p.expect(")"); err != nil {
			return nil, err
		}
		if len(st.iargs) != len(st.icols) {
			return nil, errors.New("sqlmini: column count doesn't match value count")
		}
	default:
		return nil, fmt.Errorf("sqlmini: unsupported statement %q", q)
	}
	p.kw(";")
	if p.i != len(p.t) {
		return nil, fmt.Errorf("sqlmini: syntax error near %q", p.peek())
	}
	if st.table != "encryption_key" {
		return nil, fmt.Errorf("sqlmini: table %q doesn't exist", st.table)
	}
	st.nargs = p.maxArg
	return st, nil
}

var _ = context.Background

// SetRevoked rewrites the key_record JSON of row (id, created) with "Revoked": true, the way an operator's UPDATE
// statement would. Reports whether the row exists.
func (db *DB) SetRevoked(id string, created int64) bool {
	db.mu.Lock()
	defer db.mu.Unlock()
	for _, i := range db.byID[id] {
		r := &db.rows[i]
		if r.created.Unix() != created {
			continue
		}
		var m map[string]json.RawMessage
		if err := json.Unmarshal([]byte(r.record), &m); err != nil {
			return false
		}
		m["Revoked"] = json.RawMessage("true")
		b, err := json.Marshal(m)
		if err != nil {
			return false
		}
		r.record = string(b)
		return true
	}
	return false
}

// SetRecord replaces the key_record text of row (id, created) - storage-level corruption for hostile-input checks -
// and returns a function that restores it. ok is false when there is no such row.
func (db *DB) SetRecord(id string, created int64, record string) (restore func(), ok bool) {
	db.mu.Lock()
	defer db.mu.Unlock()
	for _, i := range db.byID[id] {
		if db.rows[i].created.Unix() != created {
			continue
		}
		i := i
		orig := db.rows[i].record
		db.rows[i].record = record
		return func() {
			db.mu.Lock()
			db.rows[i].record = orig
			db.mu.Unlock()
		}, true
	}
	return nil, false
}

// Record returns the key_record text of row (id, created).
func (db *DB) Record(id string, created int64) (string, bool) {
	db.mu.Lock()
	defer db.mu.Unlock()
	for _, i := range db.byID[id] {
		if db.rows[i].created.Unix() == created {
			return db.rows[i].record, true
		}
	}
	return "", false
}
