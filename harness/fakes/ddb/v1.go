package ddb

import (
	"github.com/aws/aws-sdk-go/aws"
	"github.com/aws/aws-sdk-go/aws/awserr"
	"github.com/aws/aws-sdk-go/aws/request"
	"github.com/aws/aws-sdk-go/service/dynamodb"
)

// V1 adapts a Table to the aws-sdk-go (v1) client interface used by the SDK's DynamoDB metastore.
type V1 struct{ T *Table }

func fromV1(a *dynamodb.AttributeValue) AV {
	switch {
	case a == nil:
		return AV{Kind: '0'}
	case a.S != nil:
		return AV{Kind: 'S', S: *a.S}
	case a.N != nil:
		return AV{Kind: 'N', S: *a.N}
	case a.B != nil:
		return AV{Kind: 'B', B: append([]byte(nil), a.B...)}
	case a.BOOL != nil:
		return AV{Kind: 'T', Bool: *a.BOOL}
	case a.M != nil:
		m := map[string]AV{}
		for k, v := range a.M {
			m[k] = fromV1(v)
		}
		return AV{Kind: 'M', M: m}
	case a.L != nil:
		l := make([]AV, len(a.L))
		for i, v := range a.L {
			l[i] = fromV1(v)
		}
		return AV{Kind: 'L', L: l}
	}
	return AV{Kind: '0'}
}

func toV1(a AV) *dynamodb.AttributeValue {
	switch a.Kind {
	case 'S':
		return &dynamodb.AttributeValue{S: aws.String(a.S)}
	case 'N':
		return &dynamodb.AttributeValue{N: aws.String(a.S)}
	case 'B':
		return &dynamodb.AttributeValue{B: append([]byte(nil), a.B...)}
	case 'T':
		return &dynamodb.AttributeValue{BOOL: aws.Bool(a.Bool)}
	case 'M':
		m := map[string]*dynamodb.AttributeValue{}
		for k, v := range a.M {
			m[k] = toV1(v)
		}
		return &dynamodb.AttributeValue{M: m}
	case 'L':
		l := make([]*dynamodb.AttributeValue, len(a.L))
		for i, v := range a.L {
			l[i] = toV1(v)
		}
		return &dynamodb.AttributeValue{L: l}
	}
	return &dynamodb.AttributeValue{NULL: aws.Bool(true)}
}

func mapFromV1(m map[string]*dynamodb.AttributeValue) map[string]AV {
	out := map[string]AV{}
	for k, v := range m {
		out[k] = fromV1(v)
	}
	return out
}

func mapToV1(m map[string]AV) map[string]*dynamodb.AttributeValue {
	if m == nil {
		return nil
	}
	out := map[string]*dynamodb.AttributeValue{}
	for k, v := range m {
		out[k] = toV1(v)
	}
	return out
}

func names1(m map[string]*string) map[string]string {
	out := map[string]string{}
	for k, v := range m {
		if v != nil {
			out[k] = *v
		}
	}
	return out
}

func err1(err error) error {
	if e, ok := err.(*Error); ok {
		if e.Code == ErrTimeout {
			return awserr.New("RequestError", "send request failed", timeoutErr{e.Msg})
		}
		return awserr.New(e.Code, e.Msg, nil)
	}
	return err
}

func (c V1) GetItemWithContext(_ aws.Context, in *dynamodb.GetItemInput, _ ...request.Option) (*dynamodb.GetItemOutput, error) {
	it, err := c.T.Get(aws.StringValue(in.TableName), mapFromV1(in.Key), aws.StringValue(in.ProjectionExpression), names1(in.ExpressionAttributeNames), aws.BoolValue(in.ConsistentRead))
	if err != nil {
		return nil, err1(err)
	}
	return &dynamodb.GetItemOutput{Item: mapToV1(it)}, nil
}

func (c V1) PutItemWithContext(_ aws.Context, in *dynamodb.PutItemInput, _ ...request.Option) (*dynamodb.PutItemOutput, error) {
	err := c.T.Put(aws.StringValue(in.TableName), mapFromV1(in.Item), aws.StringValue(in.ConditionExpression), names1(in.ExpressionAttributeNames))
	if err != nil {
		return nil, err1(err)
	}
	return &dynamodb.PutItemOutput{}, nil
}

func (c V1) QueryWithContext(_ aws.Context, in *dynamodb.QueryInput, _ ...request.Option) (*dynamodb.QueryOutput, error) {
	forward := true
	if in.ScanIndexForward != nil {
		forward = *in.ScanIndexForward
	}
	items, err := c.T.Query(aws.StringValue(in.TableName), aws.StringValue(in.KeyConditionExpression), names1(in.ExpressionAttributeNames), mapFromV1(in.ExpressionAttributeValues),
		aws.StringValue(in.ProjectionExpression), forward, aws.Int64Value(in.Limit), aws.BoolValue(in.ConsistentRead))
	if err != nil {
		return nil, err1(err)
	}
	out := &dynamodb.QueryOutput{}
	for _, it := range items {
		out.Items = append(out.Items, mapToV1(it))
	}
	n := int64(len(items))
	out.Count = &n
	return out, nil
}
