// Package ddb is a semantic fake of the part of DynamoDB a key table uses: one table with partition key Id (S)
// and sort key Created (N), GetItem / PutItem (with condition expressions) / Query (key condition, order, limit,
// projection), and eventually consistent reads that lag one write behind unless ConsistentRead is requested.
// It is written from the DynamoDB API semantics and is part of the trusted base of C13/C18.
package ddb

import (
	"fmt"
	"sort"
	"strconv"
	"strings"
	"sync"
)

// AV is a neutral attribute value.
type AV struct {
	Kind byte // S N B M L T(bool) 0(null)
	S    string
	B    []byte
	M    map[string]AV
	L    []AV
	Bool bool
}

func (a AV) clone() AV {
	c := a
	if a.B != nil {
		c.B = append([]byte(nil), a.B...)
	}
	if a.M != nil {
		c.M = map[string]AV{}
		for k, v := range a.M {
			c.M[k] = v.clone()
		}
	}
	if a.L != nil {
		c.L = make([]AV, len(a.L))
		for i, v := range a.L {
			c.L[i] = v.clone()
		}
	}
	return c
}

func cloneItem(m map[string]AV) map[string]AV {
	if m == nil {
		return nil
	}
	out := map[string]AV{}
	for k, v := range m {
		out[k] = v.clone()
	}
	return out
}

// Error is a DynamoDB service error.
type Error struct {
	Code string
	Msg  string
}

func (e *Error) Error() string { return e.Code + ": " + e.Msg }

const (
	ErrValidation  = "ValidationException"
	ErrNoTable     = "ResourceNotFoundException"
	ErrConditional = "ConditionalCheckFailedException"
)

type key struct {
	id      string
	created int64
}

// Table is the fake table.
type Table struct {
	mu    sync.Mutex
	Name  string
	items map[key]map[string]AV
	byID  map[string]map[int64]struct{} // partition key -> sort keys present
	// the most recent write, so that an eventually consistent read can be served from the state one write ago
	lastKey  key
	lastPrev map[string]AV // item previously stored under lastKey (nil = absent)
	hasLast  bool
	// counters
	Gets, Puts, Queries, Inconsistent int
	Region                            string
	// FailReads / FailWrites > 0 make that many following reads / writes fail with a service error
	FailReads, FailWrites int
	// WriteFault selects what an injected write failure looks like: "" = the service answers with an internal error
	// and nothing is written; "timeout-lost" = the request times out before it reaches the table; "timeout-applied" =
	// the write is applied (if its condition allows) but the response is lost, so the client sees a time-out.
	WriteFault string
	// OnWriteFault runs (outside the table's lock) after an injected write failure was decided and before the failing
	// call returns: what other clients of the table do in the meantime.
	OnWriteFault func()
}

// ErrTimeout is the error code of a request that timed out; the adapters turn it into the SDK's time-out error.
const ErrTimeout = "RequestTimeout"

// NewTable creates an empty table called name.
func NewTable(name string) *Table {
	return &Table{Name: name, items: map[key]map[string]AV{}, byID: map[string]map[int64]struct{}{}, Region: "us-west-2"}
}

func (t *Table) checkTable(name string) error {
	if name != t.Name {
		return &Error{ErrNoTable, "Requested resource not found: table " + name}
	}
	return nil
}

func keyOf(m map[string]AV, exact bool) (key, error) {
	id, ok1 := m["Id"]
	cr, ok2 := m["Created"]
	if !ok1 || !ok2 || id.Kind != 'S' || cr.Kind != 'N' {
		return key{}, &Error{ErrValidation, "The provided key element does not match the schema"}
	}
	if exact && len(m) != 2 {
		return key{}, &Error{ErrValidation, "The number of conditions on the keys is invalid"}
	}
	n, err := strconv.ParseInt(cr.S, 10, 64)
	if err != nil {
		return key{}, &Error{ErrValidation, "A value provided cannot be converted into a number"}
	}
	return key{id.S, n}, nil
}

func resolve(name string, names map[string]string) (string, error) {
	name = strings.TrimSpace(name)
	if strings.HasPrefix(name, "#") {
		v, ok := names[name]
		if !ok {
			return "", &Error{ErrValidation, "An expression attribute name used in the document path is not defined; attribute name: " + name}
		}
		return v, nil
	}
	if name == "" {
		return "", &Error{ErrValidation, "Invalid expression: empty path"}
	}
	return name, nil
}

func project(item map[string]AV, proj string, names map[string]string) (map[string]AV, error) {
	if item == nil {
		return nil, nil
	}
	if strings.TrimSpace(proj) == "" {
		return cloneItem(item), nil
	}
	out := map[string]AV{}
	for _, p := range strings.Split(proj, ",") {
		n, err := resolve(p, names)
		if err != nil {
			return nil, err
		}
		if v, ok := item[n]; ok {
			out[n] = v.clone()
		}
	}
	return out, nil
}

// lookup returns the item under k as seen by a strongly (consistent) or eventually consistent read; the latter
// lags exactly one write behind.
func (t *Table) lookup(k key, consistent bool) map[string]AV {
	if !consistent {
		if t.hasLast && k == t.lastKey {
			return t.lastPrev
		}
	}
	return t.items[k]
}

func (t *Table) noteInconsistent(consistent bool) {
	if !consistent {
		t.Inconsistent++
	}
}

// Get implements GetItem.
func (t *Table) Get(table string, k map[string]AV, proj string, names map[string]string, consistent bool) (map[string]AV, error) {
	t.mu.Lock()
	defer t.mu.Unlock()
	t.Gets++
	if t.FailReads > 0 {
		t.FailReads--
		return nil, &Error{"InternalServerError", "injected read failure"}
	}
	if err := t.checkTable(table); err != nil {
		return nil, err
	}
	kk, err := keyOf(k, true)
	if err != nil {
		return nil, err
	}
	t.noteInconsistent(consistent)
	return project(t.lookup(kk, consistent), proj, names)
}

// Put implements PutItem with an optional condition expression.
func (t *Table) Put(table string, item map[string]AV, cond string, names map[string]string) error {
	t.mu.Lock()
	t.Puts++
	if t.FailWrites > 0 {
		t.FailWrites--
		kind, hook := t.WriteFault, t.OnWriteFault
		var ferr error = &Error{"InternalServerError", "injected write failure"}
		switch kind {
		case "timeout-lost":
			ferr = &Error{ErrTimeout, "request timed out before it reached the table"}
		case "timeout-applied":
			_ = t.putLocked(table, item, cond, names)
			ferr = &Error{ErrTimeout, "response lost"}
		}
		t.mu.Unlock()
		if hook != nil {
			hook()
		}
		return ferr
	}
	defer t.mu.Unlock()
	return t.putLocked(table, item, cond, names)
}

func (t *Table) putLocked(table string, item map[string]AV, cond string, names map[string]string) error {
	if err := t.checkTable(table); err != nil {
		return err
	}
	kk, err := keyOf(item, false)
	if err != nil {
		return err
	}
	existing := t.items[kk]
	if c := strings.TrimSpace(cond); c != "" {
		ok, err := evalCond(c, existing, names)
		if err != nil {
			return err
		}
		if !ok {
			return &Error{ErrConditional, "The conditional request failed"}
		}
	}
	// remember the pre-write state for eventually consistent readers
	t.lastKey, t.lastPrev, t.hasLast = kk, existing, true
	t.items[kk] = cloneItem(item)
	if t.byID[kk.id] == nil {
		t.byID[kk.id] = map[int64]struct{}{}
	}
	t.byID[kk.id][kk.created] = struct{}{}
	return nil
}

// evalCond supports attribute_not_exists(path), attribute_exists(path) and AND of those.
func evalCond(c string, item map[string]AV, names map[string]string) (bool, error) {
	parts := splitAnd(c)
	for _, p := range parts {
		p = strings.TrimSpace(p)
		var fn string
		switch {
		case strings.HasPrefix(p, "attribute_not_exists"):
			fn = "attribute_not_exists"
		case strings.HasPrefix(p, "attribute_exists"):
			fn = "attribute_exists"
		default:
			return false, &Error{ErrValidation, "Invalid ConditionExpression: unsupported: " + p}
		}
		rest := strings.TrimSpace(strings.TrimPrefix(p, fn))
		if !strings.HasPrefix(rest, "(") || !strings.HasSuffix(rest, ")") {
			return false, &Error{ErrValidation, "Invalid ConditionExpression: syntax error: " + p}
		}
		path, err := resolve(rest[1:len(rest)-1], names)
		if err != nil {
			return false, err
		}
		_, exists := item[path]
		if item == nil {
			exists = false
		}
		if (fn == "attribute_not_exists" && exists) || (fn == "attribute_exists" && !exists) {
			return false, nil
		}
	}
	return true, nil
}

func splitAnd(s string) []string {
	var out []string
	up := strings.ToUpper(s)
	for {
		i := strings.Index(up, " AND ")
		if i < 0 {
			break
		}
		out = append(out, s[:i])
		s, up = s[i+5:], up[i+5:]
	}
	return append(out, s)
}

// Query implements Query for "<pk> = <value>" key conditions.
func (t *Table) Query(table, keyCond string, names map[string]string, values map[string]AV, proj string, forward bool, limit int64, consistent bool) ([]map[string]AV, error) {
	t.mu.Lock()
	defer t.mu.Unlock()
	t.Queries++
	if t.FailReads > 0 {
		t.FailReads--
		return nil, &Error{"InternalServerError", "injected read failure"}
	}
	if err := t.checkTable(table); err != nil {
		return nil, err
	}
	conds := splitAnd(keyCond)
	if len(conds) != 1 {
		return nil, &Error{ErrValidation, "Query condition: only a partition key equality is supported by this fake: " + keyCond}
	}
	lr := strings.SplitN(conds[0], "=", 2)
	if len(lr) != 2 {
		return nil, &Error{ErrValidation, "Invalid KeyConditionExpression: " + keyCond}
	}
	attr, err := resolve(lr[0], names)
	if err != nil {
		return nil, err
	}
	if attr != "Id" {
		return nil, &Error{ErrValidation, "Query condition missed key schema element: Id"}
	}
	vn := strings.TrimSpace(lr[1])
	val, ok := values[vn]
	if !ok || val.Kind != 'S' {
		return nil, &Error{ErrValidation, "An expression attribute value used in expression is not defined or has the wrong type: " + vn}
	}
	t.noteInconsistent(consistent)
	var keys []key
	for c := range t.byID[val.S] {
		k := key{val.S, c}
		if t.lookup(k, consistent) != nil {
			keys = append(keys, k)
		}
	}
	sort.Slice(keys, func(i, j int) bool {
		if forward {
			return keys[i].created < keys[j].created
		}
		return keys[i].created > keys[j].created
	})
	if limit > 0 && int64(len(keys)) > limit {
		keys = keys[:limit]
	}
	var out []map[string]AV
	for _, k := range keys {
		it, err := project(t.lookup(k, consistent), proj, names)
		if err != nil {
			return nil, err
		}
		out = append(out, it)
	}
	return out, nil
}

// SetWriteFault selects the kind of injected write failures and what runs while one is in flight.
func (t *Table) SetWriteFault(kind string, meanwhile func()) {
	t.mu.Lock()
	t.WriteFault, t.OnWriteFault = kind, meanwhile
	t.mu.Unlock()
}

// Stored returns the number of items in the table.
func (t *Table) Stored() int {
	t.mu.Lock()
	defer t.mu.Unlock()
	return len(t.items)
}

// SetFail arms read and write failures.
func (t *Table) SetFail(reads, writes int) {
	t.mu.Lock()
	t.FailReads, t.FailWrites = reads, writes
	t.mu.Unlock()
}

// Items returns a deep copy of the current items keyed "id|created".
func (t *Table) Items() map[string]map[string]AV {
	t.mu.Lock()
	defer t.mu.Unlock()
	out := map[string]map[string]AV{}
	for k, v := range t.items {
		out[fmt.Sprintf("%s|%d", k.id, k.created)] = cloneItem(v)
	}
	return out
}

// SetRevoked flips KeyRecord.Revoked of the item (id, created) to true, the way the operator's revocation script
// does (an out-of-band update of the item). Reports whether the item exists.
func (t *Table) SetRevoked(id string, created int64) bool {
	t.mu.Lock()
	defer t.mu.Unlock()
	it, ok := t.items[key{id, created}]
	if !ok {
		return false
	}
	kr, ok := it["KeyRecord"]
	if !ok || kr.Kind != 'M' {
		return false
	}
	c := kr.clone()
	c.M["Revoked"] = AV{Kind: 'T', Bool: true}
	n := cloneItem(it)
	n["KeyRecord"] = c
	t.items[key{id, created}] = n
	t.hasLast = false
	return true
}

// Mutate replaces the stored item (id, created) by f(copy of it) - storage-level corruption for hostile-input
// checks - and returns a function that restores the original. ok is false when there is no such item.
func (t *Table) Mutate(id string, created int64, f func(item map[string]AV) map[string]AV) (restore func(), ok bool) {
	t.mu.Lock()
	defer t.mu.Unlock()
	k := key{id, created}
	orig, ok := t.items[k]
	if !ok {
		return nil, false
	}
	t.items[k] = f(cloneItem(orig))
	t.hasLast = false
	return func() {
		t.mu.Lock()
		t.items[k] = orig
		t.hasLast = false
		t.mu.Unlock()
	}, true
}
