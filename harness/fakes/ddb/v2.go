package ddb

import (
	"context"
	"net/url"

	"github.com/aws/aws-sdk-go-v2/aws"
	"github.com/aws/aws-sdk-go-v2/service/dynamodb"
	"github.com/aws/aws-sdk-go-v2/service/dynamodb/types"
	"github.com/aws/smithy-go"
)

// V2 adapts a Table to the aws-sdk-go-v2 client interface used by the SDK's v2 DynamoDB metastore.
type V2 struct{ T *Table }

func fromV2(a types.AttributeValue) AV {
	switch v := a.(type) {
	case *types.AttributeValueMemberS:
		return AV{Kind: 'S', S: v.Value}
	case *types.AttributeValueMemberN:
		return AV{Kind: 'N', S: v.Value}
	case *types.AttributeValueMemberB:
		return AV{Kind: 'B', B: append([]byte(nil), v.Value...)}
	case *types.AttributeValueMemberBOOL:
		return AV{Kind: 'T', Bool: v.Value}
	case *types.AttributeValueMemberM:
		m := map[string]AV{}
		for k, x := range v.Value {
			m[k] = fromV2(x)
		}
		return AV{Kind: 'M', M: m}
	case *types.AttributeValueMemberL:
		l := make([]AV, len(v.Value))
		for i, x := range v.Value {
			l[i] = fromV2(x)
		}
		return AV{Kind: 'L', L: l}
	}
	return AV{Kind: '0'}
}

func toV2(a AV) types.AttributeValue {
	switch a.Kind {
	case 'S':
		return &types.AttributeValueMemberS{Value: a.S}
	case 'N':
		return &types.AttributeValueMemberN{Value: a.S}
	case 'B':
		return &types.AttributeValueMemberB{Value: append([]byte(nil), a.B...)}
	case 'T':
		return &types.AttributeValueMemberBOOL{Value: a.Bool}
	case 'M':
		m := map[string]types.AttributeValue{}
		for k, v := range a.M {
			m[k] = toV2(v)
		}
		return &types.AttributeValueMemberM{Value: m}
	case 'L':
		l := make([]types.AttributeValue, len(a.L))
		for i, v := range a.L {
			l[i] = toV2(v)
		}
		return &types.AttributeValueMemberL{Value: l}
	}
	return &types.AttributeValueMemberNULL{Value: true}
}

func mapFromV2(m map[string]types.AttributeValue) map[string]AV {
	out := map[string]AV{}
	for k, v := range m {
		out[k] = fromV2(v)
	}
	return out
}

func mapToV2(m map[string]AV) map[string]types.AttributeValue {
	if m == nil {
		return nil
	}
	out := map[string]types.AttributeValue{}
	for k, v := range m {
		out[k] = toV2(v)
	}
	return out
}

func err2(err error) error {
	if e, ok := err.(*Error); ok {
		if e.Code == ErrConditional {
			return &types.ConditionalCheckFailedException{Message: aws.String(e.Msg)}
		}
		if e.Code == ErrTimeout {
			return &smithy.OperationError{ServiceID: "DynamoDB", OperationName: "PutItem", Err: &url.Error{Op: "Post", URL: "https://dynamodb.us-west-2.amazonaws.com/", Err: timeoutErr{e.Msg}}}
		}
		return &smithy.GenericAPIError{Code: e.Code, Message: e.Msg}
	}
	return err
}

func (c V2) GetItem(_ context.Context, in *dynamodb.GetItemInput, _ ...func(*dynamodb.Options)) (*dynamodb.GetItemOutput, error) {
	it, err := c.T.Get(aws.ToString(in.TableName), mapFromV2(in.Key), aws.ToString(in.ProjectionExpression), in.ExpressionAttributeNames, aws.ToBool(in.ConsistentRead))
	if err != nil {
		return nil, err2(err)
	}
	return &dynamodb.GetItemOutput{Item: mapToV2(it)}, nil
}

func (c V2) PutItem(_ context.Context, in *dynamodb.PutItemInput, _ ...func(*dynamodb.Options)) (*dynamodb.PutItemOutput, error) {
	if err := c.T.Put(aws.ToString(in.TableName), mapFromV2(in.Item), aws.ToString(in.ConditionExpression), in.ExpressionAttributeNames); err != nil {
		return nil, err2(err)
	}
	return &dynamodb.PutItemOutput{}, nil
}

func (c V2) Query(_ context.Context, in *dynamodb.QueryInput, _ ...func(*dynamodb.Options)) (*dynamodb.QueryOutput, error) {
	forward := true
	if in.ScanIndexForward != nil {
		forward = *in.ScanIndexForward
	}
	var limit int64
	if in.Limit != nil {
		limit = int64(*in.Limit)
	}
	items, err := c.T.Query(aws.ToString(in.TableName), aws.ToString(in.KeyConditionExpression), in.ExpressionAttributeNames, mapFromV2(in.ExpressionAttributeValues),
		aws.ToString(in.ProjectionExpression), forward, limit, aws.ToBool(in.ConsistentRead))
	if err != nil {
		return nil, err2(err)
	}
	out := &dynamodb.QueryOutput{Count: int32(len(items))}
	for _, it := range items {
		out.Items = append(out.Items, mapToV2(it))
	}
	return out, nil
}

// Options implements the SDK's DynamoDBClient interface.
func (c V2) Options() dynamodb.Options { return dynamodb.Options{Region: c.T.Region} }

// timeoutErr is what net/http reports when the client's time-out elapses before the response arrives.
type timeoutErr struct{ msg string }

func (t timeoutErr) Error() string {
	return "net/http: request canceled (Client.Timeout exceeded while awaiting headers): " + t.msg
}
func (timeoutErr) Timeout() bool   { return true }
func (timeoutErr) Temporary() bool { return true }
