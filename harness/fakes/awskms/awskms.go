// Package awskms provides fake regional AWS KMS clients (one master key per region) behind the client
// interfaces of both AWS KMS plug-ins. The fakes keep every Plaintext buffer they hand out, log every call
// and can be told to fail per operation. Written from the KMS API semantics; trusted base of C17/C10.
package awskms

import (
	"bytes"
	"context"
	"crypto/aes"
	"crypto/cipher"
	"crypto/rand"
	"errors"
	"fmt"
	"sync"
	"time"

	kms2 "github.com/aws/aws-sdk-go-v2/service/kms"
	"github.com/aws/aws-sdk-go/aws"
	"github.com/aws/aws-sdk-go/aws/request"
	kms1 "github.com/aws/aws-sdk-go/service/kms"
)

// Call is one request seen by a regional fake.
type Call struct {
	Region string
	Op     string // generate | encrypt | decrypt
	OK     bool
}

// Cloud is a set of regions sharing one call log.
type Cloud struct {
	mu      sync.Mutex
	Regions map[string]*Region
	Log     []Call
	// Requests holds every byte string sent to the cloud (Encrypt plaintexts, Decrypt blobs).
	Requests [][]byte
	// ReqPlain holds the Plaintext slices of Encrypt requests themselves (same backing arrays): buffers that held the
	// data key on the caller's side.
	ReqPlain [][]byte
}

// Region is the fake KMS of one region.
type Region struct {
	Name   string
	ARN    string
	master []byte
	cloud  *Cloud

	FailGenerate, FailEncrypt, FailDecrypt bool
	// WrongPlaintext makes Decrypt succeed with a different data key (a stale or damaged regional KEK):
	// the KMS call works but the envelope cannot be opened with what it returned.
	WrongPlaintext bool
	// SlowFailGenerate > 0 makes GenerateDataKey hang for that long (or until the request's context is done) and
	// then fail: an endpoint that is slow to time out.
	SlowFailGenerate time.Duration
	// IncompleteGenerate makes GenerateDataKey answer with a Plaintext but without CiphertextBlob and KeyId (a
	// malformed but "successful" response); the plaintext is retained in Handed like every other one.
	IncompleteGenerate bool
	// SlowEncrypt makes Encrypt take that long (or until the request's context is done, in which case it fails).
	SlowEncrypt time.Duration
	// TimeoutDecrypt makes Decrypt fail with an error that wraps context.DeadlineExceeded, the way an HTTP client
	// timeout of the SDK surfaces, although the caller's context is alive.
	TimeoutDecrypt bool
	// Alias, when non-empty, is an alias ARN the region's key can also be addressed by; responses always report the
	// key ARN in KeyId, as KMS does.
	Alias string
	// Handed holds every Plaintext slice handed out in a response (same backing arrays).
	Handed [][]byte
	// HandedCopies holds private copies of those plaintexts (what the data keys were before the caller wiped them).
	HandedCopies [][]byte
}

// Open decrypts a blob produced by this region's key (test-side access to the fake's master key).
func (r *Region) Open(blob []byte) ([]byte, error) { return r.open(blob) }

// NewCloud creates the named regions.
func NewCloud(regions ...string) *Cloud {
	c := &Cloud{Regions: map[string]*Region{}}
	for _, r := range regions {
		m := make([]byte, 32)
		rand.Read(m)
		c.Regions[r] = &Region{Name: r, ARN: "arn:aws:kms:" + r + ":123456789012:key/" + r, master: m, cloud: c}
	}
	return c
}

// ARNMap returns region -> configured key id for the given regions: the key ARN, or the alias ARN of regions that
// have one.
func (c *Cloud) ARNMap(regions ...string) map[string]string {
	m := map[string]string{}
	for _, r := range regions {
		m[r] = c.Regions[r].ConfiguredID()
	}
	return m
}

// ConfiguredID is the id applications configure for the region's key.
func (r *Region) ConfiguredID() string {
	if r.Alias != "" {
		return r.Alias
	}
	return r.ARN
}

// UseAliases gives every region an alias ARN; ARNMap then hands out the aliases.
func (c *Cloud) UseAliases() {
	for _, r := range c.Regions {
		r.Alias = "arn:aws:kms:" + r.Name + ":123456789012:alias/asherah-" + r.Name
	}
}

// Reset clears failure flags, logs and retained buffers.
func (c *Cloud) Reset() {
	c.mu.Lock()
	defer c.mu.Unlock()
	c.Log, c.Requests, c.ReqPlain = nil, nil, nil
	for _, r := range c.Regions {
		r.FailGenerate, r.FailEncrypt, r.FailDecrypt, r.WrongPlaintext, r.SlowFailGenerate = false, false, false, false, 0
		r.IncompleteGenerate, r.SlowEncrypt, r.TimeoutDecrypt = false, 0, false
		r.Handed, r.HandedCopies = nil, nil
	}
}

func (c *Cloud) log(region, op string, ok bool) {
	c.Log = append(c.Log, Call{region, op, ok})
}

// Calls returns a copy of the call log.
func (c *Cloud) Calls() []Call {
	c.mu.Lock()
	defer c.mu.Unlock()
	return append([]Call(nil), c.Log...)
}

func (r *Region) seal(pt []byte) []byte {
	blk, _ := aes.NewCipher(r.master)
	g, _ := cipher.NewGCM(blk)
	nonce := make([]byte, 12)
	rand.Read(nonce)
	out := append([]byte("kmsblob:"+r.Name+":"), nonce...)
	return g.Seal(out, nonce, pt, []byte(r.ARN))
}

func (r *Region) open(blob []byte) ([]byte, error) {
	prefix := []byte("kmsblob:" + r.Name + ":")
	if !bytes.HasPrefix(blob, prefix) || len(blob) < len(prefix)+12 {
		return nil, errors.New("InvalidCiphertextException: blob was not produced by the key of region " + r.Name)
	}
	blk, _ := aes.NewCipher(r.master)
	g, _ := cipher.NewGCM(blk)
	rest := blob[len(prefix):]
	return g.Open(nil, rest[:12], rest[12:], []byte(r.ARN))
}

func (r *Region) owns(keyID string) bool {
	return keyID == r.ARN || (r.Alias != "" && keyID == r.Alias)
}

// ctxErr reports a request whose context is already done the way the AWS SDKs do (they do not send it).
func ctxErr(ctx context.Context) error {
	if ctx != nil && ctx.Err() != nil {
		return fmt.Errorf("RequestCanceled: request context canceled: %w", ctx.Err())
	}
	return nil
}

func (r *Region) generate(ctx context.Context, keyID string) (pt, blob []byte, err error) {
	if err := ctxErr(ctx); err != nil {
		r.cloud.mu.Lock()
		r.cloud.log(r.Name, "generate", false)
		r.cloud.mu.Unlock()
		return nil, nil, err
	}
	if d := r.SlowFailGenerate; d > 0 {
		var done <-chan struct{}
		if ctx != nil {
			done = ctx.Done()
		}
		select {
		case <-time.After(d):
		case <-done:
		}
		r.cloud.mu.Lock()
		r.cloud.log(r.Name, "generate", false)
		r.cloud.mu.Unlock()
		return nil, nil, fmt.Errorf("RequestTimeout: generate in %s timed out", r.Name)
	}
	r.cloud.mu.Lock()
	defer r.cloud.mu.Unlock()
	if r.FailGenerate || !r.owns(keyID) {
		r.cloud.log(r.Name, "generate", false)
		return nil, nil, fmt.Errorf("KMSInternalException: generate failed in %s", r.Name)
	}
	pt = make([]byte, 32)
	rand.Read(pt)
	blob = r.seal(pt)
	r.Handed = append(r.Handed, pt)
	r.HandedCopies = append(r.HandedCopies, append([]byte(nil), pt...))
	r.cloud.log(r.Name, "generate", true)
	return pt, blob, nil
}

func (r *Region) encrypt(ctx context.Context, keyID string, pt []byte) ([]byte, error) {
	if err := ctxErr(ctx); err != nil {
		r.cloud.mu.Lock()
		r.cloud.log(r.Name, "encrypt", false)
		r.cloud.mu.Unlock()
		return nil, err
	}
	if d := r.SlowEncrypt; d > 0 {
		var done <-chan struct{}
		if ctx != nil {
			done = ctx.Done()
		}
		select {
		case <-time.After(d):
		case <-done:
			r.cloud.mu.Lock()
			r.cloud.ReqPlain = append(r.cloud.ReqPlain, pt)
			r.cloud.log(r.Name, "encrypt", false)
			r.cloud.mu.Unlock()
			return nil, ctxErr(ctx)
		}
	}
	r.cloud.mu.Lock()
	defer r.cloud.mu.Unlock()
	r.cloud.Requests = append(r.cloud.Requests, append([]byte(nil), pt...))
	r.cloud.ReqPlain = append(r.cloud.ReqPlain, pt)
	if r.FailEncrypt || !r.owns(keyID) {
		r.cloud.log(r.Name, "encrypt", false)
		return nil, fmt.Errorf("KMSInternalException: encrypt failed in %s", r.Name)
	}
	r.cloud.log(r.Name, "encrypt", true)
	return r.seal(pt), nil
}

func (r *Region) decrypt(ctx context.Context, blob []byte) ([]byte, error) {
	if err := ctxErr(ctx); err != nil {
		r.cloud.mu.Lock()
		r.cloud.log(r.Name, "decrypt", false)
		r.cloud.mu.Unlock()
		return nil, err
	}
	r.cloud.mu.Lock()
	defer r.cloud.mu.Unlock()
	r.cloud.Requests = append(r.cloud.Requests, append([]byte(nil), blob...))
	if r.FailDecrypt {
		r.cloud.log(r.Name, "decrypt", false)
		return nil, fmt.Errorf("KMSInternalException: decrypt failed in %s", r.Name)
	}
	if r.TimeoutDecrypt {
		r.cloud.log(r.Name, "decrypt", false)
		return nil, fmt.Errorf("operation error KMS: Decrypt, https response error: request send failed in %s: %w", r.Name, context.DeadlineExceeded)
	}
	pt, err := r.open(blob)
	if err != nil {
		r.cloud.log(r.Name, "decrypt", false)
		return nil, err
	}
	if r.WrongPlaintext {
		pt = make([]byte, 32)
		rand.Read(pt)
	}
	r.Handed = append(r.Handed, pt)
	r.cloud.log(r.Name, "decrypt", true)
	return pt, nil
}

// V1 is the aws-sdk-go (v1) face of a region.
type V1 struct{ R *Region }

func (c V1) EncryptWithContext(ctx aws.Context, in *kms1.EncryptInput, _ ...request.Option) (*kms1.EncryptOutput, error) {
	b, err := c.R.encrypt(ctx, aws.StringValue(in.KeyId), in.Plaintext)
	if err != nil {
		return nil, err
	}
	return &kms1.EncryptOutput{CiphertextBlob: b, KeyId: aws.String(c.R.ARN)}, nil
}

func (c V1) GenerateDataKeyWithContext(ctx aws.Context, in *kms1.GenerateDataKeyInput, _ ...request.Option) (*kms1.GenerateDataKeyOutput, error) {
	pt, b, err := c.R.generate(ctx, aws.StringValue(in.KeyId))
	if err != nil {
		return nil, err
	}
	if c.R.IncompleteGenerate {
		return &kms1.GenerateDataKeyOutput{Plaintext: pt}, nil
	}
	return &kms1.GenerateDataKeyOutput{Plaintext: pt, CiphertextBlob: b, KeyId: aws.String(c.R.ARN)}, nil
}

func (c V1) DecryptWithContext(ctx aws.Context, in *kms1.DecryptInput, _ ...request.Option) (*kms1.DecryptOutput, error) {
	pt, err := c.R.decrypt(ctx, in.CiphertextBlob)
	if err != nil {
		return nil, err
	}
	return &kms1.DecryptOutput{Plaintext: pt, KeyId: aws.String(c.R.ARN)}, nil
}

// V2 is the aws-sdk-go-v2 face of a region.
type V2 struct{ R *Region }

func (c V2) Encrypt(ctx context.Context, in *kms2.EncryptInput, _ ...func(*kms2.Options)) (*kms2.EncryptOutput, error) {
	b, err := c.R.encrypt(ctx, aws.StringValue(in.KeyId), in.Plaintext)
	if err != nil {
		return nil, err
	}
	return &kms2.EncryptOutput{CiphertextBlob: b, KeyId: aws.String(c.R.ARN)}, nil
}

func (c V2) GenerateDataKey(ctx context.Context, in *kms2.GenerateDataKeyInput, _ ...func(*kms2.Options)) (*kms2.GenerateDataKeyOutput, error) {
	pt, b, err := c.R.generate(ctx, aws.StringValue(in.KeyId))
	if err != nil {
		return nil, err
	}
	if c.R.IncompleteGenerate {
		return &kms2.GenerateDataKeyOutput{Plaintext: pt}, nil
	}
	return &kms2.GenerateDataKeyOutput{Plaintext: pt, CiphertextBlob: b, KeyId: aws.String(c.R.ARN)}, nil
}

func (c V2) Decrypt(ctx context.Context, in *kms2.DecryptInput, _ ...func(*kms2.Options)) (*kms2.DecryptOutput, error) {
	pt, err := c.R.decrypt(ctx, in.CiphertextBlob)
	if err != nil {
		return nil, err
	}
	return &kms2.DecryptOutput{Plaintext: pt, KeyId: aws.String(c.R.ARN)}, nil
}
