#!/usr/bin/env python3
"""Rewrites seeded/MATRIX.md from the sweep results stored in every seed's meta.json (no checks are run)."""
import json, glob, os, subprocess
head = subprocess.check_output("git -C /repo log --format=%h -1", shell=True, text=True).strip()
rows = {}
for d in sorted(glob.glob("/verif/seeded/*/")):
    name = os.path.basename(d.rstrip("/"))
    try: rows[name] = json.load(open(d + "meta.json"))
    except Exception: rows[name] = {}
with open("/verif/seeded/MATRIX.md", "w") as f:
    f.write("# Seeded changes and the checks that catch them\n\nGenerated from the results of tools/par_sweep.py (quick tier, VERIF_SEED=1; /repo commit %s). rc 1 = caught (VIOLATION line), rc 0 = missed. The first check listed is the one of the property the change was written against.\n\n" % head)
    f.write("| seed | property | origin | what it needs | caught by (signature) | missed by |\n|---|---|---|---|---|---|\n")
    n = caught_nominal = 0
    for name in sorted(rows):
        m = rows[name]; ch = m.get("sweep", {}).get("checks", {})
        if not ch: continue
        n += 1
        prim = m.get("property")
        if ch.get(prim, {}).get("rc") == 1: caught_nominal += 1
        caught = "; ".join(f"{k} ({', '.join(v['signatures'][:2])})" for k, v in ch.items() if v["rc"] == 1)
        missed = ", ".join(f"{k}(rc={v['rc']})" for k, v in ch.items() if v["rc"] != 1)
        origin = "fix revert" if name.endswith("-revert") else ("hand-written" if name.startswith("own-") else "sub-agent")
        needs = (m.get("needs") or m.get("summary") or "")[:160].replace("|", "/").replace("\n", " ")
        f.write(f"| {name} | {prim} | {origin} | {needs} | {caught or '-'} | {missed or '-'} |\n")
    f.write(f"\n{n} seeded changes; {caught_nominal} caught by the check of the property they were written against, the rest by the neighbouring check listed.\n")
print("matrix written")
