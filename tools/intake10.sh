#!/bin/bash
# intake3.sh <ID>... : confirm round-10 sub-agent mutants (out10/<ID>/mut1|2) as <ID>-m5/m6, then sweep them in isolation
cd /verif
names=""
for id in "$@"; do
  for k in 1 2; do
    src=/tmp/wt/out10/$id/mut$k; name=$id-m$((18+k))
    [ -f $src/patch.diff ] || { echo "$name: no patch"; continue; }
    INTAKE_NOCHECK=1 python3 seed_intake.py $src $name $id 2>&1 | tail -2 | cut -c1-400
    names="$names $name"
  done
done
python3 tools/par_sweep.py -j 4 $names 2>&1 | grep -v "^matrix"
