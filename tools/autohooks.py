#!/usr/bin/env python3
"""autohooks.py <outdir>: sync-point delay injection by build overlay. For the lock-using files of the
appencryption package, writes a copy in which every non-deferred `x.Unlock()` / `x.RUnlock()` statement is followed
by `verifHook("auto.after_unlock:<file>:<line>", nil)` and prints the path of a `go build -overlay` JSON file.
The hook is a no-op unless a sink is installed; a goroutine that has just released a lock is at a point where a
scheduler may pause it (it may still hold an outer lock: the harness applies the same nesting rule as for the
hand-placed points). The copy is regenerated from /repo's current working tree on every run."""
import json, os, re, sys
out = sys.argv[1]
os.makedirs(out, exist_ok=True)
repl = {}
pat = re.compile(r'^(\s*)([A-Za-z_][\w\.\(\)\*]*)\.(RUnlock|Unlock)\(\)\s*$')
deferpat = re.compile(r'^(\s*)defer\s+([A-Za-z_][\w\.\(\)\*]*)\.(RUnlock|Unlock)\(\)\s*$')
lockpat = re.compile(r'^(\s*)([A-Za-z_][\w\.\(\)\*]*)\.(RLock|Lock)\(\)\s*$')
for rel in ["go/appencryption/key_cache.go", "go/appencryption/session_cache.go", "go/appencryption/envelope.go", "go/appencryption/session.go"]:
    src = os.path.join(os.environ.get("VERIF_REPO", "/repo"), rel)
    lines = open(src).read().split("\n")
    res, n = [], 0
    for i, line in enumerate(lines, 1):
        lm = lockpat.match(line)
        if lm and "defer" not in line:
            # a goroutine about to take a lock: a natural preemption point (stress workloads yield here; the
            # schedule enumerator does not park here because an outer lock may be held)
            res.append(f'{lm.group(1)}verifHook("auto.before_lock:{os.path.basename(rel)}:{i}", nil)')
            n += 1
        dm = deferpat.match(line)
        if dm:
            # a deferred unlock: the window opens when the function returns. The statement is replaced by a deferred
            # closure that unlocks and then reports the point (yield-only: the schedule enumerators do not park here)
            res.append(f'{dm.group(1)}defer func() {{ {dm.group(2)}.{dm.group(3)}(); verifHook("auto.after_deferred_unlock:{os.path.basename(rel)}:{i}", nil) }}()')
            n += 1
            continue
        res.append(line)
        m = pat.match(line)
        if m and "defer" not in line:
            res.append(f'{m.group(1)}verifHook("auto.after_unlock:{os.path.basename(rel)}:{i}", nil)')
            n += 1
    if n:
        dst = os.path.join(out, os.path.basename(rel))
        open(dst, "w").write("\n".join(res))
        repl[src] = dst
j = os.path.join(out, "overlay.json")
json.dump({"Replace": repl}, open(j, "w"))
print(j)
