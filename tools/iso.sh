#!/bin/bash
# iso.sh <seed-name|patch-file|-> <ID> [tier] : run one check against a seeded change in an isolated copy of /repo + /verif
# (never touches /repo). Leaves the copy under /tmp/iso/<seed-name> for inspection; remove it when done.
name=$1; id=$2; tier=${3:-quick}
patch=/verif/seeded/$name/patch.diff
if [ -f "$name" ]; then patch=$name; name=$(echo "$name" | tr '/.' '__'); fi
w=/tmp/iso/$name-$id; rm -rf $w; mkdir -p $w
cp -a /repo $w/repo
rsync -a --exclude .git --exclude logs --exclude replays --exclude evidence /verif/ $w/verif/
sed -i "s|=> /repo/|=> $w/repo/|" $w/verif/harness/go.mod
if [ "$name" != "-" ]; then git -C $w/repo apply $patch || git -C $w/repo apply -3 $patch || exit 3; fi
cd $w/verif && VERIF_REPO=$w/repo ${ISO_ENV:+env $ISO_ENV} ./check $id $tier; echo "rc=$? (logs in $w/verif/logs)"
