#!/usr/bin/env python3
"""hangwitness.py <log1> <log2>: both logs end in the goroutine dump of a `go test` time-out. Prints the SDK functions
(one per line) in which a goroutine has been waiting for a lock (sync.Mutex / sync.RWMutex) for at least a minute in
BOTH dumps. Empty output = no common witness."""
import re, sys
def blocked(path):
    out = set()
    txt = open(path, errors="replace").read()
    for g in re.split(r"\n(?=goroutine \d+ )", txt):
        m = re.match(r"goroutine \d+ (?:gp=\S+ m=\S+ (?:mp=\S+ )?)?\[(sync\.(?:RW)?Mutex\.R?Lock|semacquire)(?:, (\d+) minutes)?", g)
        if not m or not m.group(2) or int(m.group(2)) < 1:
            continue
        for line in g.splitlines()[1:]:
            f = re.match(r"(github\.com/godaddy/asherah/(?:go|server)/[^\s(]+(?:\([^)]*\))?[^\s(]*)\(", line)
            if f and "_test" not in line:
                out.add(re.sub(r"\(0x[0-9a-f, x?]*\)$", "", f.group(1)))
                break
    return out
a, b = blocked(sys.argv[1]), blocked(sys.argv[2])
for f in sorted(a & b):
    print(f)
