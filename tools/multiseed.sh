#!/usr/bin/env bash
# multiseed.sh <tier> <seed>... : runs every check at the given tier for each VERIF_SEED, sequentially; prints one line per run.
# Any rc other than 0 on the unchanged tree is an alarm to investigate.
cd "$(dirname "$0")/.."
TIER=$1; shift
IDS=${VERIF_IDS:-"C01 C02 C03 C04 C05 C06 C07 C08 C09 C10 C11 C12 C13 C14 C15 C16 C17 C18 C19 C20"}
for s in "$@"; do
  for id in $IDS; do
    t0=$(date +%s)
    out=$(VERIF_SEED=$s ./check $id $TIER 2>&1); rc=$?
    echo "seed=$s $id rc=$rc wall=$(( $(date +%s)-t0 ))s $(echo "$out" | grep -E '^(VIOLATION|BROKEN|INCONCLUSIVE)' | head -3 | tr '\n' ' ')"
    if [ $rc -ne 0 ]; then mkdir -p keep; cp logs/$id-$TIER.log keep/$id-$TIER-seed$s.log 2>/dev/null; fi
  done
done
echo MULTISEED-DONE
