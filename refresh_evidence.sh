#!/usr/bin/env bash
# Re-runs every claimed quick check on the current (unchanged) tree so that the committed evidence files are
# the ones written by the checks themselves against /repo as it is.
cd "$(dirname "$0")"
if ! git -C /repo diff --quiet; then echo "repo dirty"; exit 3; fi
ids=$(python3 -c "import json;print(' '.join(c['property_id'] for c in json.load(open('MANIFEST.json'))['checks']))")
fail=0
for id in $ids; do
  out=$(./check $id quick 2>&1); rc=$?
  echo "$id rc=$rc $(echo "$out" | grep -E '^EVIDENCE' | cut -c1-140)"
  [ $rc -ne 0 ] && { fail=1; echo "$out" | head -5; }
done
python3-vt - <<'PY'
import json, jsonschema, glob
sch=json.load(open('/root/.vp/EVIDENCE.schema.json'))
for f in sorted(glob.glob('/verif/evidence/*.json')):
    try: jsonschema.validate(json.load(open(f)), sch)
    except Exception as e: print("INVALID", f, str(e)[:200])
print("evidence validated")
PY
exit $fail
