#!/usr/bin/env bash
# Runs the repository's own test suite with the verif guard OFF (no -tags verif), the way BASELINE.json does.
# Prints "BASELINE pass=<n> fail=<n>" and exits 0 when every test listed as stable_pass in /root/.vp/BASELINE.json passes.
set -u
export GOPROXY=off GOSUMDB=off GOTOOLCHAIN=local
unset GOFLAGS
OUT=${1:-/tmp/verif-baseline-$$.json}
: > "$OUT"
for m in ./go/appencryption ./go/appencryption/integrationtest ./go/securememory ./server/go ./tests/cross-language/go; do
  ( cd /repo/$m || exit 0
    gw=$(go env GOWORK 2>/dev/null); MF=""
    if [ -z "$gw" ] || [ "$gw" = off ]; then MF="-mod=mod"; fi
    go test $MF -json -vet=off -count=1 -timeout 25m ./... ) >> "$OUT" 2>/dev/null
done
python3 - "$OUT" <<'PY'
import json,sys
res={}
for line in open(sys.argv[1]):
    try: e=json.loads(line)
    except Exception: continue
    if e.get("Action") in ("pass","fail") and e.get("Test"):
        res[e["Package"]+"::"+e["Test"]]=e["Action"]
base=json.load(open("/root/.vp/BASELINE.json"))["stable_pass"]
missing=[t for t in base if res.get(t)!="pass"]
print("BASELINE pass=%d fail=%d stable_expected=%d stable_not_passing=%d"%(sum(v=="pass" for v in res.values()),sum(v=="fail" for v in res.values()),len(base),len(missing)))
for t in missing[:30]: print("  NOT PASSING:",t,res.get(t))
sys.exit(1 if missing else 0)
PY
rc=$?
rm -f "$OUT"
exit $rc
