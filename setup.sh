#!/usr/bin/env bash
# Builds (and thereby caches) every engine of the harness, offline, with and without the race detector.
set -eu
cd "$(dirname "$0")/harness"
export GOFLAGS=-mod=mod GOPROXY=off GOSUMDB=off GOTOOLCHAIN=local
go1.26.8 vet -tags verif ./... >/dev/null 2>&1 || true
go1.26.8 test -tags verif -count=1 -run '^$' ./... 
go1.26.8 test -tags verif -race -count=1 -run '^$' ./...
echo setup-ok
