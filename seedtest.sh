#!/usr/bin/env bash
# ./seedtest.sh <seeded-dir-or-patch> <ID> [<ID>...]  : apply patch to /repo, run quick checks, restore, report.
set -u
cd "$(dirname "$0")"
P=$1; shift
[ -d "$P" ] && P="$P/patch.diff"
if ! git -C /repo diff --quiet; then echo "repo dirty, refusing"; exit 3; fi
git -C /repo apply "$(readlink -f "$P")" || { echo "patch does not apply"; exit 3; }
EVBAK=$(mktemp -d); cp -a evidence/. $EVBAK/ 2>/dev/null
trap 'git -C /repo checkout -- . ; cp -a $EVBAK/. evidence/ 2>/dev/null; rm -rf $EVBAK' EXIT
for id in "$@"; do
  out=$(VERIF_SEED=${VERIF_SEED:-1} ./check "$id" ${TIER:-quick} 2>&1); rc=$?
  echo "== $id rc=$rc $(echo "$out" | grep -c '^VIOLATION') violation line(s)"
  echo "$out" | grep -E '^(VIOLATION|  signature|BROKEN)' | head -6 | cut -c1-300
done
