#!/usr/bin/env python3
"""seed_intake.py <src-dir> <seed-name> <check-id>[,<check-id>...]
Confirms a sub-agent's seeded change in a scratch worktree (existing tests pass with it, demo fails with it and
passes without it), stores it under /verif/seeded/<seed-name>/ and runs the named quick checks against it."""
import json, os, re, shutil, subprocess, sys, time
src, name, ids = sys.argv[1], sys.argv[2], sys.argv[3].split(",")
WT = "/tmp/wt/verify-" + name
env = dict(os.environ, GOPROXY="off", GOSUMDB="off"); env.pop("GOFLAGS", None)
def sh(cmd, cwd=None, timeout=1800):
    p = subprocess.run(cmd, shell=True, cwd=cwd, env=env, capture_output=True, text=True, timeout=timeout)
    return p.returncode, (p.stdout + p.stderr)
dst = f"/verif/seeded/{name}"
os.makedirs(dst, exist_ok=True)
for f in ("patch.diff", "demo_test.go", "meta.json"):
    if os.path.exists(f"{src}/{f}"): shutil.copy(f"{src}/{f}", f"{dst}/{f}")
meta = {}
try: meta = json.load(open(f"{dst}/meta.json"))
except Exception: pass
head = open(f"{dst}/demo_test.go").read().split("package ")[0]
m = re.search(r"[Pp]lace in:?\s+(\S+)", head); ddir = m.group(1).rstrip("/").rstrip(")") if m else "go/appencryption"
m = re.search(r"-run\s+'([^']+)'", head); pat = m.group(1) if m else "."
mod = "go/appencryption" if ddir.startswith("go/appencryption") else ("go/securememory" if ddir.startswith("go/securememory") else "server/go")
modflag = "" if mod == "go/appencryption" else "-mod=mod"
gobin = "go" if mod != "server/go" else "GOTOOLCHAIN=local go1.26.8"
rel = "./" + os.path.relpath(ddir, mod) if ddir != mod else "."
res = {"demo_dir": ddir, "demo_run": pat}
sh(f"git -C /repo worktree remove --force {WT}"); shutil.rmtree(WT, ignore_errors=True)
rc, out = sh(f"git -C /repo worktree add -q --detach {WT} HEAD"); assert rc == 0, out
try:
    rc, out = sh(f"git apply {dst}/patch.diff", cwd=WT)
    if rc != 0:
        rc, out = sh(f"git apply -3 {dst}/patch.diff", cwd=WT)
    res["patch_applies_to_head"] = rc == 0
    if rc == 0:
        sh("git diff > /tmp/wt/cur.diff", cwd=WT)
        # rebased patch against the current HEAD is what we keep
        sh(f"git diff -- . ':(exclude)*go.sum' ':(exclude)*go.mod' ':(exclude)*go.work.sum' > {dst}/patch.diff", cwd=WT)
        pk = ". ./internal/... ./pkg/... ./plugins/..." if mod == "go/appencryption" else "./..."
        rc, out = sh(f"{gobin} test {modflag} -vet=off -count=1 {pk}", cwd=f"{WT}/{mod}")
        fails = [l for l in out.splitlines() if l.startswith("--- FAIL") or l.startswith("FAIL")]
        if mod == "go/securememory":
            fails = [l for l in fails if "MemLockLimit" not in l and not re.match(r"FAIL\s*$", l) and "protectedmemory" not in l.split()[-2:][0:1]]
        res["existing_tests_pass_with_change"] = (rc == 0) or (mod == "go/securememory" and not [l for l in out.splitlines() if l.startswith("--- FAIL") and "MemLockLimit" not in l])
        res["existing_tests_fail_lines"] = fails[:5]
        shutil.copy(f"{dst}/demo_test.go", f"{WT}/{ddir}/zz_seed_demo_test.go")
        rc, out = sh(f"{gobin} test {modflag} -vet=off -count=1 -run '{pat}' {rel}", cwd=f"{WT}/{mod}")
        res["demo_fails_with_change"] = rc != 0 and ("--- FAIL" in out or "panic" in out or "FAIL" in out)
        res["demo_with_change_tail"] = out[-400:]
        sh(f"git apply -R {dst}/patch.diff", cwd=WT)
        rc, out = sh(f"{gobin} test {modflag} -vet=off -count=1 -run '{pat}' {rel}", cwd=f"{WT}/{mod}")
        res["demo_passes_without_change"] = rc == 0
        if rc != 0: res["demo_without_change_tail"] = out[-400:]
finally:
    sh(f"git -C /repo worktree remove --force {WT}"); shutil.rmtree(WT, ignore_errors=True)
# now our checks
det = {}
if res.get("patch_applies_to_head") and os.environ.get("INTAKE_NOCHECK") != "1":
    rc, out = sh("git -C /repo diff --quiet"); assert rc == 0, "repo dirty"
    rc, out = sh(f"git -C /repo apply {dst}/patch.diff"); assert rc == 0, out
    evbak = subprocess.check_output("mktemp -d", shell=True, text=True).strip()
    sh(f"cp -a /verif/evidence/. {evbak}/")
    try:
        for cid in ids:
            t0 = time.time()
            rc, out = sh(f"./check {cid} quick", cwd="/verif", timeout=3600)
            sigs = re.findall(r"signature: (.*)", out)
            det[cid] = {"rc": rc, "violation_lines": out.count("\nVIOLATION") + out.startswith("VIOLATION"), "signatures": sorted(set(sigs))[:6], "wall_s": round(time.time() - t0, 1)}
    finally:
        sh("git -C /repo checkout -- .")
        sh(f"cp -a {evbak}/. /verif/evidence/; rm -rf {evbak}")
if len(ids) > 1: meta["also"] = ids[1:]
meta.update({"confirmed": res, "checks_run_quick": det, "confirmed_at_repo_commit": subprocess.check_output("git -C /repo log --format=%h -1", shell=True, text=True).strip()})
json.dump(meta, open(f"{dst}/meta.json", "w"), indent=1)
print(name, json.dumps(res)[:600]); print("  detection:", json.dumps(det))
