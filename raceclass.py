#!/usr/bin/env python3
"""raceclass.py <race-log-files...>: classifies Go race-detector report blocks.
prints: <n_reports> <n_with_sdk_access> ; a report counts as an SDK race when at least one of its two racing
accesses happens in code reached through godaddy/asherah (top non-runtime frame not in the harness)."""
import re, sys
text = "".join(open(f, errors="replace").read() for f in sys.argv[1:])
blocks = [b for b in text.split("==================") if "WARNING: DATA RACE" in b]
sdk = 0
for b in blocks:
    # split into access stacks
    parts = re.split(r"\n(?=(?:Write|Read|Previous write|Previous read|Atomic|Previous atomic)[^\n]* by )", b)
    acc = [p for p in parts if re.match(r"(Write|Read|Previous write|Previous read|Atomic|Previous atomic)", p.strip())]
    harness_side = 0
    for a in acc[:2]:
        frames = re.findall(r"\n  ([^\s(][^\n]*)\n\s+(/[^\n]+)", a)
        top = None
        for fn, loc in frames:
            if fn.startswith(("runtime.", "sync.", "sync/atomic.", "internal/")):
                continue
            top = (fn, loc); break
        if top and ("verif/harness" in top[0] or "/verif/harness/" in top[1]):
            harness_side += 1
    if len(acc) >= 2 and harness_side == 2:
        continue
    if "godaddy/asherah" in b:
        sdk += 1
print(len(blocks), sdk)
