#!/usr/bin/env python3
"""Regenerates /verif/MANIFEST.json from the table below and validates it against the schema."""
import json, subprocess, sys
HOOK_COMMITS = ["82d54e0", "06e15f0", "cd0ed04", "7dd122d"]

# id: (engine, level, technique, level_text, level_note, design_ref)
P = {
 "C15": ("cachemodel", "exploration",
         "reference-model monitor over bounded-exhaustive + seeded random op sequences (testing/synctest quiescence for async callbacks)",
         "Every canonical sequence of Set/Get/Delete/clock-advance/Close up to the tier's length over 3 keys, capacities 1-3 (and shorter sequences on nearly empty caches of capacity 99-250), four policies, expiry on/off, sync/async callbacks is executed on the real cache and compared after every op with a reference model (exact for LRU/SLRU, exact up to ties for LFU, generic invariants for TinyLFU), plus seeded random sequences at capacities on both sides of the 80% and 1% thresholds, plus real-goroutine rounds (8 workers; every key set once with a unique value, then read and deleted by anybody) with a conservation oracle: each entry is removed by exactly one successful Delete or reported by exactly one callback carrying its own value. Held on what was executed; nothing beyond the bound is claimed.",
         "Trusted: the reference models (written from the policy definitions), testing/synctest quiescence, Go runtime. Panics are caught per sequence; a 120 s no-progress watchdog reports a hang.",
         "3/C15"),
 "C01": ("hist", "exploration",
         "round-trip oracle over seeded random histories in a testing/synctest virtual-time bubble (monitored metastore/KMS/AEAD/secret factory)",
         "Seeded random histories interleave encrypt/store, decrypt/load through the same, another and a brand-new factory, session and factory churn with random cache policies (all five key-cache policies, capacities 1..1000, shared IK cache, session cache, no cache, both secure-memory implementations), clock advances across precision/revoke/lifetime boundaries and out-of-band revocations; every decrypt is compared with the recorded payload, caller buffers are compared before/after, and a final sweep decrypts every record through a fresh factory; metastore reads, KMS calls and secure-memory allocations fail transiently and external calls take virtual time; half of the histories run end to end over a real metastore plug-in (DynamoDB v1/v2 on the semantic fake, SQL on the mini SQL engine). Real-goroutine rounds let 6 cold factories encrypt for one new partition at once over each back end with their key inserts held at a barrier, and a cold factory must decrypt every record, as must a late process whose sessions hit its cold system-key cache together. A migration scenario reads legacy (unsuffixed) records after the region suffix is switched on, in two regions; a regional-KMS scenario writes through both AWS KMS plug-ins and reads from new processes in either region while either region is unreachable. Held on the histories executed (counts in the evidence).",
         "Trusted: testing/synctest virtual clock, in-memory metastore / DynamoDB fake and StaticKMS as stand-ins for real back ends, Go's AES-GCM.",
         "3/C01"),
 "C03": ("hist", "exploration",
         "online trace checker over AEAD/KMS/metastore/secret-factory/log monitor events (key-role provenance typing, duplicate-free nonce and (key,nonce) sets, artefact byte scanning)",
         "Every AEAD.Encrypt the SDK issues during seeded histories (debug logging on) is typed against the hierarchy payload<fresh DRK<partition IK<service SK<KMS using roles derived from provenance; nonce and (key,nonce) sets must stay duplicate-free; each data key must be a CreateRandom secret of the same call used exactly once; every record, stored row, KMS output and log line is scanned for known plaintext keys/payloads in raw, base64 (std/url), hex, decimal-list and Go-syntax renderings. Transient read/KMS/allocator faults run inside the histories, and a scripted matrix fails the k-th allocation or KMS call of the first operation of a process that loads persisted keys and then checks the records it goes on to write. The test binary is re-executed as several consecutive process lives over the same persisted keys: the (key, nonce) pairs of all lives must be pairwise distinct. Partition ids include case twins and every record must name its own partition's key id. The gRPC sidecar's standard log is captured while requests fail on injected faults and scanned too.",
         "Trusted: monitors see everything because the SDK reaches AEAD/KMS/metastore/secret factory only through these interfaces; a 96-bit nonce repeat is treated as a violation.",
         "3/C03"),
 "C04": ("hist", "exploration",
         "per-record oracle in virtual time (testing/synctest) over seeded histories plus a deterministic boundary matrix",
         "For every record produced in seeded histories and in a deterministic matrix (6 cache configurations x 5 SK/IK age offsets x warm/cold sessions, encrypts placed +-1ns/+-1s around every IK/SK expiry boundary and SK expiry + one interval) the oracle recomputes from the record, raw rows, the insert log and the virtual clock: IK age <= lifetime; no IK row inserted under an expired SK; no record under an IK whose SK expired more than one revoke-check interval ago. Matrix variants place a transient read or KMS fault on every encrypt after the SK expired (the operation may fail but must not fall back to the stale key), and a gated schedule holds one process in front of its system-key insert while another completes a rotation (the loser must adopt the new key, and a cold process must read every record afterwards); the matrix is repeated with a zero revoke-check interval.",
         "Trusted: testing/synctest clock; policies satisfy ExpireKeyAfter >= 2*CreateDatePrecision; metastore accepts writes.",
         "3/C04"),
 "C05": ("hist", "exploration",
         "per-record oracle in virtual time over seeded histories with out-of-band revocations plus a deterministic matrix; known-finding filter by signature",
         "Rows are flagged revoked directly in the raw store under live, long-lived sessions; for every later record the oracle decides from the record, raw rows, flip log and virtual clock whether a key revoked more than 1 (IK) / 2 (parent SK) revoke-check intervals ago is still named although a later stamp was creatable; records under revoked keys must still decrypt. Matrix: 6 configurations x {latest/older IK/SK} x 5 flip offsets x other-process-rotated, then an encrypt every R/4 for 4R; repeated with a zero revoke-check interval, with a KMS that cannot wrap replacement system keys (encrypts may fail but no intermediate key may be created under a system key flagged longer ago than the bound) and, end to end, over the DynamoDB and SQL plug-ins on their fakes (the revocation is an out-of-band update of the item / row).",
         "Trusted: testing/synctest clock. Known finding F11 (decrypt-path seeding of the 'latest' alias) is listed in known_findings.json and reproduced deterministically on every run.",
         "3/C05"),
 "C02": ("faults", "fault_enumeration",
         "fault enumeration (every call index x every fault kind, then every second fault) over monitored metastore/KMS/AEAD with a raw-store audit and a crash-model decrypt",
         "For 10 key states x 3 cache configurations a clean run records the external-call trace of the encrypt under test; every call index then gets every fault kind valid for it (error, false-without-write, write-then-error, write-then-false, one-precision-unit latency) and, depth-first, every second fault at each later call of the faulted run (sampled in quick, complete in thorough). After each execution the raw store is audited for the IK and SK rows named by the returned record, a brand-new cache-less factory (crash) must decrypt it, a failed op must return (nil, err), and after faults stop the next encrypt and earlier records must work on the same session. Encrypt and decrypt operations are enumerated. The enumeration is repeated (single faults, sampled pairs) with region-suffixed key ids and over the DynamoDB and SQL plug-ins on their fakes; with both AWS KMS plug-ins over a fake two-region cloud as the KMS (the crash-model process prefers the other region and finds the first one unreachable); real-goroutine rounds let six cold processes insert the same new keys at once over every back end (DynamoDB plug-ins also with their own region-suffix option), in some rounds with the first insert lost (service error / time-out) until a rival has inserted.",
         "Trusted: testing/synctest clock; faults fail without partial effect except the explicit write-then-error kinds; partial writes inside a real database are out of reach.",
         "3/C02"),
 "C09": ("faults", "fault_enumeration",
         "leak ledger (tracking SecretFactory) over fault enumeration incl. allocator and AEAD faults, duplicate-key schedules, with call-site attribution through a tagged hook",
         "Every secret the SDK allocates goes through a ledger wrapped around the real memguard factory. Over the C02 cells plus decrypt ops and a session-cache configuration, every single fault position in metastore/KMS/AEAD/allocator/secret access (access refused, or release failing after the callback ran; pairs sampled in quick, all in thorough), every memory primitive of the real secure-memory implementations failing in turn (monitored memcall), the caller's context cancelled while a KMS call is in flight, over 2-process duplicate-key schedules and over the gRPC sidecar's stream handler (streams ending normally or aborted): the data key must be closed when the call returns, with caching disabled every secret of the call must be closed at return, and after session+factory Close (asynchronous teardown quiesced with synctest.Wait) every secret must have been closed and never touched afterwards.",
         "Known finding F7b (reference on the re-resolved parent SK never released) is attributed through the ikfromekr.reresolved_sk hook and listed in known_findings.json; any other leak fails the check.",
         "3/C09"),
 "C10": ("faults", "fault_enumeration",
         "retained-buffer scan: monitors keep the very slices that held key plaintext and read them at return, over fault enumeration and over fake regional AWS KMS clients",
         "The AEAD, KMS and SecretFactory monitors retain every slice that carried key plaintext (argument of SecretFactory.New, AEAD.Decrypt outputs other than the caller's payload, KMS.DecryptKey outputs, GenerateDataKey/Decrypt Plaintext and Encrypt request buffers of the fake AWS clients, also when the AEAD fails after the data key was handed out) and check they are all-zero when the public call returns, for every single fault position (pairs sampled/complete) in metastore/KMS/AEAD/allocator/secret access/memcall primitive (real secure memory over a monitored memcall) over encrypt and decrypt ops, with the caller's context cancelled during a KMS call, and for every wrap/unwrap failure combination of both AWS plug-ins up to 2 (quick) / 3 (thorough) regions.",
         "Holding the reference keeps the memory from being recycled, so reading it after the call is sound. Only buffers that cross a monitored interface are visible.",
         "3/C10"),
 "C13": ("mstore", "exploration",
         "reference-table monitor (bounded-exhaustive + random sequences) per backend over a mini SQL engine / semantic DynamoDB fake; porcupine linearizability check of concurrent histories; race detector",
         "Memory, SQL (MySQL/Postgres/Oracle placeholder dialects) and both DynamoDB metastores are driven with every Store/Load/LoadLatest sequence up to the tier's length over 2 ids x 3 stamps, seeded random sequences with binary keys/flags/parent meta, all compared call-by-call with a reference insert-only table; concurrent 8-client histories are checked per id with porcupine and racing duplicate inserts must have exactly one winner; the DynamoDB fake serves non-ConsistentRead reads one write behind so a dropped consistency flag is observable. Back-end faults: failed reads (also a row fetch that fails after the statement was accepted) must be errors, never 'absent'; a write that fails or times out (never applied / applied with the response lost) while a rival inserts the same key may report success only if the table holds the caller's record.",
         "Trusted: the mini SQL engine and the DynamoDB fake (written from documented semantics). Real databases are out of reach offline.",
         "3/C13"),
 "C14": ("faults", "exploration",
         "controlled scheduler: every interleaving of metastore calls of 2-3 processes enumerated depth-first with replay (gates in the metastore monitor, synctest.Wait as quiescence)",
         "Each process is a goroutine with its own factory over one gated metastore in one virtual-time bubble; the controller releases exactly one parked metastore call per step and enumerates all schedules depth-first (quick truncates per cell; thorough completes the 2-process cells) from cold / expired / revoked (outside and inside the keys' creation window) / stale-cache starting states. After each schedule: no encrypt failed, every record's IK and SK rows exist, every process and a fresh factory decrypt every record, no stored row changed, and every generated key whose insert was refused (identified through the AEAD/KMS monitors) has been released. The racing-creator cells are repeated end to end over the DynamoDB and SQL plug-ins; real-goroutine rounds over every back end let six cold processes' key inserts overlap inside the metastore implementation itself.",
         "Processes = separate factories sharing store+KMS; sessions of one factory share mutexes and are covered by C08's stress part instead.",
         "3/C14"),
 "C17": ("awskms", "fault_enumeration",
         "exhaustive regional failure enumeration over fake AWS KMS clients behind both plug-in client interfaces, cross-version",
         "For 1..3 (quick) / 1..4 (thorough) regions: every preferred region x every subset failing GenerateDataKey x every subset failing Encrypt; for each envelope every non-empty configured subset x preferred x every subset failing Decrypt, for v1->v1, v2->v2, v1->v2, v2->v1 and several builds (map orders; every other v2 build starts from a base aws.Config that already carries a region); regions that hang for 1 s .. 10 min of virtual time before they time out, with context-aware fakes; keys configured by alias ARN (KMS answers with the key ARN); a failing region next to a slow healthy one; client-side timeout errors at unwrap. Every envelope must open under the generated data key only, each entry must be that region's wrapping of it, and no plaintext data key may be inside. Oracle over results and the per-region call log: success iff a configured region with an entry can decrypt, identical bytes, preferred-first order for Decrypt and GenerateDataKey, envelope entries = regions that succeeded, plaintext data key wiped, SK bytes never in a request.",
         "Trusted: fake regional clients written from the KMS API semantics. Real AWS is out of reach.",
         "3/C17"),
 "C20": ("hist", "exploration",
         "exact call-count oracle from metastore/KMS monitors in virtual time, attributed to the key-cache scope, plus barrier schedules at the lock-free hook point of GetOrLoad and at auto-generated after-unlock hooks (build overlay) inside the latest-key lookup",
         "A producer creates keys and records; a cold factory under test with 1-3 sessions for 1-20 partitions runs seeded mixes of encrypts/decrypts with clock advances strictly before, just after and long after loadedAt+interval for per-session, shared, session-cached and uncached configurations. Repeats of an op that already succeeded must make 0 external calls inside the interval, exactly 1 read of the key's record on first use after it, never a Store; one KMS unwrap per SK per factory per interval; without caching (for both or for one key type, whatever the shared-cache option says) every call loads and retains no secret. The interval set includes zero (every use at a later instant re-reads exactly once). An in-place rotation (keys expire while cached as latest) followed by further partitions must stay within one unwrap per system key; a session that was idle for longer than the interval while its keys expired re-reads each key's record exactly once and unwraps nothing. N sessions reaching a stale key at the same instant (decrypt and encrypt path, same/new partitions, shared IK cache) must cause one reload.",
         "Keys never expire and nothing is revoked in these scenarios so that every call is attributable to caching.",
         "3/C20"),
 "C06": ("inputs", "exploration",
         "adversarial id-pair generation from the key-id naming scheme executed through the real decrypt path; err != nil oracle; known-finding filter by signature",
         "Pairs of distinct partition ids derived from the naming scheme (P vs P_service_product[_region], prefixes, suffixes, case/unicode variants and simple-fold twins, ids that would match if ids were interpreted as regex/glob/LIKE patterns, ids embedding _IK_/_SK_, 255-byte ids, random) for four service/product shapes are executed in both directions, cold and warm, with per-session, shared-IK and session caches, over a plain metastore, a suffix-advertising wrapper and the real DynamoDB v1/v2 metastores with region suffix on the fake: a session for B must return an error for A's record each of three times in a row (once more after one of its own records); empty ids must be refused. A lifecycle pass uses sessions after Close, closes them twice and interleaves other partitions' sessions; a real-goroutine pass opens sessions for several partitions concurrently and presents each other's records. Ids include invalid UTF-8 bytes and format verbs.",
         "Known finding F3 (suffixed partition accepts ids that merely start with its unsuffixed IK id) is excused by a narrow signature; every other foreign decrypt fails the check. Region suffixes are assumed underscore-free.",
         "3/C06"),
 "C07": ("inputs", "exploration",
         "systematic mutation (exhaustive single-bit flips, truncations, splices, hostile parent meta, corrupted key rows) with a payload-or-error oracle; recover() per case; race detector / checkptr",
         "Every single-bit flip and truncation of Data and of the encrypted data key of a genuine corpus, all ordered pairs of records exchanging Data/key/parent meta/created, parent meta pointing at every existing key id with odd Created values (also on a region-suffixing metastore), structurally empty records, random JSON, every bit flip of IK/SK row ciphertexts and malformed rows seen by cold factories, storage-level corruption underneath the real plug-ins (DynamoDB items of wrong shape/type, malformed key_record JSON in SQL), Session.Load with hostile loaders, and records presented to sessions closed once or twice or whose factory is closed: each case must yield exactly the payload originally encrypted under that Data, or an error; a panic or process death is a violation.",
         "AES-GCM tag forgery (2^-128 per mutant) is treated as impossible. Runs under -race, which implies checkptr.",
         "3/C07"),
 "C08": ("conc", "exploration",
         "controlled scheduler over verif hook points (all interleavings, DFS with replay, synctest.Wait quiescence) plus seeded stress with yields at the same hooks under the Go race detector; use-after-destroy ledger",
         "2-3 goroutines with short programs park at the lock-free hook points around the key-cache lookup and while holding a tracked key; the controller releases one per step and enumerates all schedules for shared IK caches of capacity 1-2 under lru/lfu/slru/tinylfu, an SK cache of capacity 1 with two SK generations, rotation while an old record is decrypted, another session closing, refresh on every access, a hot (promoted/demoted, or just refreshed in place) key in use while the cache churns. Auto-generated hooks after every unlock (also deferred ones) / before every lock of the lock-using SDK files (build overlay regenerated from the working tree) are additional park/yield points. A last pass runs the load against a factory built from the SDK's own parts with every harness monitor removed, so that the race detector sees the SDK's synchronisation only. Stress: 16-32 real goroutines over 8-150 partitions on capacity-1/2 and capacity-100 (asynchronous eviction) caches and cached sessions, yields injected at the hooks, race reports parsed. Oracle: every op not racing with its own session's close succeeds with the right bytes; the ledger sees no access to a destroyed secret.",
         "Gates are only placed where the parked goroutine holds no lock another goroutine of the scenario needs. A clean race-detector run is not race freedom.",
         "3/C08"),
 "C11": ("secmem", "exploration",
         "kernel-state oracle (/proc/self/smaps) at hooked points of real secrets, bounded-exhaustive operation sequences, concurrent reader/closer rounds in synctest bubbles under the race detector, faults turned into attributed panics",
         "For memguard and protectedmemory secrets on real mlock'd pages: every sequence of L operations over {WithBytes, WithBytesFunc, nested reader, io.Reader, Close, IsClosed} for 9 sizes from 1 byte to 3 pages + 1 is compared with a model (bytes, errors, IsClosed) and the page's permissions / lock flag are sampled from smaps inside readers (r--, locked), between operations (---, locked, not dumpable) and after Close (unmapped or unlocked); reader callbacks that panic (recovered by the caller) must leave the pages ---, later readers working and Close neither blocking nor failing; 1-8 readers x 1-3 closers race in bubbles: readers see the original bytes or the closed error, no callback runs when a Close returns, a Close that never returns is a detected deadlock, nothing faults; accesses that arrive while a Close is waiting for a reader in flight are refused and do not postpone it.",
         "smaps is sampled on a subset of sequences (cost). strace-based lifecycle checking is not part of the registered check.",
         "3/C11"),
 "C12": ("secmem", "fault_enumeration",
         "memcall monitor over the real awnumar/memcall (region table, content inspection at unlock) with every call index failing, through verif-tagged constructors; GC/finalizer drain; synctest deadlock detection",
         "Both implementations are built on a monitored memcall: every call index of {New/CreateRandom, plain/nested/func/io.Reader reads incl. a chunked read-all, Close, second Close} fails without effect (pairs in thorough) plus a failing random source. Oracle: error returned (also by the read that reaches EOF), no region left mapped without a faulted release attempt, no non-zero content at unlock, failed access leaves the secret usable, failed Close retriable (and a read in between is refused or sees the secret, never other bytes), InUseCounter balanced, and after a failed creation a healthy secret created next survives GC cycles (finalizer of the failed one).",
         "memguard allocates/locks inside the third-party library (panics by design): only Protect and cleanup positions are injectable there. Known finding F9m (memguard munlocks an unwiped buffer when the first Protect fails) is listed.",
         "3/C12"),
 "C16": ("conc", "exploration",
         "bounded-exhaustive session-cache programs in virtual time with a holder/teardown monitor over the env.close hook and debug-log correlation; stress under the race detector",
         "Every program of L steps over {get session for partition 0/1/2, use oldest/newest handle, close oldest/newest handle, advance past SessionCacheDuration, close factory} for cache sizes 1-2 and the eviction policies; synctest.Wait quiesces the asynchronous Remove goroutines after every step; every held handle must keep working, consecutive gets share one *Session, teardown (env.close) fires exactly once per session incarnation and never while the harness counts a holder. Programs are repeated with session-cache durations of 250 years and MaxInt64. Long scripted programs drive caches of 100/101 entries (3x capacity partitions, double requests, revisits, a handle held across the churn) for all policies; seeded real-time schedules of holders, closers and evicting newcomers run with before-lock/after-unlock yield hooks. Stress: 16 goroutines x 6 partitions, size-2 cache, 1-2 ms expiry, same oracle after quiescence; plus monitor-free passes for the race detector.",
         "Session incarnations are identified through the SDK's [newSession] debug line (addresses are reused).",
         "3/C16"),
 "C18": ("format", "exploration",
         "differential check against an independent reference codec written from the documentation, both directions, through every persistence format and the gRPC mapping; known-answer vectors",
         "A reference implementation using only encoding/json on generic maps, base64 and crypto/aes+cipher parses strictly and decrypts what the SDK writes, and the SDK decrypts what the reference writes, through JSON DRRs, memory, SQL key_record rows (3 dialects), DynamoDB v1/v2 items (with/without region suffix), mixed hierarchies (reference SK, SDK IK), StaticKMS envelopes and protobuf messages; field names/presence, base64, ciphertext|tag|nonce and key-id shapes are asserted; key blobs of every base64 padding class go through every store in both directions, the application's payload buffer is reused before the record is serialised, region suffixes of default-client constructions are checked; with the suffix configured the SDK reads reference-written records of another region and of the time before the suffix; intermediate-key stamps fall on either side of the system key's; McGrew-Viega AES-256-GCM vectors must open through the SDK's AEAD.",
         "The reference stands in for the Java/C# peers; Go's AES-GCM is anchored by the known answers.",
         "3/C18"),
 "C19": ("grpcsrv", "exploration",
         "reference protocol automaton over bounded-exhaustive request sequences on an in-process stream plus concurrent streams over real gRPC (bufconn) under the race detector",
         "Every request sequence up to length L over {get-session valid/empty, encrypt, decrypt genuine/foreign/corrupt/empty(4 shapes), empty request} + end-of-stream runs through AppEncryption.Session; an automaton {uninitialised, initialised, rejected} gives the expected response class, responses are counted per request, panics recovered. 8 concurrent streams x seeded 40-request sequences per round over bufconn check the same automaton per stream (a handler panic there kills the process and is reported as a crash), for the server built with and without the shared session cache (three partitions, cache of 2) and with neither --expire-after nor --check-interval, and cold-start rounds of 8 lock-step streams run against a fresh server whose metastore alternates between healthy and failing (all reads / only SK reads / only IK reads) with ever-changing error texts; a broken-peer scenario fails the k-th Send of one stream while a sibling stream of the same partition stays open and the partition is then evicted; an aged-sidecar scenario runs the stream handler in virtual time past --expire-after (rotation on a long-lived stream, old and new records through old and new streams).",
         "main() and flag parsing are not exercised.",
         "3/C19"),
}
CLAIMED = ["C01", "C02", "C03", "C04", "C05", "C06", "C07", "C08", "C09", "C10", "C11", "C12", "C13", "C14", "C15", "C16", "C17", "C18", "C19", "C20"]
PENDING_REASON = "check not built yet in this round (work in progress; see DESIGN.md section 3 for the planned monitor)"

checks = []
for pid in CLAIMED:
    eng, level, tech, text, note, ref = P[pid]
    checks.append({
        "property_id": pid,
        "quick_cmd": f"./check {pid} quick",
        "thorough_cmd": f"./check {pid} thorough",
        "evidence_file": f"/verif/evidence/{pid}.json",
        "replay_cmd_template": f"./check {pid} quick --replay {{path}}",
        "engine": eng,
        "level_claimed": {"category": level, "text": text, "design_ref": ref},
        "level_note": note,
        "technique": tech,
    })
allids = [json.loads(l)["id"] for l in open("/verif/properties.jsonl")]
na = [{"property_id": i, "reason": PENDING_REASON} for i in allids if i not in CLAIMED]
engines = {}
for pid in CLAIMED:
    engines.setdefault(P[pid][0], []).append(pid)
m = {
 "version": 1,
 "setup_cmd": "./setup.sh",
 "hooks": {
  "guard": "verif (Go build tag)",
  "enable": "checks build /repo through the harness module's replace directives with `go1.26.8 test -tags verif`; C08, C16 and C20 additionally pass a build overlay generated by tools/autohooks.py from /repo's current working tree (verifHook calls after every unlock / before every lock of key_cache.go, session_cache.go, envelope.go, session.go; no file in /repo is changed)",
  "baseline_off_cmd": "/verif/baseline_off.sh",
  "source_commits": HOOK_COMMITS,
  "add_only": True,
 },
 "engines": [{"name": k, "path": f"/verif/harness/engines/{k}", "serves_properties": v,
              "kind_free_text": "go test package run by ./check with -tags verif"} for k, v in engines.items()],
 "checks": checks,
 "not_applicable": na,
 "notes": "Runtime monitoring only: every check executes the real code from /repo's working tree (Go replace directives) under monitors; see DESIGN.md. known_findings.json lists repaired (fixed:) and recorded (known) defects.",
}
json.dump(m, open("/verif/MANIFEST.json", "w"), indent=1)
try:
    import jsonschema
    jsonschema.validate(m, json.load(open("/root/.vp/MANIFEST.schema.json")))
    print("MANIFEST valid;", len(checks), "checks,", len(na), "not_applicable")
except ImportError:
    print("jsonschema not importable here; run with python3-vt")
