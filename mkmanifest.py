#!/usr/bin/env python3
"""Regenerates /verif/MANIFEST.json from the table below and validates it against the schema."""
import json, subprocess, sys
HOOK_COMMITS = ["82d54e0", "06e15f0"]

# id: (engine, level, technique, level_text, level_note, design_ref)
P = {
 "C15": ("cachemodel", "exploration",
         "reference-model monitor over bounded-exhaustive + seeded random op sequences (testing/synctest quiescence for async callbacks)",
         "Every canonical sequence of Set/Get/Delete/clock-advance/Close up to the tier's length over 3 keys, capacities 1-3, four policies, expiry on/off, sync/async callbacks is executed on the real cache and compared after every op with a reference model (exact for LRU/SLRU, exact up to ties for LFU, generic invariants for TinyLFU), plus seeded random sequences at capacities on both sides of the 80% and 1% thresholds. Held on what was executed; nothing beyond the bound is claimed.",
         "Trusted: the reference models (written from the policy definitions), testing/synctest quiescence, Go runtime. Panics are caught per sequence; a 120 s no-progress watchdog reports a hang.",
         "3/C15"),
}
CLAIMED = ["C15"]
PENDING_REASON = "check not built yet in this round (work in progress; see DESIGN.md section 3 for the planned monitor)"

checks = []
for pid in CLAIMED:
    eng, level, tech, text, note, ref = P[pid]
    checks.append({
        "property_id": pid,
        "quick_cmd": f"./check {pid} quick",
        "thorough_cmd": f"./check {pid} thorough",
        "evidence_file": f"/verif/evidence/{pid}.json",
        "replay_cmd_template": f"./check {pid} quick --replay {{path}}",
        "engine": eng,
        "level_claimed": {"category": level, "text": text, "design_ref": ref},
        "level_note": note,
        "technique": tech,
    })
allids = [json.loads(l)["id"] for l in open("/verif/properties.jsonl")]
na = [{"property_id": i, "reason": PENDING_REASON} for i in allids if i not in CLAIMED]
engines = {}
for pid in CLAIMED:
    engines.setdefault(P[pid][0], []).append(pid)
m = {
 "version": 1,
 "setup_cmd": "./setup.sh",
 "hooks": {
  "guard": "verif (Go build tag)",
  "enable": "checks build /repo through the harness module's replace directives with `go1.26.8 test -tags verif`",
  "baseline_off_cmd": "/verif/baseline_off.sh",
  "source_commits": HOOK_COMMITS,
  "add_only": True,
 },
 "engines": [{"name": k, "path": f"/verif/harness/engines/{k}", "serves_properties": v,
              "kind_free_text": "go test package run by ./check with -tags verif"} for k, v in engines.items()],
 "checks": checks,
 "not_applicable": na,
 "notes": "Runtime monitoring only: every check executes the real code from /repo's working tree (Go replace directives) under monitors; see DESIGN.md. known_findings.json lists repaired (fixed:) and recorded (known) defects.",
}
json.dump(m, open("/verif/MANIFEST.json", "w"), indent=1)
try:
    import jsonschema
    jsonschema.validate(m, json.load(open("/root/.vp/MANIFEST.schema.json")))
    print("MANIFEST valid;", len(checks), "checks,", len(na), "not_applicable")
except ImportError:
    print("jsonschema not importable here; run with python3-vt")
