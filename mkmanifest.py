#!/usr/bin/env python3
"""Regenerates /verif/MANIFEST.json from the table below and validates it against the schema."""
import json, subprocess, sys
HOOK_COMMITS = ["82d54e0", "06e15f0"]

# id: (engine, level, technique, level_text, level_note, design_ref)
P = {
 "C15": ("cachemodel", "exploration",
         "reference-model monitor over bounded-exhaustive + seeded random op sequences (testing/synctest quiescence for async callbacks)",
         "Every canonical sequence of Set/Get/Delete/clock-advance/Close up to the tier's length over 3 keys, capacities 1-3, four policies, expiry on/off, sync/async callbacks is executed on the real cache and compared after every op with a reference model (exact for LRU/SLRU, exact up to ties for LFU, generic invariants for TinyLFU), plus seeded random sequences at capacities on both sides of the 80% and 1% thresholds. Held on what was executed; nothing beyond the bound is claimed.",
         "Trusted: the reference models (written from the policy definitions), testing/synctest quiescence, Go runtime. Panics are caught per sequence; a 120 s no-progress watchdog reports a hang.",
         "3/C15"),
 "C01": ("hist", "exploration",
         "round-trip oracle over seeded random histories in a testing/synctest virtual-time bubble (monitored metastore/KMS/AEAD/secret factory)",
         "Seeded random histories interleave encrypt/store, decrypt/load through the same, another and a brand-new factory, session and factory churn with random cache policies (all five key-cache policies, capacities 1..1000, shared IK cache, session cache, no cache, both secure-memory implementations), clock advances across precision/revoke/lifetime boundaries and out-of-band revocations; every decrypt is compared with the recorded payload, caller buffers are compared before/after, and a final sweep decrypts every record through a fresh factory. Held on the histories executed (counts in the evidence).",
         "Trusted: testing/synctest virtual clock, in-memory metastore and StaticKMS as stand-ins for real back ends, Go's AES-GCM.",
         "3/C01"),
 "C03": ("hist", "exploration",
         "online trace checker over AEAD/KMS/metastore/secret-factory/log monitor events (key-role provenance typing, duplicate-free nonce and (key,nonce) sets, artefact byte scanning)",
         "Every AEAD.Encrypt the SDK issues during seeded histories (debug logging on) is typed against the hierarchy payload<fresh DRK<partition IK<service SK<KMS using roles derived from provenance; nonce and (key,nonce) sets must stay duplicate-free; each data key must be a CreateRandom secret of the same call used exactly once; every record, stored row, KMS output and log line is scanned for known plaintext keys/payloads in raw, base64 and hex form.",
         "Trusted: monitors see everything because the SDK reaches AEAD/KMS/metastore/secret factory only through these interfaces; a 96-bit nonce repeat is treated as a violation.",
         "3/C03"),
 "C04": ("hist", "exploration",
         "per-record oracle in virtual time (testing/synctest) over seeded histories plus a deterministic boundary matrix",
         "For every record produced in seeded histories and in a deterministic matrix (6 cache configurations x 5 SK/IK age offsets x warm/cold sessions, encrypts placed +-1ns/+-1s around every IK/SK expiry boundary and SK expiry + one interval) the oracle recomputes from the record, raw rows, the insert log and the virtual clock: IK age <= lifetime; no IK row inserted under an expired SK; no record under an IK whose SK expired more than one revoke-check interval ago.",
         "Trusted: testing/synctest clock; policies satisfy ExpireKeyAfter >= 2*CreateDatePrecision; metastore accepts writes.",
         "3/C04"),
 "C05": ("hist", "exploration",
         "per-record oracle in virtual time over seeded histories with out-of-band revocations plus a deterministic matrix; known-finding filter by signature",
         "Rows are flagged revoked directly in the raw store under live, long-lived sessions; for every later record the oracle decides from the record, raw rows, flip log and virtual clock whether a key revoked more than 1 (IK) / 2 (parent SK) revoke-check intervals ago is still named although a later stamp was creatable; records under revoked keys must still decrypt. Matrix: 6 configurations x {latest/older IK/SK} x 5 flip offsets x other-process-rotated, then an encrypt every R/4 for 4R.",
         "Trusted: testing/synctest clock. Known finding F11 (decrypt-path seeding of the 'latest' alias) is listed in known_findings.json and reproduced deterministically on every run.",
         "3/C05"),
}
CLAIMED = ["C01", "C03", "C04", "C05", "C15"]
PENDING_REASON = "check not built yet in this round (work in progress; see DESIGN.md section 3 for the planned monitor)"

checks = []
for pid in CLAIMED:
    eng, level, tech, text, note, ref = P[pid]
    checks.append({
        "property_id": pid,
        "quick_cmd": f"./check {pid} quick",
        "thorough_cmd": f"./check {pid} thorough",
        "evidence_file": f"/verif/evidence/{pid}.json",
        "replay_cmd_template": f"./check {pid} quick --replay {{path}}",
        "engine": eng,
        "level_claimed": {"category": level, "text": text, "design_ref": ref},
        "level_note": note,
        "technique": tech,
    })
allids = [json.loads(l)["id"] for l in open("/verif/properties.jsonl")]
na = [{"property_id": i, "reason": PENDING_REASON} for i in allids if i not in CLAIMED]
engines = {}
for pid in CLAIMED:
    engines.setdefault(P[pid][0], []).append(pid)
m = {
 "version": 1,
 "setup_cmd": "./setup.sh",
 "hooks": {
  "guard": "verif (Go build tag)",
  "enable": "checks build /repo through the harness module's replace directives with `go1.26.8 test -tags verif`",
  "baseline_off_cmd": "/verif/baseline_off.sh",
  "source_commits": HOOK_COMMITS,
  "add_only": True,
 },
 "engines": [{"name": k, "path": f"/verif/harness/engines/{k}", "serves_properties": v,
              "kind_free_text": "go test package run by ./check with -tags verif"} for k, v in engines.items()],
 "checks": checks,
 "not_applicable": na,
 "notes": "Runtime monitoring only: every check executes the real code from /repo's working tree (Go replace directives) under monitors; see DESIGN.md. known_findings.json lists repaired (fixed:) and recorded (known) defects.",
}
json.dump(m, open("/verif/MANIFEST.json", "w"), indent=1)
try:
    import jsonschema
    jsonschema.validate(m, json.load(open("/root/.vp/MANIFEST.schema.json")))
    print("MANIFEST valid;", len(checks), "checks,", len(na), "not_applicable")
except ImportError:
    print("jsonschema not importable here; run with python3-vt")
